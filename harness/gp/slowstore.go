package gp

import (
	"context"
	"sync/atomic"
	"syscall"

	"github.com/cosi-project/runtime/pkg/resource"
	"github.com/cosi-project/runtime/pkg/state/impl/inmem"
)

// SlowStore is an inmem.BackingStore that persists nothing and takes a little REAL time per Put/Destroy (raw nanosleep: the
// virtual clock of a synctest bubble must not be slept on under the collection's mutex - a mutex wait is not a durable block). It
// stands for a state with a persistent backing store: whatever the collection does around its store calls (what it holds locked, what
// it re-checks afterwards) is exposed to the other goroutines that run in the same virtual instant.
type SlowStore struct {
	Micros int
	Puts   atomic.Int64
	Dels   atomic.Int64
}

func (s *SlowStore) nap() {
	ts := syscall.NsecToTimespec(int64(s.Micros) * 1000)
	_ = syscall.Nanosleep(&ts, nil)
}

// Load implements inmem.BackingStore.
func (s *SlowStore) Load(context.Context, inmem.LoadHandler) error { return nil }

// Put implements inmem.BackingStore.
func (s *SlowStore) Put(context.Context, resource.Type, resource.Resource) error {
	s.Puts.Add(1)
	s.nap()

	return nil
}

// Destroy implements inmem.BackingStore.
func (s *SlowStore) Destroy(context.Context, resource.Type, resource.Pointer) error {
	s.Dels.Add(1)
	s.nap()

	return nil
}
