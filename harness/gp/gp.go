// Package gp is the gate + recording proxy (engine E2): a state.CoreState wrapper that
//   - delays every operation and every forwarded watch event by a seeded virtual delay (gate),
//   - serialises writes and appends every successful one, with pre/post snapshots and the issuing actor,
//     to one global commit log (recorder),
//   - records where in that log every watch was established,
//   - can inject faults (fail the next N writes of a kind, push an Errored event into watches).
package gp

import (
	"context"
	"fmt"
	"math/rand/v2"
	"runtime"
	"slices"
	"sync"
	"time"

	"github.com/cosi-project/runtime/pkg/resource"
	"github.com/cosi-project/runtime/pkg/state"

	"verif/harness/res"
)

type actorKey struct{}

// WithActor tags a context with the issuing actor.
func WithActor(ctx context.Context, name string) context.Context {
	return context.WithValue(ctx, actorKey{}, name)
}

type noGateKey struct{}

// WithNoGate marks a context whose operations bypass the gate (no virtual delay before the operation or its reply).
func WithNoGate(ctx context.Context) context.Context {
	return context.WithValue(ctx, noGateKey{}, true)
}

func noGate(ctx context.Context) bool { b, _ := ctx.Value(noGateKey{}).(bool); return b }

// Actor extracts the actor ("" if none).
func Actor(ctx context.Context) string {
	s, _ := ctx.Value(actorKey{}).(string)

	return s
}

// Snap is the observable value of a resource.
type Snap struct {
	Ver     uint64            `json:"ver"`
	Owner   string            `json:"owner,omitempty"`
	Phase   string            `json:"phase"`
	Fins    []string          `json:"fins,omitempty"`
	Token   string            `json:"token,omitempty"`
	Val     int64             `json:"val,omitempty"`
	S       []string          `json:"s,omitempty"`
	Labels  map[string]string `json:"labels,omitempty"`
	Created int64             `json:"created,omitempty"`
}

// TearingDown reports the phase.
func (s *Snap) TearingDown() bool { return s != nil && s.Phase == resource.PhaseTearingDown.String() }

// SnapOf snapshots a resource (nil for nil/tombstone).
func SnapOf(r resource.Resource) *Snap {
	if r == nil || resource.IsTombstone(r) {
		return nil
	}

	md := r.Metadata()
	s := &Snap{
		Ver: md.Version().Value(), Owner: md.Owner(), Phase: md.Phase().String(),
		Fins: slices.Clone([]string(*md.Finalizers())), Created: md.Created().UnixNano(),
	}

	if raw := md.Labels().Raw(); len(raw) > 0 {
		s.Labels = map[string]string{}
		for k, v := range raw {
			s.Labels[k] = v
		}
	}

	if sp := res.SpecOf(r); sp != nil {
		s.Token, s.Val, s.S = sp.Token, sp.Val, slices.Clone(sp.S)
	}

	return s
}

// Key identifies a resource.
type Key struct{ NS, Type, ID string }

func (k Key) String() string { return k.NS + "/" + k.Type + "/" + k.ID }

// KeyOf builds a key from a pointer.
func KeyOf(p resource.Pointer) Key { return Key{p.Namespace(), p.Type(), p.ID()} }

// Commit is one successful write (or a probe note).
type Commit struct {
	Seq   int    `json:"seq"`
	Op    string `json:"op"` // create | update | destroy | note
	Actor string `json:"actor,omitempty"`
	Key   Key    `json:"key"`
	Pre   *Snap  `json:"pre,omitempty"`
	Post  *Snap  `json:"post,omitempty"`
	Note  string `json:"note,omitempty"`
	At    int64  `json:"at_ns"` // (virtual) time
	// Opts of the call
	OptOwner string `json:"opt_owner,omitempty"`
	OptPhase string `json:"opt_phase,omitempty"`
}

// WatchRec is one watch establishment.
type WatchRec struct {
	Actor  string `json:"actor,omitempty"`
	Key    Key    `json:"key"`
	Kind   string `json:"kind"` // single | kind | agg
	Lo, Hi int
	Err    string `json:"err,omitempty"`
}

// Proxy is the gate + recorder.
type Proxy struct {
	Inner state.CoreState

	mu      sync.Mutex
	log     []Commit
	shadow  map[Key]*Snap
	watches []WatchRec
	rng     *rand.Rand
	// MaxDelay: each op/event sleeps rng in [0, MaxDelay] ticks; 0 disables the gate.
	MaxDelay int
	Tick     time.Duration
	// ReplyDelay: every third write additionally delays its reply by 1..MaxDelay ticks.
	ReplyDelay bool
	// MergeBatches: aggregated watch batches may be merged with the batches that follow them (see forward).
	MergeBatches bool
	// HoldWatch, if set, is called right before a watch is established (no proxy lock held). It models a slow watch
	// establishment (remote state). It must not sleep on the virtual clock - the runtime establishes watches under its
	// mutexes, and a mutex wait does not count as idle for synctest - but it may yield (runtime.Gosched) in real time
	// for a bounded number of rounds while other goroutines of the same virtual instant make progress.
	HoldWatch func(kind string, k Key)
	// OnCommit, if set, is called under the lock for every commit (online monitors).
	OnCommit func(c Commit, p *Proxy)

	failNext map[string]int // op -> remaining injected failures
	ops      []string       // op order trace (for interleaving hashes)
	TraceOps bool

	errMu      sync.Mutex
	deliveries []Delivery
	injectors  []func(error)     // live watch injectors
	ctxs       []context.Context //nolint:containedctx
}

// New creates a proxy.
func New(inner state.CoreState, rng *rand.Rand, maxDelay int) *Proxy {
	return &Proxy{Inner: inner, shadow: map[Key]*Snap{}, rng: rng, MaxDelay: maxDelay, Tick: time.Millisecond, failNext: map[string]int{}}
}

// Delivery records when a watch event was handed to its consumer by the proxy.
type Delivery struct {
	Key  Key
	At   int64 // (virtual) ns
	Type string
}

// Deliveries returns the events handed to watch consumers so far.
func (p *Proxy) Deliveries() []Delivery {
	p.errMu.Lock()
	defer p.errMu.Unlock()

	return slices.Clone(p.deliveries)
}

func (p *Proxy) delivered(evs ...state.Event) {
	now := time.Now().UnixNano()

	p.errMu.Lock()
	defer p.errMu.Unlock()

	for _, ev := range evs {
		if ev.Resource != nil && (ev.Type == state.Created || ev.Type == state.Updated || ev.Type == state.Destroyed) {
			p.deliveries = append(p.deliveries, Delivery{Key: KeyOf(ev.Resource.Metadata()), At: now, Type: ev.Type.String()})
		}
	}
}

// ErrInjected is returned by injected write failures.
var ErrInjected = fmt.Errorf("verif: injected store failure")

// FailNext makes the next n calls of op ("create","update","destroy") fail before reaching the store.
func (p *Proxy) FailNext(op string, n int) { p.mu.Lock(); p.failNext[op] += n; p.mu.Unlock() }

// ClearFailures drops injected failures that have not been consumed yet.
func (p *Proxy) ClearFailures() { p.mu.Lock(); clear(p.failNext); p.mu.Unlock() }

func (p *Proxy) gate(ctx context.Context, op string) {
	if p.MaxDelay <= 0 || noGate(ctx) {
		return
	}

	p.mu.Lock()
	d := p.rng.IntN(p.MaxDelay + 1)

	if p.TraceOps {
		p.ops = append(p.ops, Actor(ctx)+":"+op)
	}
	p.mu.Unlock()

	if d > 0 {
		select {
		case <-time.After(time.Duration(d) * p.Tick):
		case <-ctx.Done():
		}
	}
}

// replyDelay delays the reply of a write (only when ReplyDelay is set): the caller learns about its commit late, so other
// actors' commits can land between a helper's write and its next step (e.g. between a teardown mark and the watch that follows).
func (p *Proxy) replyDelay(ctx context.Context) {
	if !p.ReplyDelay || p.MaxDelay <= 0 || noGate(ctx) {
		return
	}

	p.mu.Lock()
	d := 0
	if p.rng.IntN(3) == 0 {
		d = 1 + p.rng.IntN(p.MaxDelay)
	}
	p.mu.Unlock()

	if d > 0 {
		select {
		case <-time.After(time.Duration(d) * p.Tick):
		case <-ctx.Done():
		}
	}
}

func (p *Proxy) trace(ctx context.Context, op string) {
	if p.TraceOps {
		p.mu.Lock()
		p.ops = append(p.ops, Actor(ctx)+":"+op)
		p.mu.Unlock()
	}
}

// Len is the current log length.
func (p *Proxy) Len() int { p.mu.Lock(); defer p.mu.Unlock(); return len(p.log) }

// Log returns a copy of the commit log.
func (p *Proxy) Log() []Commit { p.mu.Lock(); defer p.mu.Unlock(); return slices.Clone(p.log) }

// Watches returns a copy of the watch establishment records.
func (p *Proxy) Watches() []WatchRec {
	p.mu.Lock()
	defer p.mu.Unlock()
	return slices.Clone(p.watches)
}

// Ops returns the op-order trace.
func (p *Proxy) Ops() []string { p.mu.Lock(); defer p.mu.Unlock(); return slices.Clone(p.ops) }

// Shadow returns the current value of key per the log.
func (p *Proxy) Shadow(k Key) *Snap { p.mu.Lock(); defer p.mu.Unlock(); return p.shadow[k] }

// ShadowAll returns a copy of the shadow state.
func (p *Proxy) ShadowAll() map[Key]*Snap {
	p.mu.Lock()
	defer p.mu.Unlock()

	m := make(map[Key]*Snap, len(p.shadow))
	for k, v := range p.shadow {
		m[k] = v
	}

	return m
}

// Note appends a probe note to the log (e.g. "cleanup handler returned nil").
func (p *Proxy) Note(actor string, k Key, note string) {
	p.mu.Lock()
	defer p.mu.Unlock()

	p.appendLocked(Commit{Op: "note", Actor: actor, Key: k, Note: note})
}

func (p *Proxy) appendLocked(c Commit) {
	c.Seq = len(p.log)
	c.At = time.Now().UnixNano()
	p.log = append(p.log, c)

	switch c.Op {
	case "create", "update":
		p.shadow[c.Key] = c.Post
	case "destroy":
		delete(p.shadow, c.Key)
	}

	if p.OnCommit != nil {
		p.OnCommit(c, p)
	}
}

func (p *Proxy) injected(op string) bool {
	if p.failNext[op] > 0 {
		p.failNext[op]--

		return true
	}

	return false
}

// Get implements state.CoreState.
func (p *Proxy) Get(ctx context.Context, ptr resource.Pointer, opts ...state.GetOption) (resource.Resource, error) { //nolint:ireturn
	p.gate(ctx, "get")

	if err := ctx.Err(); err != nil {
		return nil, err
	}

	return p.Inner.Get(ctx, ptr, opts...)
}

// List implements state.CoreState.
func (p *Proxy) List(ctx context.Context, kind resource.Kind, opts ...state.ListOption) (resource.List, error) {
	p.gate(ctx, "list")

	if err := ctx.Err(); err != nil {
		return resource.List{}, err
	}

	return p.Inner.List(ctx, kind, opts...)
}

// Create implements state.CoreState.
func (p *Proxy) Create(ctx context.Context, r resource.Resource, opts ...state.CreateOption) error {
	err := p.createInner(ctx, r, opts...)
	p.replyDelay(ctx)

	return err
}

func (p *Proxy) createInner(ctx context.Context, r resource.Resource, opts ...state.CreateOption) error {
	p.gate(ctx, "create")

	if err := ctx.Err(); err != nil {
		return err
	}

	var o state.CreateOptions
	for _, f := range opts {
		f(&o)
	}

	p.mu.Lock()
	defer p.mu.Unlock()

	if p.injected("create") {
		return ErrInjected
	}

	if err := p.Inner.Create(ctx, r, opts...); err != nil {
		return err
	}

	k := KeyOf(r.Metadata())
	p.appendLocked(Commit{Op: "create", Actor: Actor(ctx), Key: k, Pre: p.shadow[k], Post: SnapOf(r), OptOwner: o.Owner})

	return nil
}

// Update implements state.CoreState.
func (p *Proxy) Update(ctx context.Context, r resource.Resource, opts ...state.UpdateOption) error {
	err := p.updateInner(ctx, r, opts...)
	p.replyDelay(ctx)

	return err
}

func (p *Proxy) updateInner(ctx context.Context, r resource.Resource, opts ...state.UpdateOption) error {
	p.gate(ctx, "update")

	if err := ctx.Err(); err != nil {
		return err
	}

	o := state.DefaultUpdateOptions()
	for _, f := range opts {
		f(&o)
	}

	p.mu.Lock()
	defer p.mu.Unlock()

	if p.injected("update") {
		return ErrInjected
	}

	if err := p.Inner.Update(ctx, r, opts...); err != nil {
		return err
	}

	k := KeyOf(r.Metadata())
	ph := "any"

	if o.ExpectedPhase != nil {
		ph = o.ExpectedPhase.String()
	}

	p.appendLocked(Commit{Op: "update", Actor: Actor(ctx), Key: k, Pre: p.shadow[k], Post: SnapOf(r), OptOwner: o.Owner, OptPhase: ph})

	return nil
}

// Destroy implements state.CoreState.
func (p *Proxy) Destroy(ctx context.Context, ptr resource.Pointer, opts ...state.DestroyOption) error {
	err := p.destroyInner(ctx, ptr, opts...)
	p.replyDelay(ctx)

	return err
}

func (p *Proxy) destroyInner(ctx context.Context, ptr resource.Pointer, opts ...state.DestroyOption) error {
	p.gate(ctx, "destroy")

	if err := ctx.Err(); err != nil {
		return err
	}

	var o state.DestroyOptions
	for _, f := range opts {
		f(&o)
	}

	p.mu.Lock()
	defer p.mu.Unlock()

	if p.injected("destroy") {
		return ErrInjected
	}

	if err := p.Inner.Destroy(ctx, ptr, opts...); err != nil {
		return err
	}

	k := KeyOf(ptr)
	p.appendLocked(Commit{Op: "destroy", Actor: Actor(ctx), Key: k, Pre: p.shadow[k], OptOwner: o.Owner})

	return nil
}

func (p *Proxy) recordWatch(w WatchRec) {
	p.mu.Lock()
	p.watches = append(p.watches, w)
	p.mu.Unlock()
}

// InjectWatchError pushes an Errored event into every live watch forwarded by the proxy.
func (p *Proxy) InjectWatchError(err error) int {
	p.errMu.Lock()
	defer p.errMu.Unlock()

	n := 0

	for i, inj := range p.injectors {
		if p.ctxs[i].Err() == nil {
			inj(err)
			n++
		}
	}

	return n
}

// LiveWatches counts proxy-side watch contexts that are not cancelled.
func (p *Proxy) LiveWatches() int {
	p.errMu.Lock()
	defer p.errMu.Unlock()

	n := 0

	for _, c := range p.ctxs {
		if c.Err() == nil {
			n++
		}
	}

	return n
}

func forward[T any](p *Proxy, ctx context.Context, in <-chan T, out chan<- T, mkErr func(error) T, done func(T), merge ...func(T, T) T) {
	injected := make(chan error, 1)

	p.errMu.Lock()
	p.injectors = append(p.injectors, func(err error) {
		select {
		case injected <- err:
		default:
		}
	})
	p.ctxs = append(p.ctxs, ctx)
	p.errMu.Unlock()

	go func() {
		for {
			var v T

			select {
			case <-ctx.Done():
				return
			case err := <-injected:
				select {
				case out <- mkErr(err):
				case <-ctx.Done():
				}

				return
			case v = <-in:
			}

			p.gate(ctx, "event")

			// re-batching (aggregated watches, MergeBatches): whatever the inner state has ready by now joins this batch, so batch
			// boundaries differ from the ones the inner state chose (e.g. the bootstrap batch continues with live events)
			if len(merge) > 0 && p.MergeBatches {
				p.mu.Lock()
				rounds := p.rng.IntN(4)
				p.mu.Unlock()

			merging:
				for ; rounds > 0; rounds-- {
					runtime.Gosched()

					select {
					case more := <-in:
						v = merge[0](v, more)
					default:
						break merging
					}
				}
			}

			select {
			case out <- v:
				done(v)
			case <-ctx.Done():
				return
			}
		}
	}()
}

// Watch implements state.CoreState.
func (p *Proxy) Watch(ctx context.Context, ptr resource.Pointer, ch chan<- state.Event, opts ...state.WatchOption) error {
	// no gate here: callers (the controller runtime) establish watches while holding mutexes, and a virtual sleep under a
	// mutex another goroutine waits for would freeze the synctest clock (mutex waits are not durable blocks)
	p.trace(ctx, "watch")

	if p.HoldWatch != nil {
		p.HoldWatch("single", KeyOf(ptr))
	}

	in := make(chan state.Event)
	lo := p.Len()
	err := p.Inner.Watch(ctx, ptr, in, opts...)
	w := WatchRec{Actor: Actor(ctx), Key: KeyOf(ptr), Kind: "single", Lo: lo, Hi: p.Len()}

	if err != nil {
		w.Err = err.Error()
		p.recordWatch(w)

		return err
	}

	p.recordWatch(w)
	forward(p, ctx, in, ch, func(e error) state.Event { return state.Event{Type: state.Errored, Error: e} }, func(ev state.Event) { p.delivered(ev) })

	return nil
}

// WatchKind implements state.CoreState.
func (p *Proxy) WatchKind(ctx context.Context, kind resource.Kind, ch chan<- state.Event, opts ...state.WatchKindOption) error {
	// no gate here: callers (the controller runtime) establish watches while holding mutexes, and a virtual sleep under a
	// mutex another goroutine waits for would freeze the synctest clock (mutex waits are not durable blocks)
	p.trace(ctx, "watchkind")

	if p.HoldWatch != nil {
		p.HoldWatch("kind", Key{kind.Namespace(), kind.Type(), ""})
	}

	in := make(chan state.Event)
	lo := p.Len()
	err := p.Inner.WatchKind(ctx, kind, in, opts...)
	w := WatchRec{Actor: Actor(ctx), Key: Key{kind.Namespace(), kind.Type(), ""}, Kind: "kind", Lo: lo, Hi: p.Len()}

	if err != nil {
		w.Err = err.Error()
		p.recordWatch(w)

		return err
	}

	p.recordWatch(w)
	forward(p, ctx, in, ch, func(e error) state.Event { return state.Event{Type: state.Errored, Error: e} }, func(ev state.Event) { p.delivered(ev) })

	return nil
}

// WatchKindAggregated implements state.CoreState.
func (p *Proxy) WatchKindAggregated(ctx context.Context, kind resource.Kind, ch chan<- []state.Event, opts ...state.WatchKindOption) error {
	// no gate here: callers (the controller runtime) establish watches while holding mutexes, and a virtual sleep under a
	// mutex another goroutine waits for would freeze the synctest clock (mutex waits are not durable blocks)
	p.trace(ctx, "watchagg")

	if p.HoldWatch != nil {
		p.HoldWatch("agg", Key{kind.Namespace(), kind.Type(), ""})
	}

	in := make(chan []state.Event)
	lo := p.Len()
	err := p.Inner.WatchKindAggregated(ctx, kind, in, opts...)
	w := WatchRec{Actor: Actor(ctx), Key: Key{kind.Namespace(), kind.Type(), ""}, Kind: "agg", Lo: lo, Hi: p.Len()}

	if err != nil {
		w.Err = err.Error()
		p.recordWatch(w)

		return err
	}

	p.recordWatch(w)
	forward(p, ctx, in, ch, func(e error) []state.Event { return []state.Event{{Type: state.Errored, Error: e}} }, func(evs []state.Event) { p.delivered(evs...) },
		func(a, b []state.Event) []state.Event { return append(slices.Clone(a), b...) })

	return nil
}

// StatesOf returns the sequence of states of key k: element i is the value after log[:i] (nil = absent); len = len(log)+1.
func StatesOf(log []Commit, k Key) []*Snap {
	out := make([]*Snap, 0, len(log)+1)

	var cur *Snap

	out = append(out, cur)

	for _, c := range log {
		if c.Key == k {
			switch c.Op {
			case "create", "update":
				cur = c.Post
			case "destroy":
				cur = nil
			}
		}

		out = append(out, cur)
	}

	return out
}
