//go:build verif

// C16: fault containment, loud failure and clean shutdown of the controller runtime.
package c16

import (
	"context"
	"errors"
	"fmt"
	"math/rand/v2"
	"slices"
	"strings"
	"sync"
	"sync/atomic"
	"testing"
	"testing/synctest"
	"time"

	"github.com/siderolabs/gen/optional"
	"go.uber.org/zap"

	"github.com/cosi-project/runtime/pkg/controller"
	"github.com/cosi-project/runtime/pkg/resource"
	"github.com/cosi-project/runtime/pkg/state"
	"github.com/cosi-project/runtime/pkg/task"

	"verif/harness/gp"
	"verif/harness/res"
	"verif/harness/rtp"
	"verif/harness/vk"
)

func TestC16(t *testing.T) {
	vk.Run(t, "C16", "fault_enumeration", func(c *vk.C) {
		c.Rule("fault plans (finite sets of invocation indices of Run-loop wakes / Reconcile / MapInput / run hook / RunTask that return an error or panic, alternating) injected into probe " +
			"controllers next to healthy ones, over seeded write bursts in a virtual-time bubble; back-off judged on 8-failure streaks (all gaps > 0, 8th gap > 2 x 1st, first gap after a reset/success " +
			"< half the 8th); healthy probes judged 250 virtual ms after each burst while the faulty one sleeps in back-off; final convergence at quiescence; watch failure injected at a seeded " +
			"instant; cancellation enumerated over seeded virtual instants with a goroutine census. distinct = (plan kind, seed-derived config, instant) hash; non-trivial = the plan produced >= 8 " +
			"consecutive failures or a shutdown under load (writes in flight)")
		c.Assume("back-off constants of the implementation are not judged, only growth and reset on streaks; exact cenkalti bands are reported as info")
		c.Require("controller_streaks", "queue_item_streaks", "hook_streaks", "task_streaks", "healthy_checks_during_backoff", "watch_errors_injected", "cancellations", "requeue_intervals_checked", "final_convergence_checks", "tracking_window_faults", "parked_item_plans", "cleanup_failure_streaks")

		plans := []func(*vk.C, *rand.Rand, int){controllerFaults, queueFaults, watchError, cancellation, tasks, trackingFaults, parkedItem, cleanupFailing}
		n := c.N(400, 40000)

		var wg sync.WaitGroup

		sem := make(chan struct{}, 16)

		for k := 0; k < n; k++ {
			wg.Add(1)
			sem <- struct{}{}

			go func() {
				defer wg.Done()
				defer func() { <-sem }()

				rng := rand.New(rand.NewPCG(uint64(c.Seed), uint64(k)))
				synctest.Test(t, func(*testing.T) { plans[k%len(plans)](c, rng, k) })
			}()
		}

		wg.Wait()
	})
}

func in(k rtp.Kind, kind controller.InputKind) controller.Input {
	return controller.Input{Namespace: k.NS, Type: k.Type, Kind: kind}
}

func alternating(from, to int, rng *rand.Rand) map[int]string {
	m := map[int]string{}

	for i := from; i <= to; i++ {
		m[i] = []string{"err", "panic"}[rng.IntN(2)]
	}

	return m
}

// streak judges 8 consecutive back-off gaps (ms) plus the first gap after a reset.
func streak(c *vk.C, what string, gaps []float64, afterReset float64, detail any) bool {
	if len(gaps) < 8 {
		c.Violation("no-restart-after-failure", map[string]any{"what": what, "gaps": gaps, "detail": detail,
			"note": "a failed invocation was not retried/restarted (fewer than 8 restarts for 8 injected consecutive failures)"})

		return false
	}

	for i, g := range gaps[:8] {
		if g <= 0 {
			c.Violation("restart-without-backoff", map[string]any{"what": what, "gaps": gaps, "index": i, "detail": detail})

			return false
		}
	}

	if gaps[7] <= 2*gaps[0] {
		c.Violation("backoff-not-growing", map[string]any{"what": what, "gaps": gaps, "detail": detail})

		return false
	}

	// within one uninterrupted failure streak (all the gaps passed in) the delay never collapses: nothing succeeded, so
	// nothing may reset it (a factor of 8 leaves room for any jitter around a growing or capped delay)
	for i := 0; i+1 < len(gaps); i++ {
		if gaps[i+1] < gaps[i]/8 {
			c.Violation("backoff-reset-without-success", map[string]any{"what": what, "gaps": gaps, "index": i + 1, "detail": detail})

			return false
		}
	}

	if len(gaps) >= 12 {
		c.Count("long_streaks_checked", 1)
	}

	if afterReset >= 0 && afterReset >= gaps[7]/2 {
		c.Violation("backoff-not-reset-on-success", map[string]any{"what": what, "gaps": gaps, "after_reset": afterReset, "detail": detail})

		return false
	}

	// info: cenkalti band [0.5,1.5] * min(500ms*1.5^n, 60s)
	base := 500.0

	for _, g := range gaps[:8] {
		if g < 0.5*base-1 || g > 1.5*base+1 {
			c.Count("info_gap_outside_default_band", 1)
		}

		base = min(base*1.5, 60000)
	}

	return true
}

func checkHealthy(c *vk.C, w *rtp.World, faulty map[string]bool, stage string, cfg rtp.Cfg, trace []string) {
	for _, p := range rtp.CheckWakeups(w, func(name string) bool { return faulty[name] }) {
		c.Violation("healthy-"+p.Sig, map[string]any{"stage": stage, "problem": p, "config": cfg, "trace": trace, "note": "a healthy controller is stale while a faulty one is in back-off"})
	}
}

// ---- plan 1: a Controller whose Run fails / panics on 8 consecutive wakes, next to healthy controllers ----------------
func controllerFaults(c *vk.C, rng *rand.Rand, k int) {
	kA, kB := rtp.Kinds[0], rtp.Kinds[1]
	faults := alternating(1, 16, rng)
	faults[20] = "err"

	cfg := rtp.Cfg{MaxDelay: rng.IntN(3), Cached: pickCached(rng), Ctrls: []rtp.CtrlCfg{
		{Name: "F", Inputs: []controller.Input{in(kA, controller.InputWeak)}, LateAt: -1, Faults: faults, ResetAt: 18},
		{Name: "H", Inputs: []controller.Input{in(kA, controller.InputWeak), in(kB, controller.InputStrong)}, LateAt: -1, BusyBefore: []int{rng.IntN(5)}},
	}, QCtrls: []rtp.QCfg{{Name: "HQ", Inputs: []controller.Input{in(kA, controller.InputQPrimary), in(kB, controller.InputQMapped)}, Concurrency: uint(1 + rng.IntN(2)), Busy: []int{rng.IntN(4)}}}}

	w, err := rtp.NewWorld(rng, cfg)
	if err != nil {
		c.Violation("world-setup-failed", err.Error())

		return
	}

	ctx, cancel := context.WithCancel(context.Background())
	s := &rtp.Scenario{W: w, Rng: rng, Ctx: ctx, Cancel: cancel}

	s.Burst(4, 1)
	w.Run(ctx)

	faulty := map[string]bool{"F": true}

	// drive F through its failure streak: each burst wakes it (or its restart does), healthy ones must keep up meanwhile
	for i := 0; i < 6; i++ {
		s.Burst(3+rng.IntN(5), 1+rng.IntN(2))
		rtp.Quiesce(250 * time.Millisecond)
		checkHealthy(c, w, faulty, fmt.Sprintf("burst-%d", i), cfg, s.Trace)
		c.Count("healthy_checks_during_backoff", 1)
		rtp.Quiesce(time.Duration(rng.IntN(3000)) * time.Millisecond)
	}

	rtp.Quiesce(20 * time.Minute) // the streak (16 restarts) completes: a fresh reconcile follows every restart

	// then individual writes until wake 21 has happened (reset at wake 18, failure at 20)
	for i := 0; i < 80 && wakeCount(w, "F") < 22; i++ {
		_ = w.Write(ctx, rtp.WUpdate, gp.Key{NS: kA.NS, Type: kA.Type, ID: "x"}, "")
		_ = w.Write(ctx, rtp.WCreate, gp.Key{NS: kA.NS, Type: kA.Type, ID: "x"}, "")
		rtp.Quiesce(2 * time.Minute)
	}

	rtp.Quiesce(30 * time.Minute)

	// gaps: from the end of failing wake n to the next Run start
	starts := w.Probes()["F"].Starts()

	var (
		gaps       []float64
		afterReset = -1.0
	)

	// the j-th failure is followed by the (j+1)-th entry into Run
	j := 0

	for _, wk := range w.Wakes() {
		if wk.Probe != "F" || (wk.Fault != "err" && wk.Fault != "panic") {
			continue
		}

		j++

		if j >= len(starts) {
			break
		}

		gap := starts[j] - wk.EndMS

		if wk.N <= 16 {
			gaps = append(gaps, gap)
		} else if wk.N == 20 {
			afterReset = gap
		}
	}

	if afterReset < 0 {
		c.Inconclusive("controller plan: the post-reset failure (wake 20) was not reached")
	}

	if streak(c, "controller-restart", gaps, afterReset, map[string]any{"scenario": k, "starts": starts, "faults": faults}) {
		c.Count("controller_streaks", 1)
	}

	for _, p := range rtp.CheckWakeups(w, nil) {
		c.Violation("not-converged-after-faults-"+p.Sig, map[string]any{"problem": p, "config": cfg, "trace": s.Trace})
	}

	c.Count("final_convergence_checks", 1)

	if w.RunReturned.Load() {
		c.Violation("runtime-stopped-by-controller-fault", map[string]any{"err": fmt.Sprint(w.RunErr)})
	}

	shutdown(c, w, cancel, "controller-faults", k)
	c.Case(vk.Hash("controller", k, faults), len(gaps) >= 8)

	if k < 5 {
		c.Sample(map[string]any{"plan": "controller-faults", "faults": faults, "gaps_ms": gaps, "gap_after_reset_ms": afterReset})
	}
}

func wakeCount(w *rtp.World, probe string) int {
	n := 0

	for _, wk := range w.Wakes() {
		if wk.Probe == probe && wk.Kind == "run" {
			n++
		}
	}

	return n
}

func pickCached(rng *rand.Rand) []rtp.Kind {
	var out []rtp.Kind

	for _, kd := range rtp.Kinds {
		if rng.IntN(3) == 0 {
			out = append(out, kd)
		}
	}

	return out
}

// ---- plan 8: a controller whose output clean-up keeps failing --------------------------------------------------------------
// The controller tracks its outputs (StartTrackingOutputs ... CleanupOutputs); a stale output of its own has to be removed, but the store
// fails the Destroy 14 times in a row, so CleanupOutputs returns an error and the controller fails (panic or error, seeded) and is
// restarted: the restart delays must grow like for any other failure, and once the store stops failing everything converges.
func cleanupFailing(c *vk.C, rng *rand.Rand, k int) {
	kA := rtp.Kinds[0]
	mode := []string{"panic", "err"}[rng.IntN(2)]

	var failures atomic.Int64

	cfg := rtp.Cfg{MaxDelay: rng.IntN(2), Ctrls: []rtp.CtrlCfg{
		{Name: "TC", Inputs: []controller.Input{in(kA, controller.InputWeak)}, LateAt: -1, Outputs: []controller.Output{{Type: res.TypeC, Kind: controller.OutputExclusive}},
			Script: func(ctx context.Context, r controller.Runtime, n int) {
				r.StartTrackingOutputs()

				list, err := r.List(ctx, resource.NewMetadata(kA.NS, kA.Type, "", resource.VersionUndefined))
				if err != nil {
					panic(err)
				}

				for _, it := range list.Items {
					tok := res.Token(it)
					if err := r.Modify(ctx, res.NewC("out", it.Metadata().ID()), func(x resource.Resource) error {
						res.SpecOf(x).Token = tok

						return nil
					}); err != nil {
						panic(err)
					}
				}

				if err := r.CleanupOutputs(ctx, resource.NewMetadata("out", res.TypeC, "", resource.VersionUndefined)); err != nil {
					failures.Add(1)
					panic(fmt.Sprintf("verif: output clean-up failed (%s): %v", mode, err))
				}
			}},
	}}

	w, err := rtp.NewWorld(rng, cfg)
	if err != nil {
		c.Violation("world-setup-failed", err.Error())

		return
	}

	ctx, cancel := context.WithCancel(context.Background())
	defer cancel()

	// a stale output of the controller, left over from an earlier life
	stale := res.NewC("out", "stale")
	res.SpecOf(stale).Token = "old"

	if err := w.St.Create(gp.WithNoGate(ctx), stale, state.WithCreateOwner("TC")); err != nil {
		c.Violation("world-setup-failed", err.Error())

		return
	}

	_ = w.Write(ctx, rtp.WCreate, gp.Key{NS: kA.NS, Type: kA.Type, ID: "x"}, "")

	w.Px.FailNext("destroy", 14)
	w.Run(ctx)
	rtp.Quiesce(40 * time.Minute)

	starts := w.Probes()["TC"].Starts()

	var gaps []float64
	for i := 0; i+1 < len(starts) && i < 14; i++ {
		gaps = append(gaps, starts[i+1]-starts[i])
	}

	detail := map[string]any{"plan": "cleanup-failing", "run_starts_ms": starts, "cleanup_failures": failures.Load()}

	if failures.Load() < 8 {
		c.Inconclusive(fmt.Sprintf("cleanup-failing plan: only %d clean-up failures were produced", failures.Load()))
	} else if streak(c, "controller-restart-after-failed-cleanup", gaps, -1, detail) {
		c.Count("cleanup_failure_streaks", 1)
	}

	if w.Px.Shadow(gp.Key{NS: "out", Type: res.TypeC, ID: "stale"}) != nil {
		c.Violation("not-converged-after-faults-output-tracking", detail)
	}

	cancel()
	w.WaitRun()
	synctest.Wait()

	c.Case(vk.Hash("cleanupfail", k, mode), true)
}

// ---- plan 7: an item parked with a long requested delay next to an item failing with plain errors ------------------------------
// Item p asks to be retried after a long interval (error + requeue-after) once or twice; item x is then created, fails 6-8 times
// with plain errors and succeeds. Nothing else is written, so nothing but the queue's own timers drives the retries: x's retries must
// not wait for p (first retry well before p's deadline; no gap of an uninterrupted streak collapses to less than 1/8 of the previous
// one - a first gap stretched to p's deadline would make the second one collapse). (Whether p itself waits out its interval is judged
// under C09, where fresh notifications for the item are accounted for.)
func parkedItem(c *vk.C, rng *rand.Rand, k int) {
	kA := rtp.Kinds[0]
	parkMS := 40_000 + rng.IntN(40_000)
	nFail := 6 + rng.IntN(3)

	xOut := []string{}
	for i := 0; i < nFail; i++ {
		xOut = append(xOut, []string{"err", "panic"}[rng.IntN(2)])
	}

	xOut = append(xOut, "ok")

	cfg := rtp.Cfg{MaxDelay: rng.IntN(2), QCtrls: []rtp.QCfg{{
		Name: "PQ", Inputs: []controller.Input{in(kA, controller.InputQPrimary)}, Concurrency: uint(1 + rng.IntN(3)),
		Outcomes: map[string][]string{"p": {fmt.Sprintf("requeueerr:%d", parkMS), fmt.Sprintf("requeueerr:%d", parkMS), "ok"}, "x": xOut},
	}}}

	w, err := rtp.NewWorld(rng, cfg)
	if err != nil {
		c.Violation("world-setup-failed", err.Error())

		return
	}

	ctx, cancel := context.WithCancel(context.Background())
	defer cancel()

	w.Run(ctx)

	_ = w.Write(ctx, rtp.WCreate, gp.Key{NS: kA.NS, Type: kA.Type, ID: "p"}, "")
	rtp.Quiesce(time.Duration(500+rng.IntN(3000)) * time.Millisecond) // p has failed once and is parked
	_ = w.Write(ctx, rtp.WCreate, gp.Key{NS: kA.NS, Type: kA.Type, ID: "x"}, "")
	rtp.Quiesce(10 * time.Minute)

	var px, pp []*rtp.Wake

	for _, wk := range w.Wakes() {
		if wk.Kind != "reconcile" {
			continue
		}

		switch wk.Target.ID {
		case "x":
			px = append(px, wk)
		case "p":
			pp = append(pp, wk)
		}
	}

	cancel()
	w.WaitRun()
	synctest.Wait()

	detail := map[string]any{"plan": "parked-item", "park_ms": parkMS, "x_outcomes": xOut, "x_reconciles_at_ms": times(px), "p_reconciles_at_ms": times(pp)}

	if len(px) < nFail+1 || len(pp) < 3 {
		c.Violation("no-restart-after-failure", detail)

		return
	}

	var gaps []float64
	for i := 0; i < nFail; i++ {
		gaps = append(gaps, px[i+1].AtMS-px[i].EndMS)
	}

	detail["x_gaps_ms"] = gaps

	switch {
	case gaps[0] >= float64(parkMS)/2:
		c.Violation("failing-item-retry-blocked-by-parked-item", detail)
	case slices.ContainsFunc(gaps, func(g float64) bool { return g <= 0 }):
		c.Violation("restart-without-backoff", detail)
	default:
		for i := 0; i+1 < len(gaps); i++ {
			if gaps[i+1] < gaps[i]/8 {
				detail["index"] = i + 1
				c.Violation("backoff-reset-without-success", detail)

				return
			}
		}
	}

	c.Count("parked_item_plans", 1)
	c.Case(vk.Hash("parked", k, parkMS, xOut), true)
}

func times(ws []*rtp.Wake) []float64 {
	out := make([]float64, 0, len(ws))
	for _, w := range ws {
		out = append(out, w.AtMS)
	}

	return out
}

// ---- plan 2: a queue item that fails 8 times, a failing mapper and a failing run hook ---------------------------------
func queueFaults(c *vk.C, rng *rand.Rand, k int) {
	kA, kB := rtp.Kinds[0], rtp.Kinds[1]
	outcomes := []string{}

	// the failure streak of item x: 14 failures, every third scenario 34 (well past a quarter of an hour of virtual time: a failing
	// item is retried for as long as it fails, nothing gives up on it)
	nFail := 14
	if k%3 == 1 {
		nFail = 34
	}

	for i := 0; i < nFail; i++ {
		outcomes = append(outcomes, []string{"err", "panic"}[rng.IntN(2)])
	}

	reqMS := 300 + rng.IntN(2000)
	outcomes = append(outcomes, "ok", "err", "ok", fmt.Sprintf("requeue:%d", reqMS), "ok", fmt.Sprintf("requeueerr:%d", reqMS), "skip", "err", "ok")

	hook := []string{}
	for i := 0; i < 40; i++ { // ~35 virtual minutes of failures: the delay must stay up however long the streak lasts
		hook = append(hook, []string{"err", "panic"}[rng.IntN(2)])
	}

	cfg := rtp.Cfg{MaxDelay: rng.IntN(3), Cached: pickCached(rng), QCtrls: []rtp.QCfg{
		{Name: "FQ", Inputs: []controller.Input{in(kA, controller.InputQPrimary), in(kB, controller.InputQMapped)}, Concurrency: uint(1 + rng.IntN(3)),
			Outcomes: map[string][]string{"x": outcomes}, MapFaults: map[int]string{1: "err", 3: "panic"}, HasHook: true, HookFaults: append(hook, "block")},
	}, Ctrls: []rtp.CtrlCfg{{Name: "H", Inputs: []controller.Input{in(kA, controller.InputWeak)}, LateAt: -1}}}

	w, err := rtp.NewWorld(rng, cfg)
	if err != nil {
		c.Violation("world-setup-failed", err.Error())

		return
	}

	ctx, cancel := context.WithCancel(context.Background())
	s := &rtp.Scenario{W: w, Rng: rng, Ctx: ctx, Cancel: cancel}
	x := gp.Key{NS: kA.NS, Type: kA.Type, ID: "x"}

	_ = w.Write(ctx, rtp.WCreate, x, "")
	w.Run(ctx)

	others := func(n int) {
		for i := 0; i < n; i++ {
			id := []string{"y", "z"}[rng.IntN(2)]
			key := gp.Key{NS: kA.NS, Type: kA.Type, ID: id}

			if rng.IntN(2) == 0 {
				key = gp.Key{NS: kB.NS, Type: kB.Type, ID: id}
			}

			op := rtp.WUpdate
			if w.Px.Shadow(key) == nil {
				op = rtp.WCreate
			}

			_ = w.Write(ctx, op, key, []string{"y", "z", "y,z", ""}[rng.IntN(4)]) // mapped changes never name the failing item x
			time.Sleep(time.Duration(rng.IntN(3)) * time.Millisecond)
		}
	}

	// during x's failure streak other items keep flowing
	for i := 0; i < 6; i++ {
		others(2 + rng.IntN(5))
		rtp.Quiesce(250 * time.Millisecond)

		for _, p := range rtp.CheckWakeups(w, nil) {
			// the failing item x and mapper jobs (which are failing items themselves under the MapInput fault plan) are exempt here
			if strings.Contains(p.Detail, "/x ") || strings.Contains(p.Detail, "/x}") || strings.Contains(p.Detail, "/x as") || p.Sig == "mapped-change-never-reached-primary" {
				continue
			}

			c.Violation("healthy-item-"+p.Sig, map[string]any{"problem": p, "config": cfg, "trace": s.Trace, "note": "an item other than the failing one is stale while the failing item is in back-off"})
		}

		c.Count("healthy_checks_during_backoff", 1)
		rtp.Quiesce(time.Duration(rng.IntN(4000)) * time.Millisecond)
	}

	rtp.Quiesce(70 * time.Minute) // streaks done: outcome index nFail ("ok") reached, the run hook is past its 40 failures

	// ... without any further notification for x: every retry so far was the queue's own doing
	retried := 0

	for _, wk := range w.Wakes() {
		if wk.Probe == "FQ" && wk.Kind == "reconcile" && wk.Target == x {
			retried++
		}
	}

	if retried < nFail+1 {
		c.Violation("failing-item-retry-abandoned", map[string]any{"scenario": k, "failures_planned": nFail, "reconciles_of_the_item_without_fresh_notification": retried,
			"note": "the item kept failing and the queue stopped retrying it before it could succeed"})
	}

	if nFail > 14 {
		c.Count("long_item_outages", 1)
	}

	// each further outcome needs a fresh notification for x (except the retries after err / requeue)
	for i := 0; i < 12; i++ {
		_ = w.Write(ctx, rtp.WUpdate, x, "")
		rtp.Quiesce(2 * time.Minute)
	}

	rtp.Quiesce(30 * time.Minute)

	var recs []*rtp.Wake

	for _, wk := range w.Wakes() {
		if wk.Probe == "FQ" && wk.Kind == "reconcile" && wk.Target == x {
			recs = append(recs, wk)
		}
	}

	var (
		gaps       []float64
		afterReset = -1.0
	)

	for i := 0; i+1 < len(recs); i++ {
		gap := recs[i+1].AtMS - recs[i].EndMS

		switch {
		case recs[i].N < nFail:
			gaps = append(gaps, gap)
		case recs[i].N == nFail+1:
			afterReset = gap
		case strings.HasPrefix(recs[i].Fault, "requeue"):
			// honoured unless a fresh notification arrived: the harness writes x only after 2 virtual minutes of quiet, so none did
			c.Count("requeue_intervals_checked", 1)

			if gap+0.001 < float64(reqMS) {
				c.Violation("requeue-delivered-early", map[string]any{"requested_ms": reqMS, "gap_ms": gap, "outcome": recs[i].Fault, "n": recs[i].N})
			}
		}
	}

	if streak(c, "queue-item-retry", gaps, afterReset, map[string]any{"scenario": k, "outcomes": outcomes}) {
		c.Count("queue_item_streaks", 1)
	}

	// run hook restarts
	var hookAt []float64

	for _, wk := range w.Wakes() {
		if wk.Probe == "FQ" && wk.Kind == "hook" {
			hookAt = append(hookAt, wk.AtMS)
		}
	}

	var hgaps []float64
	for i := 0; i+1 < len(hookAt); i++ {
		hgaps = append(hgaps, hookAt[i+1]-hookAt[i])
	}

	if streak(c, "run-hook-restart", hgaps, -1, map[string]any{"scenario": k, "hook": hook}) {
		c.Count("hook_streaks", 1)
	}

	if q := w.QProbes()["FQ"]; q.Overlaps.Load() > 0 {
		c.Violation("item-processed-concurrently", map[string]any{"overlaps": q.Overlaps.Load()})
	}

	for _, p := range rtp.CheckWakeups(w, nil) {
		c.Violation("not-converged-after-faults-"+p.Sig, map[string]any{"problem": p, "config": cfg, "trace": s.Trace})
	}

	c.Count("final_convergence_checks", 1)

	if w.RunReturned.Load() {
		c.Violation("runtime-stopped-by-controller-fault", map[string]any{"err": fmt.Sprint(w.RunErr)})
	}

	shutdown(c, w, cancel, "queue-faults", k)
	c.Case(vk.Hash("queue", k, outcomes, hook), len(gaps) >= 8)

	if k < 5 {
		c.Sample(map[string]any{"plan": "queue-faults", "outcomes_x": outcomes, "retry_gaps_ms": gaps, "gap_after_success_ms": afterReset, "hook_gaps_ms": hgaps})
	}
}

// shutdown cancels the runtime and checks Run's return, goroutines, watches, hooks and late writes.
func shutdown(c *vk.C, w *rtp.World, cancel context.CancelFunc, plan string, k int) {
	cancel()
	w.WaitRun()

	atReturn := w.Px.Len()

	synctest.Wait()
	time.Sleep(10 * time.Minute)
	synctest.Wait()

	if w.RunErr != nil {
		c.Violation("run-returned-error-on-cancel", map[string]any{"plan": plan, "err": w.RunErr.Error()})
	}

	var late []gp.Commit

	for _, cm := range w.Px.Log()[atReturn:] {
		if cm.Actor != "writer" { // external writers of the harness may go on; anything else was issued by the runtime / a controller
			late = append(late, cm)
		}
	}

	if len(late) > 0 {
		c.Violation("write-after-run-returned", map[string]any{"plan": plan, "commits_at_return": atReturn, "late_commits": late})
	}

	if live := w.Px.LiveWatches(); live != 0 {
		c.Violation("watch-not-stopped", map[string]any{"plan": plan, "live_watch_contexts": live})
	}

	if _, leaked := rtp.Census(); len(leaked) > 0 {
		c.Violation("goroutine-leak-after-run", map[string]any{"plan": plan, "scenario": k, "leaked": leaked})
	}

	for name, q := range w.QProbes() {
		if w.RegErrs[name] == nil && q.Shutdowns.Load() != 1 {
			c.Violation("shutdown-hook-not-called-once", map[string]any{"plan": plan, "controller": name, "calls": q.Shutdowns.Load()})
		}
	}

	c.Count("shutdowns_checked", 1)
}

// ---- plan 3: the aggregated watch fails ---------------------------------------------------------------------------------
func watchError(c *vk.C, rng *rand.Rand, k int) {
	cfg := rtp.GenCfg(rng, rtp.GenOpts{MaxCtrls: 2, MaxQ: 2, CachedProb: 0.3, NoLate: true})

	w, err := rtp.NewWorld(rng, cfg)
	if err != nil {
		c.Violation("world-setup-failed", err.Error())

		return
	}

	ctx, cancel := context.WithCancel(context.Background())
	defer cancel()

	s := &rtp.Scenario{W: w, Rng: rng, Ctx: ctx, Cancel: cancel}

	s.Burst(3, 1)
	w.Run(ctx)

	go s.BurstFn(10+rng.IntN(20), 2)()

	at := time.Duration(rng.IntN(40)) * time.Millisecond
	time.Sleep(at)

	injected := errors.New("verif: injected watch failure")
	n := w.Px.InjectWatchError(injected)

	rtp.Quiesce(10 * time.Minute)

	if n == 0 {
		c.Inconclusive("watch-error plan: no live watch at the injection instant")
		shutdown(c, w, cancel, "watch-error-none", k)

		return
	}

	c.Count("watch_errors_injected", 1)

	if !w.RunReturned.Load() {
		c.Violation("runtime-kept-running-after-watch-failure", map[string]any{"at": at.String(), "config": cfg})
		shutdown(c, w, cancel, "watch-error", k)

		return
	}

	if w.RunErr == nil || !(errors.Is(w.RunErr, injected) || strings.Contains(w.RunErr.Error(), injected.Error())) {
		c.Violation("watch-failure-not-returned", map[string]any{"run_err": fmt.Sprint(w.RunErr), "config": cfg})
	}

	atReturn := w.Px.Len()

	cancel()
	rtp.Quiesce(10 * time.Minute)

	// the writers may still be writing (they are external); only controller-issued writes are judged, and probes do not write
	_ = atReturn

	if _, leaked := rtp.Census(); len(leaked) > 0 {
		c.Violation("goroutine-leak-after-run", map[string]any{"plan": "watch-error", "leaked": leaked})
	}

	if live := w.Px.LiveWatches(); live != 0 {
		c.Violation("watch-not-stopped", map[string]any{"plan": "watch-error", "live_watch_contexts": live})
	}

	c.Case(vk.Hash("watch-error", k, at), true)
}

// ---- plan 4: cancellation at a seeded instant under load, with writing controllers ------------------------------------
func cancellation(c *vk.C, rng *rand.Rand, k int) {
	kA := rtp.Kinds[0]
	cfg := rtp.GenCfg(rng, rtp.GenOpts{MaxCtrls: 2, MaxQ: 1, CachedProb: 0.3, NoLate: true})

	var lateWrites atomic.Int64

	// one writing controller and one writing queue controller with their own output types
	cfg.Ctrls = append(cfg.Ctrls, rtp.CtrlCfg{Name: "WC", LateAt: -1, Inputs: []controller.Input{in(kA, controller.InputWeak)},
		Outputs: []controller.Output{{Type: res.TypeC, Kind: controller.OutputExclusive}}, BusyBefore: []int{rng.IntN(5)},
		Script: func(ctx context.Context, r controller.Runtime, n int) {
			_ = r.Modify(ctx, res.NewC("out", fmt.Sprintf("c%d", n%3)), func(x resource.Resource) error {
				res.SpecOf(x).Val++

				return nil
			})
		}})
	cfg.QCtrls = append(cfg.QCtrls, rtp.QCfg{Name: "WQ", Inputs: []controller.Input{in(kA, controller.InputQPrimary)}, Concurrency: 2,
		Outputs: []controller.Output{{Type: res.TypeD, Kind: controller.OutputExclusive}}, Busy: []int{rng.IntN(6)}, HasHook: rng.IntN(2) == 0,
		Script: func(ctx context.Context, r controller.QRuntime, ptr resource.Pointer, n int) {
			_ = r.Modify(ctx, res.NewD("out", ptr.ID()), func(x resource.Resource) error {
				res.SpecOf(x).Val++

				return nil
			})
		}})

	w, err := rtp.NewWorld(rng, cfg)
	if err != nil {
		c.Violation("world-setup-failed", err.Error())

		return
	}

	for name, e := range w.RegErrs {
		if e != nil {
			c.Violation("valid-registration-rejected", map[string]any{"name": name, "err": e.Error()})
		}
	}

	base, _ := rtp.Census()

	ctx, cancel := context.WithCancel(context.Background())
	s := &rtp.Scenario{W: w, Rng: rng, Ctx: context.Background(), Cancel: cancel}

	s.Burst(3, 1)
	w.Run(ctx)

	var writers sync.WaitGroup

	writers.Add(1)

	burst := s.BurstFn(20+rng.IntN(30), 2)

	go func() {
		defer writers.Done()

		burst()
	}()

	at := time.Duration(rng.IntN(60_000)) * time.Microsecond // the cancellation instant, anywhere inside the burst
	time.Sleep(at)

	inFlight := w.Px.Len()

	shutdown(c, w, cancel, "cancellation", k)
	writers.Wait()
	synctest.Wait()

	if after, _ := rtp.Census(); base >= 0 && after > base {
		_, leaked := rtp.Census("verif/harness/rtp")
		c.Violation("goroutine-leak-after-run", map[string]any{"plan": "cancellation", "baseline": base, "after": after, "stacks": leaked})
	}

	_ = lateWrites

	c.Count("cancellations", 1)
	c.Case(vk.Hash("cancel", k, at), inFlight > 3)

	if k < 8 {
		c.Sample(map[string]any{"plan": "cancellation", "cancel_at": at.String(), "commits_before_cancel": inFlight, "controllers": len(cfg.Ctrls) + len(cfg.QCtrls)})
	}
}

// ---- plan 5: pkg/task ---------------------------------------------------------------------------------------------------
type spec struct {
	id       string
	outcomes []string
	n        *atomic.Int64
	at       *[]float64
	mu       *sync.Mutex
	start    time.Time
	gen      int
}

func (s spec) ID() string { return s.id }

func (s spec) Equal(o spec) bool { return s.id == o.id && s.gen == o.gen }

func (s spec) RunTask(ctx context.Context, _ *zap.Logger, _ int) error {
	n := int(s.n.Add(1)) - 1

	s.mu.Lock()
	*s.at = append(*s.at, float64(time.Since(s.start).Microseconds())/1000)
	s.mu.Unlock()

	if n < len(s.outcomes) {
		switch s.outcomes[n] {
		case "err":
			return rtp.InjErr(n, "verif: injected task failure")
		case "panic":
			panic("verif: injected task panic")
		}
	}

	<-ctx.Done()

	return nil
}

func tasks(c *vk.C, rng *rand.Rand, k int) {
	base, _ := rtp.Census()

	var outcomes []string
	for i := 0; i < 40; i++ {
		outcomes = append(outcomes, []string{"err", "panic"}[rng.IntN(2)])
	}

	var (
		at []float64
		mu sync.Mutex
		n  atomic.Int64
	)

	sp := spec{id: "t", outcomes: outcomes, n: &n, at: &at, mu: &mu, start: time.Now()}
	ctx, cancel := context.WithCancel(context.Background())

	defer cancel()

	tk := task.New[int, spec](zap.NewNop(), sp, 0)
	tk.Start(ctx)
	rtp.Quiesce(90 * time.Minute)

	mu.Lock()
	var gaps []float64
	for i := 0; i+1 < len(at); i++ {
		gaps = append(gaps, at[i+1]-at[i])
	}
	mu.Unlock()

	if streak(c, "task-restart", gaps, -1, map[string]any{"outcomes": outcomes}) {
		c.Count("task_streaks", 1)
	}

	tk.Stop()
	synctest.Wait()

	if after, leaked := rtp.Census(); after > base {
		c.Violation("task-goroutine-leak-after-stop", map[string]any{"baseline": base, "after": after, "stacks": leaked})
	}

	// runner: random start/replace/stop/reconcile sequences; after Stop nothing may be left running
	runner := task.NewEqualRunner[spec]()

	var (
		at2 []float64
		n2  atomic.Int64
	)

	want := map[string]int{}

	for step := 0; step < 10+rng.IntN(10); step++ {
		id := []string{"a", "b", "c"}[rng.IntN(3)]
		gen := rng.IntN(3)
		s := spec{id: id, n: &n2, at: &at2, mu: &mu, start: time.Now(), gen: gen, outcomes: []string{[]string{"err", "panic", "ok"}[rng.IntN(3)]}}

		switch rng.IntN(3) {
		case 0:
			runner.StartTask(ctx, zap.NewNop(), id, s, 0)
			want[id] = gen
		case 1:
			runner.StopTask(zap.NewNop(), id)
			delete(want, id)
		case 2:
			m := map[string]spec{}
			want = map[string]int{}

			for _, i := range []string{"a", "b", "c"} {
				if rng.IntN(2) == 0 {
					g := rng.IntN(3)
					m[i] = spec{id: i, n: &n2, at: &at2, mu: &mu, start: time.Now(), gen: g}
					want[i] = g
				}
			}

			runner.Reconcile(ctx, zap.NewNop(), m, 0)
		}

		time.Sleep(time.Duration(rng.IntN(900)) * time.Millisecond)
		synctest.Wait()

		if total, _ := rtp.Census(); total-base != len(want) {
			c.Violation("runner-task-count-mismatch", map[string]any{"step": step, "running_goroutines": total - base, "expected_tasks": len(want)})
		}
	}

	runner.Stop()
	synctest.Wait()

	if after, leaked := rtp.Census(); after > base {
		c.Violation("task-goroutine-leak-after-stop", map[string]any{"baseline": base, "after": after, "stacks": leaked, "where": "runner"})
	}

	c.Case(vk.Hash("task", k, outcomes), len(gaps) >= 8)

	_ = optional.None[int]
}

// ---- plan 6: a controller using output tracking faults INSIDE the StartTrackingOutputs..CleanupOutputs window ---------------
func trackingFaults(c *vk.C, rng *rand.Rand, k int) {
	kA := rtp.Kinds[0]
	faultAt := map[int]string{}

	for i := 1 + rng.IntN(3); len(faultAt) < 1+rng.IntN(3); i += 1 + rng.IntN(3) {
		faultAt[i] = []string{"panic", "err", "panic-after-cleanup"}[rng.IntN(3)]
	}

	var hits atomic.Int64

	cfg := rtp.Cfg{MaxDelay: rng.IntN(3), Ctrls: []rtp.CtrlCfg{
		{Name: "TR", Inputs: []controller.Input{in(kA, controller.InputWeak)}, LateAt: -1, Outputs: []controller.Output{{Type: res.TypeC, Kind: controller.OutputExclusive}},
			Script: func(ctx context.Context, r controller.Runtime, n int) {
				r.StartTrackingOutputs()

				list, err := r.List(ctx, resource.NewMetadata(kA.NS, kA.Type, "", resource.VersionUndefined))
				if err != nil {
					panic(err)
				}

				for i, it := range list.Items {
					if i == 1 && (faultAt[n] == "panic" || faultAt[n] == "err") {
						hits.Add(1)

						if faultAt[n] == "panic" {
							panic(fmt.Sprintf("verif: injected panic inside the output tracking window, wake %d", n))
						}

						// an error return inside the window is emulated by the probe's fault plan below (set through Faults)
					}

					tok := res.Token(it)
					if err := r.Modify(ctx, res.NewC("out", it.Metadata().ID()), func(x resource.Resource) error {
						res.SpecOf(x).Token = tok

						return nil
					}); err != nil {
						panic(err)
					}
				}

				if err := r.CleanupOutputs(ctx, resource.NewMetadata("out", res.TypeC, "", resource.VersionUndefined)); err != nil {
					panic(err)
				}

				if faultAt[n] == "panic-after-cleanup" {
					hits.Add(1)
					panic("verif: injected panic after CleanupOutputs")
				}
			}},
		{Name: "H", Inputs: []controller.Input{in(kA, controller.InputWeak)}, LateAt: -1},
	}}

	w, err := rtp.NewWorld(rng, cfg)
	if err != nil {
		c.Violation("world-setup-failed", err.Error())

		return
	}

	ctx, cancel := context.WithCancel(context.Background())
	s := &rtp.Scenario{W: w, Rng: rng, Ctx: ctx, Cancel: cancel}

	s.Burst(4, 1)
	w.Run(ctx)

	for i := 0; i < 8; i++ {
		s.Burst(2+rng.IntN(4), 1)
		rtp.Quiesce(time.Duration(200+rng.IntN(3000)) * time.Millisecond)
	}

	rtp.Quiesce(30 * time.Minute)

	// once the faults have ceased the outputs must be exactly the images of the current inputs (stale ones cleaned up)
	cur := w.Px.ShadowAll()
	want, got := map[string]string{}, map[string]string{}

	for key, v := range cur {
		if key.NS == kA.NS && key.Type == kA.Type {
			want[key.ID] = v.Token
		}

		if key.NS == "out" && key.Type == res.TypeC {
			got[key.ID] = v.Token
		}
	}

	if fmt.Sprint(want) != fmt.Sprint(got) {
		c.Violation("not-converged-after-faults-output-tracking", map[string]any{"faults": faultAt, "inputs": want, "outputs": got, "fault_hits": hits.Load(),
			"run_starts": w.Probes()["TR"].Starts(), "note": "a controller using StartTrackingOutputs/CleanupOutputs did not converge after a finite fault pattern"})
	}

	for _, p := range rtp.CheckWakeups(w, func(name string) bool { return name == "TR" }) {
		c.Violation("healthy-"+p.Sig, map[string]any{"problem": p, "plan": "tracking"})
	}

	c.Count("final_convergence_checks", 1)
	c.Count("tracking_window_faults", int(hits.Load()))
	shutdown(c, w, cancel, "tracking-faults", k)
	c.Case(vk.Hash("tracking", k, faultAt), hits.Load() > 0)

	if k < 12 {
		c.Sample(map[string]any{"plan": "tracking-faults", "faults": faultAt, "fault_hits": hits.Load(), "restarts": len(w.Probes()["TR"].Starts()) - 1})
	}
}
