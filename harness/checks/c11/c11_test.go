//go:build verif

// C11: gRPC transparency (remote state == wrapped state) and the server never crashes.
package c11

import (
	"context"
	"errors"
	"fmt"
	"math/rand/v2"
	"os"
	"regexp"
	"slices"
	"sort"
	"strings"
	"sync"
	"testing"
	"testing/synctest"
	"time"

	"google.golang.org/grpc/codes"
	"google.golang.org/protobuf/proto"
	"google.golang.org/protobuf/types/known/timestamppb"

	"github.com/cosi-project/runtime/api/v1alpha1"
	"github.com/cosi-project/runtime/pkg/resource"
	"github.com/cosi-project/runtime/pkg/state"
	"github.com/cosi-project/runtime/pkg/state/impl/inmem"
	"github.com/cosi-project/runtime/pkg/state/impl/namespaced"
	"github.com/cosi-project/runtime/pkg/state/protobuf/client"
	"github.com/cosi-project/runtime/pkg/state/protobuf/server"

	"verif/harness/lb"
	"verif/harness/res"
	"verif/harness/vk"
)

func TestMain(m *testing.M) {
	res.Register()
	os.Exit(m.Run())
}

// genTerms draws the terms of one label query (AND): every operator, inverted or not, in any order, on present and missing labels.
func genTerms(r *rand.Rand) []resource.LabelQueryOption {
	var out []resource.LabelQueryOption

	for n := 1 + r.IntN(3); n > 0; n-- {
		key := []string{"n", "n", "size", "missing"}[r.IntN(4)]

		var to []resource.TermOption
		if r.IntN(2) == 0 {
			to = append(to, resource.NotMatches)
		}

		val := []string{"0", "1", "2", "3", "1k", "2Ki", "5", "x"}[r.IntN(8)]

		switch r.IntN(7) {
		case 0:
			out = append(out, resource.LabelExists(key, to...))
		case 1:
			out = append(out, resource.LabelEqual(key, val, to...))
		case 2:
			out = append(out, resource.LabelIn(key, []string{val, "1", "2Ki"}[:1+r.IntN(3)], to...))
		case 3:
			out = append(out, resource.LabelLT(key, val, to...))
		case 4:
			out = append(out, resource.LabelLTE(key, val, to...))
		case 5:
			out = append(out, resource.LabelLTNumeric(key, val, to...))
		case 6:
			out = append(out, resource.LabelLTENumeric(key, val, to...))
		}
	}

	return out
}

func TestC11(t *testing.T) {
	vk.Run(t, "C11", "exploration", func(c *vk.C) {
		c.Rule("differential: one seeded operation sequence (Create/Update/Destroy/Get/List with label and id queries, Teardown, TeardownAndDestroy incl. blocking ones, finalizer helpers, " +
			"UpdateWithConflicts, Modify, Watch/WatchKind/WatchKindAggregated with bootstrap, bookmark, tail and selector options) applied to state.WrapCore(namespaced(inmem)) and to " +
			"state.WrapCore(client.NewAdapter(loopback -> server.NewState(twin))), results compared after every step (error-class vector incl. qualifiers, write-back of version/owner/updated, " +
			"contents, watch event sequences); variants hide the native Teardown/TeardownAndDestroy RPCs (old server). hostile: structured malformed requests and byte-mutated wire messages " +
			"dispatched to every handler under recover. distinct = (variant, sequence) / request hash; non-trivial = a sequence with >= 1 failing call on both sides and >= 1 watch event " +
			"compared, or a hostile request that the server rejected")
		c.Assume("the loopback transport carries errors as grpc-go does (code + message); timestamps are compared within a handle, not across the twins")
		c.Require("steps_compared", "failing_calls_compared", "watch_events_compared", "sticky_fallback_checked", "blocking_tad_compared", "hostile_requests", "hostile_rejected", "mutated_wire_messages", "slow_remote_watchers", "slow_remote_watchers_errored")

		n := c.N(1500, 60000)

		var wg sync.WaitGroup

		sem := make(chan struct{}, 16)

		for k := 0; k < n; k++ {
			wg.Add(1)
			sem <- struct{}{}

			go func() {
				defer wg.Done()
				defer func() { <-sem }()

				rng := rand.New(rand.NewPCG(uint64(c.Seed), uint64(k)))
				synctest.Test(t, func(*testing.T) { differential(c, rng, k) })
				synctest.Test(t, func(*testing.T) { hostile(c, rand.New(rand.NewPCG(uint64(c.Seed), uint64(3_000_000+k))), k) })

				if k%10 == 0 {
					synctest.Test(t, func(*testing.T) { slowRemoteWatcher(c, rand.New(rand.NewPCG(uint64(c.Seed), uint64(5_000_000+k))), k) })
				}
			}()
		}

		wg.Wait()
	})
}

// ---- a remote watcher that does not keep up ----------------------------------------------------------------------------
// The wrapped state keeps a short history; a watch (by id / by kind / aggregated) is opened through the client adapter and the loopback
// transport and nobody reads it while more events are written than the history holds, so the server-side watch is told "Errored"
// (buffer overrun) by the wrapped state. The remote consumer must then see what a direct consumer sees in that situation: a prefix of the
// log followed by exactly one terminal Errored - and the server handler must survive forwarding that event.
func slowRemoteWatcher(c *vk.C, rng *rand.Rand, k int) {
	ctx, cancel := context.WithCancel(context.Background())
	defer func() {
		cancel()
		synctest.Wait()
	}()

	inner := inmem.NewStateWithOptions(inmem.WithHistoryInitialCapacity(8), inmem.WithHistoryMaxCapacity(8), inmem.WithHistoryGap(1))("ns")
	cli := lb.New(server.NewState(inner))
	cli.Buffer = 1 + rng.IntN(3)
	remote := client.NewAdapter(cli, client.WithDisableWatchRetry())
	kind := resource.NewMetadata("ns", res.TypeA, "", resource.VersionUndefined)
	mode := []string{"single", "kind", "agg"}[k/10%3]

	var (
		ch  = make(chan state.Event)
		agg = make(chan []state.Event)
		err error
	)

	r := res.New("ns", res.TypeA, "x")
	if err = inner.Create(ctx, r); err != nil {
		c.Violation("write-failed", err.Error())

		return
	}

	switch mode {
	case "single":
		err = remote.Watch(ctx, r.Metadata(), ch)
	case "kind":
		err = remote.WatchKind(ctx, kind, ch, state.WithBootstrapContents(rng.IntN(2) == 0))
	default:
		err = remote.WatchKindAggregated(ctx, kind, agg, state.WithBootstrapContents(rng.IntN(2) == 0))
	}

	if err != nil {
		c.Violation("remote-watch-establish-failed", map[string]any{"mode": mode, "err": err.Error()})

		return
	}

	synctest.Wait()

	writes := 40 + rng.IntN(40)

	for i := 0; i < writes; i++ {
		res.SpecOf(r).Token = fmt.Sprint("o", i)

		if err := inner.Update(ctx, r); err != nil {
			c.Violation("write-failed", err.Error())

			return
		}
	}

	synctest.Wait()

	// now read everything there is
	var types []string

	for more := true; more; {
		synctest.Wait()

		select {
		case ev := <-ch:
			types = append(types, ev.Type.String())
		case evs := <-agg:
			for _, ev := range evs {
				types = append(types, ev.Type.String())
			}
		default:
			more = false
		}
	}

	c.Count("slow_remote_watchers", 1)

	detail := map[string]any{"mode": mode, "writes": writes, "transport_buffer": cli.Buffer, "event_types": types}

	for _, pn := range cli.Panics() {
		detail["method"], detail["panic"], detail["stack"] = pn.Method, pn.Value, pn.Stack
		c.Violation("server-handler-panicked", detail)

		return
	}

	errored := 0

	for i, t := range types {
		if t == "Errored" {
			errored++

			if i != len(types)-1 {
				c.Violation("remote-event-after-errored", detail)

				return
			}
		}
	}

	// the consumer read nothing while far more events than the history holds were written: it is either told so, or it got them all
	updates := 0

	for _, t := range types {
		if t == "Updated" {
			updates++
		}
	}

	if errored == 0 && updates < writes {
		c.Violation("remote-watch-lost-events-silently", detail)

		return
	}

	if errored > 0 {
		c.Count("slow_remote_watchers_errored", 1)
	}
}

// ---- differential ------------------------------------------------------------------------------------------------------

type handle struct {
	name  string
	st    state.State
	last  map[string]resource.Resource
	watch []*watcher
}

type watcher struct {
	ch     chan state.Event
	agg    chan []state.Event
	events []string
	bms    []state.Bookmark
	dead   bool
	// stream is the number of the loopback Watch stream behind a remote watcher (-1: none); gaveUp: an injected stream failure hit it
	// before it had a resume point, so it has to end with Errored (the statement of C13) - its twin is retired with it
	stream int
	gaveUp bool
	// resumed: an injected stream failure hit it and it carried on; the opening Noop (a bare bookmark, no log event) may have been
	// lost with the stream - it is not re-sent after a resume and is left out of the comparison for such a watch
	resumed bool
	// noBM: no longer a source of bookmarks for later steps (the twins' bookmark lists differ after an injected failure)
	noBM bool
}

func vec(err error) string {
	if err == nil {
		return "ok"
	}

	var parts []string

	add := func(name string, f func() bool) {
		var v bool

		if p, _ := vk.Try(func() { v = f() }); p != nil {
			parts = append(parts, name+"=PANIC")

			return
		}

		if v {
			parts = append(parts, name)
		}
	}

	add("notfound", func() bool { return state.IsNotFoundError(err) })
	add("conflict", func() bool { return state.IsConflictError(err) })
	add("owner", func() bool { return state.IsOwnerConflictError(err) })
	add("phase", func() bool { return state.IsPhaseConflictError(err) })
	add("badbookmark", func() bool { return state.IsInvalidWatchBookmarkError(err) })
	add("conflict+type", func() bool { return state.IsConflictError(err, state.WithResourceType(res.TypeA)) })
	add("conflict+ns", func() bool { return state.IsConflictError(err, state.WithResourceNamespace("n1")) })
	add("conflict+othtype", func() bool { return state.IsConflictError(err, state.WithResourceType("zzz")) })
	add("ctx", func() bool {
		return errors.Is(err, context.DeadlineExceeded) || errors.Is(err, context.Canceled) || strings.Contains(err.Error(), "DeadlineExceeded") || strings.Contains(err.Error(), "deadline")
	})

	if len(parts) == 0 {
		return "error(unclassified)"
	}

	return "error(" + strings.Join(parts, ",") + ")"
}

func describe(r resource.Resource) string {
	if r == nil {
		return "nil"
	}

	md := r.Metadata()
	f := slices.Clone([]string(*md.Finalizers()))
	sort.Strings(f)

	var lbls []string
	for k, v := range md.Labels().Raw() {
		lbls = append(lbls, k+"="+v)
	}

	sort.Strings(lbls)

	tok := ""
	if !resource.IsTombstone(r) {
		tok = res.Token(r)
	}

	return fmt.Sprintf("%s/%s/%s v%s owner=%q %s fins=%v labels=%v tok=%s", md.Namespace(), md.Type()[:1], md.ID(), md.Version(), md.Owner(), md.Phase(), f, lbls, tok)
}

func differential(c *vk.C, rng *rand.Rand, k int) {
	ctx, cancel := context.WithCancel(context.Background())
	defer func() {
		cancel()
		synctest.Wait()
	}()

	mk := func() state.CoreState {
		return namespaced.NewState(func(ns resource.Namespace) state.CoreState {
			return inmem.NewStateWithOptions(inmem.WithHistoryInitialCapacity(8), inmem.WithHistoryMaxCapacity(32), inmem.WithHistoryGap(2))(ns)
		})
	}

	variant := []string{"native", "native", "no-teardown", "no-tad", "old-server"}[rng.IntN(5)]
	cli := lb.New(server.NewState(mk()))

	switch variant {
	case "no-teardown":
		cli.Hide("Teardown")
	case "no-tad":
		cli.Hide("TeardownAndDestroy")
	case "old-server":
		cli.Hide("Teardown")
		cli.Hide("TeardownAndDestroy")
	}

	D := &handle{name: "direct", st: state.WrapCore(mk()), last: map[string]resource.Resource{}}
	R := &handle{name: "remote", st: state.WrapCore(client.NewAdapter(cli)), last: map[string]resource.Resource{}}
	hs := []*handle{D, R}

	ids := []string{"x", "y", "z"}
	nss := []string{"n1", "n2"}
	owners := []string{"", "", "o1"}

	var trace []string

	failing, events, teardowns, tads, blocking := 0, 0, 0, 0, 0

	diverged := func(step, what string, a, b any) {
		c.Violation("remote-differs-from-direct", map[string]any{"scenario": k, "variant": variant, "step": step, "what": what, "direct": fmt.Sprint(a), "remote": fmt.Sprint(b), "trace": trace})
	}

	steps := 30 + rng.IntN(50)
	frng := rand.New(rand.NewPCG(uint64(c.Seed), uint64(77000+k)))
	hitsSeen := 0

	for s := 0; s < steps; s++ {
		ns := nss[rng.IntN(2)]
		id := ids[rng.IntN(3)]
		ptr := resource.NewMetadata(ns, res.TypeA, id, resource.VersionUndefined)
		key := ns + "/" + id
		tok := fmt.Sprintf("t%d", s)
		owner := owners[rng.IntN(len(owners))]
		op := rng.IntN(15)
		arg := rng.IntN(1 << 20)

		var outs [2]string

		for hi, h := range hs {
			hr := rand.New(rand.NewPCG(uint64(arg), 5)) // same choices for both handles

			switch op {
			case 0, 1:
				r := res.NewA(ns, id)
				r.TypedSpec().Token = tok
				r.Metadata().Labels().Set("n", fmt.Sprint(hr.IntN(5)))

				if hr.IntN(3) == 0 {
					r.Metadata().Labels().Set("size", []string{"1k", "2Ki", "5", "x"}[hr.IntN(4)])
				}

				err := h.st.Create(ctx, r, state.WithCreateOwner(owner))
				outs[hi] = "create " + vec(err)

				if err == nil {
					got, gerr := h.st.Get(ctx, ptr)
					outs[hi] += fmt.Sprintf(" wb(v=%s owner=%q updated_matches=%v)", r.Metadata().Version(), r.Metadata().Owner(), gerr == nil && got.Metadata().Updated().Equal(r.Metadata().Updated()))
					h.last[key] = r.DeepCopy()
				}
			case 2, 3:
				var r resource.Resource
				if l, ok := h.last[key]; ok && hr.IntN(6) != 0 {
					r = l.DeepCopy()
				} else {
					r = res.NewA(ns, id)
				}

				res.SpecOf(r).Token = tok

				switch hr.IntN(4) {
				case 0:
					r.Metadata().SetPhase(resource.PhaseTearingDown)
				case 1:
					r.Metadata().Labels().Set("n", fmt.Sprint(hr.IntN(5)))
				}

				opts := []state.UpdateOption{state.WithUpdateOwner(owner)}

				switch hr.IntN(3) {
				case 0:
					opts = append(opts, state.WithExpectedPhaseAny())
				case 1:
					opts = append(opts, state.WithExpectedPhase(resource.PhaseTearingDown))
				}

				err := h.st.Update(ctx, r, opts...)
				outs[hi] = "update " + vec(err)

				if err == nil {
					got, gerr := h.st.Get(ctx, ptr)
					outs[hi] += fmt.Sprintf(" wb(v=%s owner=%q updated_matches=%v)", r.Metadata().Version(), r.Metadata().Owner(), gerr == nil && got.Metadata().Updated().Equal(r.Metadata().Updated()))
					h.last[key] = r.DeepCopy()
				}
			case 4:
				outs[hi] = "destroy " + vec(h.st.Destroy(ctx, ptr, state.WithDestroyOwner(owner)))
			case 5:
				got, err := h.st.Get(ctx, ptr)
				outs[hi] = "get " + vec(err)

				if err == nil {
					outs[hi] += " " + describe(got)
					h.last[key] = got
				}
			case 6:
				var opts []state.ListOption

				switch hr.IntN(6) {
				case 0:
					opts = append(opts, state.WithLabelQuery(resource.LabelEqual("n", fmt.Sprint(hr.IntN(5)))))
				case 1:
					opts = append(opts, state.WithLabelQuery(resource.LabelLTNumeric("size", "1Ki", resource.NotMatches)), state.WithLabelQuery(resource.LabelExists("n", resource.NotMatches)))
				case 2:
					opts = append(opts, state.WithIDQuery(resource.IDRegexpMatch(regexp.MustCompile("^[xy]$"))))
				case 3:
					opts = append(opts, state.WithLabelQuery(resource.LabelIn("n", []string{"1", "2"}), resource.LabelLTE("n", "3")))
				case 4, 5:
					// generated selectors: 1-2 queries (OR) of 1-3 terms (AND), every operator, inverted or not, in any order
					for q := 1 + hr.IntN(2); q > 0; q-- {
						opts = append(opts, state.WithLabelQuery(genTerms(hr)...))
					}

					if hr.IntN(4) == 0 {
						opts = append(opts, state.WithIDQuery(resource.IDRegexpMatch(regexp.MustCompile([]string{"^[xy]$", "z", "^.$"}[hr.IntN(3)]))))
					}
				}

				list, err := h.st.List(ctx, resource.NewMetadata(ns, res.TypeA, "", resource.VersionUndefined), opts...)
				outs[hi] = "list " + vec(err)

				for _, it := range list.Items {
					outs[hi] += " | " + describe(it)
				}
			case 7:
				ready, err := h.st.Teardown(ctx, ptr, state.WithTeardownOwner(owner))
				outs[hi] = fmt.Sprintf("teardown ready=%v %s", ready, vec(err))
			case 8:
				// TeardownAndDestroy may block on finalizers: bound it by a virtual deadline, then release the finalizers and see it through
				tctx, tcancel := context.WithTimeout(ctx, time.Second)
				err := h.st.TeardownAndDestroy(tctx, ptr, state.WithTeardownAndDestroyOwner(owner))

				tcancel()

				outs[hi] = "tad " + vec(err)
			case 9:
				outs[hi] = "addfin " + vec(h.st.AddFinalizer(ctx, ptr, fmt.Sprintf("f%d", hr.IntN(2))))
			case 10:
				outs[hi] = "rmfin " + vec(h.st.RemoveFinalizer(ctx, ptr, fmt.Sprintf("f%d", hr.IntN(2))))
			case 11:
				var opts []state.UpdateOption
				if hr.IntN(2) == 0 {
					opts = append(opts, state.WithUpdateOwner(owner))
				}

				if hr.IntN(3) == 0 {
					opts = append(opts, state.WithExpectedPhaseAny())
				}

				got, err := h.st.UpdateWithConflicts(ctx, ptr, func(r resource.Resource) error {
					res.SpecOf(r).Token = tok

					return nil
				}, opts...)
				outs[hi] = "uwc " + vec(err)

				if err == nil {
					outs[hi] += " " + describe(got)
				}
			case 12:
				got, err := h.st.ModifyWithResult(ctx, res.NewA(ns, id), func(r resource.Resource) error {
					res.SpecOf(r).Token = tok

					return nil
				}, state.WithUpdateOwner(owner))
				outs[hi] = "modify " + vec(err)

				if err == nil {
					outs[hi] += " " + describe(got)
				}
			case 13, 14:
				if len(h.watch) >= 6 {
					outs[hi] = "skip"

					continue
				}

				w := &watcher{stream: -1}

				// a transient stream failure (every second scenario, one watch in three): with a resume point the remote watch
				// has to carry on exactly like the direct one (same selectors, no replayed bootstrap, nothing lost)
				if hi == 1 && k%2 == 1 && frng.IntN(3) == 0 {
					w.stream = cli.Streams()
					cli.FailRecv(w.stream, 2+frng.IntN(5), []codes.Code{codes.Unavailable, codes.Internal}[frng.IntN(2)])
				} else if hi == 1 {
					w.stream = cli.Streams()
				}

				var (
					err   error
					label string
				)

				kind := resource.NewMetadata(ns, res.TypeA, "", resource.VersionUndefined)

				// bookmark from an earlier watch of this handle (same position in both twins)
				var bm state.Bookmark

				if len(h.watch) > 0 {
					src := h.watch[hr.IntN(len(h.watch))]
					if len(src.bms) > 0 {
						bm = src.bms[hr.IntN(len(src.bms))]
					}
				}

				switch hr.IntN(8) {
				case 0:
					w.ch = make(chan state.Event, 256)
					label = "watch"
					err = h.st.Watch(ctx, ptr, w.ch)
				case 1:
					w.ch = make(chan state.Event, 256)
					label = "watch-tail"
					err = h.st.Watch(ctx, ptr, w.ch, state.WithTailEvents(1+hr.IntN(4)))
				case 2:
					w.ch = make(chan state.Event, 256)
					label = "watchkind-bootstrap"
					err = h.st.WatchKind(ctx, kind, w.ch, state.WithBootstrapContents(true))
				case 3:
					w.agg = make(chan []state.Event, 256)
					label = "watchagg-bootstrap-bookmark"
					err = h.st.WatchKindAggregated(ctx, kind, w.agg, state.WithBootstrapContents(true), state.WithBootstrapBookmark(true))
				case 4:
					w.ch = make(chan state.Event, 256)
					label = "watchkind-labelquery"
					if hr.IntN(2) == 0 {
						err = h.st.WatchKind(ctx, kind, w.ch, state.WatchWithLabelQuery(resource.LabelLT("n", "3")), state.WithBootstrapContents(hr.IntN(2) == 0))
					} else {
						err = h.st.WatchKind(ctx, kind, w.ch, state.WatchWithLabelQuery(genTerms(hr)...), state.WithBootstrapContents(hr.IntN(2) == 0))
					}
				case 5:
					w.ch = make(chan state.Event, 256)
					label = "watchkind-from-bookmark"

					if bm == nil {
						bm = state.Bookmark("garbage-bookmark!")
					}

					err = h.st.WatchKind(ctx, kind, w.ch, state.WithKindStartFromBookmark(bm))
				case 6:
					w.ch = make(chan state.Event, 256)
					label = "watch-from-bookmark+tail(invalid)"
					err = h.st.Watch(ctx, ptr, w.ch, state.WithStartFromBookmark(state.Bookmark("xx")), state.WithTailEvents(2))
				case 7:
					w.agg = make(chan []state.Event, 256)
					label = "watchagg-tail-idquery"
					err = h.st.WatchKindAggregated(ctx, kind, w.agg, state.WithKindTailEvents(2+hr.IntN(5)), state.WatchWithIDQuery(resource.IDRegexpMatch(regexp.MustCompile("[yz]"))))
				}

				outs[hi] = label + " " + vec(err)

				if err == nil {
					h.watch = append(h.watch, w)
				} else {
					h.watch = append(h.watch, &watcher{dead: true})
				}
			}
		}

		trace = append(trace, fmt.Sprintf("%d: D: %s", s, outs[0]))

		if outs[0] != outs[1] {
			diverged(fmt.Sprint(s), "result", outs[0], outs[1])

			return
		}

		if strings.Contains(outs[0], "error(") {
			failing++
		}

		switch op {
		case 7:
			teardowns++
		case 8:
			tads++

			if strings.Contains(outs[0], "ctx") {
				blocking++
			}
		}

		// drain and compare the watches
		synctest.Wait()

		// an injected stream failure was hit: no write happens before the client has resumed (its resume point is the latest event,
		// which the server still has for certain)
		if hits := cli.FailHits(); len(hits) > hitsSeen {
			for _, ht := range hits[hitsSeen:] {
				for wi, w := range R.watch {
					if w.stream == ht.Stream && !w.dead {
						w.noBM, w.bms = true, nil
						D.watch[wi].noBM, D.watch[wi].bms = true, nil
						w.stream = -1 // (the resumed stream has another number; one failure per watch)

						if ht.LastBookmark == nil {
							w.gaveUp = true
							c.Count("transient_faults_without_resume_point", 1)
						} else {
							w.resumed = true
							c.Count("transient_faults_resumed", 1)
						}
					}
				}
			}

			hitsSeen = len(hits)

			time.Sleep(10 * time.Second)
			synctest.Wait()
		}

		for wi := range D.watch {
			var got [2][]string

			for hi, h := range hs {
				w := h.watch[wi]
				if w.dead {
					continue
				}

				for more := true; more; {
					select {
					case ev := <-w.ch:
						got[hi] = append(got[hi], evString(ev))

						if !w.noBM {
							w.bms = appendBM(w.bms, ev)
						}
					case evs := <-w.agg:
						var parts []string
						for _, ev := range evs {
							parts = append(parts, evString(ev))

							if !w.noBM {
								w.bms = appendBM(w.bms, ev)
							}
						}

						got[hi] = append(got[hi], "["+strings.Join(parts, " ; ")+"]")
					default:
						more = false
					}
				}
			}

			events += len(got[0])

			if rw := R.watch[wi]; rw.gaveUp && !rw.dead {
				// what it delivered before is a prefix of the direct stream, then exactly one Errored
				fr := strings.Split(flatten(got[1]), "\n")
				if n := len(fr); n == 0 || !strings.HasPrefix(fr[n-1], "Errored") || !strings.HasPrefix(flatten(got[0])+"\n", strings.Join(fr[:n-1], "\n")) {
					diverged(fmt.Sprint(s), fmt.Sprintf("events of watch %d (stream failure without a resume point: a prefix, then Errored)", wi), got[0], got[1])

					return
				}

				rw.dead, D.watch[wi].dead = true, true

				continue
			}

			// aggregated batches may be split differently by the transport: compare the flattened sequence
			fd, fr := flatten(got[0]), flatten(got[1])
			if R.watch[wi].resumed {
				fd, fr = dropNoops(fd), dropNoops(fr)
			}

			if fd != fr {
				diverged(fmt.Sprint(s), fmt.Sprintf("events of watch %d", wi), got[0], got[1])

				return
			}
		}
	}

	// stickiness: once Unimplemented was seen the native RPC is not attempted again
	if variant != "native" {
		if variant != "no-tad" && teardowns > 0 && cli.Calls("Teardown") > 1 {
			c.Violation("fallback-not-sticky", map[string]any{"rpc": "Teardown", "calls": cli.Calls("Teardown"), "variant": variant})
		}

		if variant != "no-teardown" && tads > 0 && cli.Calls("TeardownAndDestroy") > 1 {
			c.Violation("fallback-not-sticky", map[string]any{"rpc": "TeardownAndDestroy", "calls": cli.Calls("TeardownAndDestroy"), "variant": variant})
		}

		if teardowns+tads > 0 {
			c.Count("sticky_fallback_checked", 1)
		}
	}

	for _, p := range cli.Panics() {
		c.Violation("server-handler-panicked", map[string]any{"method": p.Method, "panic": p.Value, "stack": p.Stack, "trace": trace})
	}

	c.Count("steps_compared", steps)
	c.Count("failing_calls_compared", failing)
	c.Count("watch_events_compared", events)
	c.Count("blocking_tad_compared", blocking)
	c.Count("variant_"+variant, 1)
	c.Case(vk.Hash("diff", variant, trace), failing > 0 && events > 0)

	if k < 2 {
		c.Sample(map[string]any{"mode": "differential", "variant": variant, "steps": trace[:min(14, len(trace))]})
	}
}

func appendBM(bms []state.Bookmark, ev state.Event) []state.Bookmark {
	if len(ev.Bookmark) > 0 && len(bms) < 64 {
		return append(bms, ev.Bookmark)
	}

	return bms
}

func dropNoops(s string) string {
	var keep []string

	for _, l := range strings.Split(s, "\n") {
		if !strings.HasPrefix(l, "Noop") {
			keep = append(keep, l)
		}
	}

	return strings.Join(keep, "\n")
}

func flatten(s []string) string {
	r := strings.NewReplacer("[", "", "]", "", " ; ", "\n")

	return r.Replace(strings.Join(s, "\n"))
}

func evString(ev state.Event) string {
	s := ev.Type.String()

	if ev.Resource != nil {
		md := ev.Resource.Metadata()
		s += fmt.Sprintf(" %s/%s v%s %s owner=%q", md.Namespace(), md.ID(), md.Version(), md.Phase(), md.Owner())

		// (the remote side rebuilds tombstones as plain resources: only observable content is compared)
		if !resource.IsTombstone(ev.Resource) && res.SpecOf(ev.Resource) != nil && res.Token(ev.Resource) != "" {
			s += " tok=" + res.Token(ev.Resource)
		}
	}

	if ev.Old != nil {
		s += " old=v" + ev.Old.Metadata().Version().String()
	}

	if ev.Error != nil {
		s += " error"
	}

	if len(ev.Bookmark) > 0 {
		s += fmt.Sprintf(" bm=%x", []byte(ev.Bookmark))
	}

	return s
}

// ---- hostile requests --------------------------------------------------------------------------------------------------

func hostile(c *vk.C, rng *rand.Rand, k int) {
	ctx, cancel := context.WithCancel(context.Background())
	defer func() {
		cancel()
		synctest.Wait()
	}()

	inner := inmem.NewState("n1")
	srvState := namespaced.NewState(func(ns resource.Namespace) state.CoreState {
		if ns == "n1" {
			return inner
		}

		return inmem.NewState(ns)
	})
	cli := lb.New(server.NewState(srvState))

	// something to operate on
	seed := res.NewA("n1", "x")
	seed.Metadata().Finalizers().Add("held")
	_ = srvState.Create(ctx, seed)
	_ = srvState.Create(ctx, res.NewA("n1", "y"))

	str := func() string {
		return []string{"", "n1", "x", res.TypeA, "\x00", "../..", strings.Repeat("A", 300), "ünï", "y"}[rng.IntN(9)]
	}

	terms := func() []*v1alpha1.LabelTerm {
		var out []*v1alpha1.LabelTerm

		for i := rng.IntN(3); i >= 0; i-- {
			t := &v1alpha1.LabelTerm{Key: str(), Op: v1alpha1.LabelTerm_Operation(rng.IntN(10)), Invert: rng.IntN(2) == 0}

			for j := rng.IntN(3); j > 0; j-- {
				t.Value = append(t.Value, str())
			}

			if rng.IntN(6) == 0 {
				t.Op = v1alpha1.LabelTerm_Operation(99)
			}

			if rng.IntN(8) == 0 {
				t = nil
			}

			out = append(out, t)
		}

		return out
	}

	queries := func() []*v1alpha1.LabelQuery {
		var out []*v1alpha1.LabelQuery

		for i := rng.IntN(3); i > 0; i-- {
			if rng.IntN(8) == 0 {
				out = append(out, nil)
			} else {
				out = append(out, &v1alpha1.LabelQuery{Terms: terms()})
			}
		}

		return out
	}

	idq := func() *v1alpha1.IDQuery {
		switch rng.IntN(4) {
		case 0:
			return nil
		case 1:
			return &v1alpha1.IDQuery{Regexp: "((("}
		case 2:
			return &v1alpha1.IDQuery{Regexp: "^x$"}
		}

		return &v1alpha1.IDQuery{Regexp: str()}
	}

	mustErr := false // set when the request is malformed in a way the statement requires an error for

	resourceMsg := func() *v1alpha1.Resource {
		if rng.IntN(8) == 0 {
			mustErr = true

			return nil
		}

		r := &v1alpha1.Resource{Metadata: &v1alpha1.Metadata{Namespace: "n1", Type: res.TypeA, Id: str(), Version: "1", Phase: "running", Created: timestamppb.Now(), Updated: timestamppb.Now()}, Spec: &v1alpha1.Spec{ProtoSpec: []byte(`{"token":"h"}`)}}

		switch rng.IntN(12) {
		case 0:
			r.Metadata = nil
			mustErr = true
		case 1:
			r.Spec = nil
			mustErr = true
		case 2:
			r.Metadata.Version = []string{"abc", "", "1.5", "99999999999999999999999"}[rng.IntN(4)]
			mustErr = true
		case 3:
			r.Metadata.Phase = []string{"", "Running", "dead"}[rng.IntN(3)]
			mustErr = true
		case 4:
			r.Metadata.Created, r.Metadata.Updated = nil, nil
		case 5:
			r.Spec.ProtoSpec = []byte{0xff, 0x00, 0x01}
		case 6:
			r.Metadata.Type = "unregistered.type"
		case 7:
			r.Metadata.Finalizers = []string{"", "a", "a"}
			r.Metadata.Labels = map[string]string{"": "", "k": strings.Repeat("v", 100)}
		case 8:
			r.Metadata.Created = &timestamppb.Timestamp{Seconds: -1 << 62, Nanos: 1 << 30}
		}

		return r
	}

	phaseStr := func() *string {
		switch rng.IntN(4) {
		case 0:
			return nil
		case 1:
			s := "running"

			return &s
		case 2:
			s := "bogus-phase"
			mustErr = true

			return &s
		}

		s := "tearingDown"

		return &s
	}

	n := 30

	for i := 0; i < n; i++ {
		mustErr = false

		var (
			req  proto.Message
			call func(proto.Message) error
			name string
		)

		dctx, dcancel := context.WithTimeout(ctx, 500*time.Millisecond)

		switch rng.IntN(9) {
		case 0:
			name, req = "Get", &v1alpha1.GetRequest{Namespace: str(), Type: str(), Id: str()}
			call = func(m proto.Message) error { _, err := cli.Get(dctx, m.(*v1alpha1.GetRequest)); return err } //nolint:forcetypeassert
		case 1:
			r := &v1alpha1.ListRequest{Namespace: "n1", Type: res.TypeA}
			if rng.IntN(4) != 0 {
				r.Options = &v1alpha1.ListOptions{LabelQuery: queries(), IdQuery: idq()}
				if r.Options.IdQuery != nil && r.Options.IdQuery.Regexp == "(((" {
					mustErr = true
				}
			}

			name, req = "List", r
			call = func(m proto.Message) error {
				s, err := cli.List(dctx, m.(*v1alpha1.ListRequest)) //nolint:forcetypeassert
				if err != nil {
					return err
				}

				for {
					if _, err := s.Recv(); err != nil {
						if strings.Contains(err.Error(), "EOF") {
							return nil
						}

						return err
					}
				}
			}
		case 2:
			r := &v1alpha1.CreateRequest{Resource: resourceMsg()}
			if rng.IntN(3) != 0 {
				r.Options = &v1alpha1.CreateOptions{Owner: str()}
			}

			name, req = "Create", r
			call = func(m proto.Message) error { _, err := cli.Create(dctx, m.(*v1alpha1.CreateRequest)); return err } //nolint:forcetypeassert
		case 3:
			r := &v1alpha1.UpdateRequest{NewResource: resourceMsg()}
			if rng.IntN(3) != 0 {
				r.Options = &v1alpha1.UpdateOptions{Owner: str(), ExpectedPhase: phaseStr()}
			}

			name, req = "Update", r
			call = func(m proto.Message) error { _, err := cli.Update(dctx, m.(*v1alpha1.UpdateRequest)); return err } //nolint:forcetypeassert
		case 4:
			r := &v1alpha1.DestroyRequest{Namespace: "n1", Type: res.TypeA, Id: str()}
			if rng.IntN(2) == 0 {
				r.Options = &v1alpha1.DestroyOptions{Owner: str()}
			}

			name, req = "Destroy", r
			call = func(m proto.Message) error { _, err := cli.Destroy(dctx, m.(*v1alpha1.DestroyRequest)); return err } //nolint:forcetypeassert
		case 5:
			r := &v1alpha1.TeardownRequest{Namespace: "n1", Type: res.TypeA, Id: str()}
			if rng.IntN(2) == 0 {
				r.Options = &v1alpha1.TeardownOptions{Owner: str()}
			}

			name, req = "Teardown", r
			call = func(m proto.Message) error { _, err := cli.Teardown(dctx, m.(*v1alpha1.TeardownRequest)); return err } //nolint:forcetypeassert
		case 6:
			r := &v1alpha1.TeardownAndDestroyRequest{Namespace: "n1", Type: res.TypeA, Id: str()}
			if rng.IntN(2) == 0 {
				r.Options = &v1alpha1.TeardownAndDestroyOptions{Owner: str()}
			}

			name, req = "TeardownAndDestroy", r
			call = func(m proto.Message) error {
				_, err := cli.TeardownAndDestroy(dctx, m.(*v1alpha1.TeardownAndDestroyRequest)) //nolint:forcetypeassert

				return err
			}
		default:
			r := &v1alpha1.WatchRequest{Namespace: "n1", Type: res.TypeA, ApiVersion: int32(rng.IntN(3))}

			if rng.IntN(2) == 0 {
				id := str()
				r.Id = &id
			}

			if rng.IntN(5) != 0 {
				r.Options = &v1alpha1.WatchOptions{
					BootstrapContents: rng.IntN(2) == 0, BootstrapBookmark: rng.IntN(2) == 0, Aggregated: rng.IntN(2) == 0,
					TailEvents: []int32{0, 0, 1, 5, 1 << 30, -1, -1 << 31}[rng.IntN(7)],
				}

				if rng.IntN(3) == 0 {
					r.Options.StartFromBookmark = []byte(str())
					if len(r.Options.StartFromBookmark) > 0 {
						mustErr = true
					}
				}

				if rng.IntN(3) == 0 {
					r.Options.LabelQuery = queries()
				}

				if rng.IntN(3) == 0 {
					r.Options.IdQuery = idq()
					if r.Id == nil && r.Options.IdQuery != nil && r.Options.IdQuery.Regexp == "(((" {
						mustErr = true
					}
				}
			}

			name, req = "Watch", r
			call = func(m proto.Message) error {
				s, err := cli.Watch(dctx, m.(*v1alpha1.WatchRequest)) //nolint:forcetypeassert
				if err != nil {
					return err
				}

				for j := 0; j < 3; j++ {
					if _, err := s.Recv(); err != nil {
						if j == 0 {
							return err // establishment failed
						}

						return nil
					}
				}

				return nil
			}
		}

		// one in three goes through a byte-level mutation of its wire form
		mutated := false

		if rng.IntN(3) == 0 {
			if b, err := proto.Marshal(req); err == nil && len(b) > 0 {
				for j := 1 + rng.IntN(3); j > 0; j-- {
					switch rng.IntN(3) {
					case 0:
						b[rng.IntN(len(b))] ^= byte(1 << rng.IntN(8))
					case 1:
						b = b[:rng.IntN(len(b)+1)]
					case 2:
						b = append(b, byte(rng.IntN(256)))
					}

					if len(b) == 0 {
						break
					}
				}

				fresh := req.ProtoReflect().New().Interface()
				if proto.Unmarshal(b, fresh) == nil {
					req, mutated, mustErr = fresh, true, false
				}
			}
		}

		before := len(cli.Panics())
		err := call(req)

		dcancel()
		synctest.Wait()

		c.Count("hostile_requests", 1)

		if mutated {
			c.Count("mutated_wire_messages", 1)
		}

		if err != nil {
			c.Count("hostile_rejected", 1)
		}

		c.Case(vk.Hash("hostile", name, fmt.Sprint(req)), err != nil)

		if ps := cli.Panics(); len(ps) > before {
			p := ps[len(ps)-1]
			sig := "server-handler-panicked"

			c.Violation(sig, map[string]any{"method": p.Method, "request": fmt.Sprint(req), "mutated": mutated, "panic": p.Value, "stack": p.Stack})

			return
		}

		if mustErr && err == nil {
			c.Violation("malformed-request-accepted", map[string]any{"method": name, "request": fmt.Sprint(req)})
		}
	}

	if k < 2 {
		c.Sample(map[string]any{"mode": "hostile", "requests": n})
	}
}
