//go:build verif

// C04: read-modify-write helpers are atomic under contention.
package c04

import (
	"math/rand/v2"
	"os"
	"sync"
	"testing"
	"testing/synctest"

	"verif/harness/lc"
	"verif/harness/res"
	"verif/harness/vk"
)

func TestMain(m *testing.M) {
	res.Register() // the remote scenarios unmarshal typed resources
	os.Exit(m.Run())
}

func TestC04(t *testing.T) {
	vk.Run(t, "C04", "exploration", func(c *vk.C) {
		c.Rule("seeded scenarios: 2-8 callers x 6-14 steps on 1-2 resources calling UpdateWithConflicts / Modify / ModifyWithResult (direct and via safe.*), AddFinalizer / RemoveFinalizer " +
			"(shared and unique names), Teardown, with matching and non-matching owner and expected-phase options and appending / no-op / failing mutators, against adversaries doing raw " +
			"compare-and-swap updates, forced destroys and re-creation under another owner; every store operation is delayed 0-3 virtual ticks by the gate proxy (synctest bubble). " +
			"Each mutation appends a unique token. distinct = distinct store-operation order; non-trivial = at least one conflict retry inside a helper was observed")
		c.Assume("atomicity is judged over the serialised commit log: each successful call has exactly one commit equal to mutation(pre-state) with pre-state satisfying its owner/phase options")
		c.Require("helper_conflict_retries", "uwc_ok", "uwc_noop", "modify_create", "modify_update", "errors_checked_no_effect", "owner_conflicts", "phase_conflicts")

		n := c.N(8000, 300000)

		var wg sync.WaitGroup

		sem := make(chan struct{}, 16)

		for k := 0; k < n; k++ {
			wg.Add(1)
			sem <- struct{}{}

			go func() {
				defer wg.Done()
				defer func() { <-sem }()

				rng := rand.New(rand.NewPCG(uint64(c.Seed), uint64(k)))
				opts := lc.Opts{Mix: "c04", Actors: 2 + rng.IntN(7), Steps: 6 + rng.IntN(9), IDs: 1 + rng.IntN(2), MaxDelay: 3}

				// every fourth scenario runs the helpers through the gRPC client adapter (loopback transport, real server handlers), against
				// servers with and without the native lifecycle RPCs
				remote := ""
				if k%4 == 3 {
					remote = lc.RemoteVariants[(k/4)%len(lc.RemoteVariants)]
					opts.Wrap = lc.RemoteWrap(remote)

					c.Count("remote_scenarios_"+remote, 1)
				}

				var o *lc.Outcome

				synctest.Test(t, func(*testing.T) { o = lc.Run(rng, opts) })

				ps, cov := lc.CheckC04(o)

				c.Case(o.OpsHash, o.Retries > 0)
				c.Count("commits", cov.Commits)
				c.Count("helper_conflict_retries", o.Retries)
				c.Count("uwc_ok", cov.UwcOK)
				c.Count("uwc_noop", cov.UwcNoop)
				c.Count("uwc_idempotent", cov.UwcIdem)
				c.Count("modify_create", cov.ModifyCreate)
				c.Count("modify_update", cov.ModifyUpdate)
				c.Count("errors_checked_no_effect", cov.ErrNoEffect)
				c.Count("owner_conflicts", cov.OwnerConflicts)
				c.Count("phase_conflicts", cov.PhaseConflicts)

				if k < 2 {
					c.Sample(map[string]any{"opts": opts, "calls": head(o.Calls, 12), "commits": len(o.Log)})
				}

				for _, p := range ps {
					c.Violation(p.Sig, map[string]any{"scenario": k, "opts": opts, "problem": p, "calls": o.Calls, "log": o.Log})
				}
			}()
		}

		wg.Wait()
	})
}

func head[T any](s []T, n int) []T {
	if len(s) > n {
		return s[:n]
	}

	return s
}
