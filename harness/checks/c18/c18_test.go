//go:build verif

// C18: every codec round-trips or rejects; decoders are total.
package c18

import (
	"bytes"
	"encoding/binary"
	"encoding/hex"
	"errors"
	"fmt"
	"math"
	"os"
	"runtime"
	"runtime/debug"
	"runtime/pprof"
	"slices"
	"strconv"
	"strings"
	"sync"
	"sync/atomic"
	"testing"
	"time"

	"go.yaml.in/yaml/v4"
	"google.golang.org/protobuf/proto"
	"google.golang.org/protobuf/types/known/timestamppb"

	"github.com/cosi-project/runtime/api/v1alpha1"
	"github.com/cosi-project/runtime/pkg/resource"
	"github.com/cosi-project/runtime/pkg/resource/protobuf"
	"github.com/cosi-project/runtime/pkg/state/impl/store"
	"github.com/cosi-project/runtime/pkg/state/impl/store/compression"
	"github.com/cosi-project/runtime/pkg/state/impl/store/encryption"

	"verif/harness/res"
	"verif/harness/vk"
)

func TestMain(m *testing.M) {
	registerAll()
	debug.SetGCPercent(400) // the race detector makes every GC cycle (stack shrinking, shadow resets) expensive
	os.Exit(m.Run())
}

const workers = 16

// ---- codecs ------------------------------------------------------------------------------------------------------------

var (
	keyGood  = []byte("this key is good key to use aead")
	keyOther = []byte("this key is okay key to use aead")
)

type layer int

const (
	layC0 layer = iota
	layC64
	layC1M
	layE
	numLayers
)

var (
	layerName = [...]string{"C0", "C64", "C1M", "E"}
	layerMin  = [...]int{0, 64, 1 << 20, -1}
)

type codec struct {
	name   string
	layers []layer // innermost first
	m      store.Marshaler
}

func (cd *codec) depth() int { return len(cd.layers) }

func (cd *codec) outerEnc() bool { return len(cd.layers) > 0 && cd.layers[len(cd.layers)-1] == layE }

func (cd *codec) hasEnc() bool { return slices.Contains(cd.layers, layE) }

func (cd *codec) sigBase() string {
	switch {
	case cd.depth() == 0:
		return "store-marshaler"
	case cd.depth() > 1:
		return "stacked-marshaler"
	case cd.layers[0] == layE:
		return "encryption"
	default:
		return "compression"
	}
}

func cipherFor(key []byte) *encryption.Cipher {
	return encryption.NewCipher(encryption.KeyProviderFunc(func() ([]byte, error) { return key, nil }))
}

// buildCodecs enumerates every stacking of depth 0..3 of {compression min 0/64/1MiB, encryption} over the protobuf store marshaler.
func buildCodecs(comp func() compression.Compressor, key []byte) []*codec {
	ciph := cipherFor(key)

	var out []*codec

	var rec func(cd *codec)

	rec = func(cd *codec) {
		out = append(out, cd)

		if cd.depth() == 3 {
			return
		}

		for l := layer(0); l < numLayers; l++ {
			next := &codec{layers: append(slices.Clone(cd.layers), l), name: layerName[l] + "(" + cd.name + ")"}

			if l == layE {
				next.m = encryption.NewMarshaler(cd.m, ciph)
			} else {
				next.m = compression.NewMarshaler(cd.m, comp(), layerMin[l])
			}

			rec(next)
		}
	}

	rec(&codec{name: "pb", m: store.ProtobufMarshaler{}})

	return out
}

// guardZ protects the harness process from zstd frames which declare a huge content size: the real decoder allocates the
// declared size up front (see allocProbe). Such inputs are diverted (counted, answered with an error) in the totality and tamper parts.
type guardZ struct {
	inner    compression.Compressor
	diverted *atomic.Int64
}

// The zstd compressor of the repository allows two concurrent encodes per instance; the harness spreads its marshalers over a pool of
// instances so that 16 workers do not queue on one.
const poolSize = 8

func realPool() func() compression.Compressor {
	pool := make([]compression.Compressor, poolSize)
	for i := range pool {
		pool[i] = compression.ZStd()
	}

	n := 0

	return func() compression.Compressor {
		n++

		return pool[n%poolSize]
	}
}

var divertedTotal atomic.Int64

func guardedPool() func() compression.Compressor {
	inner := realPool()
	pool := make([]compression.Compressor, poolSize)

	for i := range pool {
		pool[i] = &guardZ{inner: inner(), diverted: &divertedTotal}
	}

	n := 0

	return func() compression.Compressor {
		n++

		return pool[n%poolSize]
	}
}

const guardLimit = 8 << 20

var errDiverted = errors.New("c18 guard: zstd frame declares a huge content size, not passed to the real decoder")

func (g *guardZ) Compress(p, d []byte) ([]byte, error) { return g.inner.Compress(p, d) }
func (g *guardZ) ID() byte                             { return g.inner.ID() }

func (g *guardZ) Decompress(d []byte) ([]byte, error) {
	if zstdDeclared(d) > guardLimit {
		g.diverted.Add(1)

		return nil, errDiverted
	}

	return g.inner.Decompress(d)
}

var zstdMagic = []byte{0x28, 0xb5, 0x2f, 0xfd}

// zstdDeclared walks the frames of d the way a decoder reaches them (frame header, block headers without looking into the blocks,
// optional checksum, skippable frames) and returns the largest content size / window size declared by any frame header reached.
// It over-approximates what the real decoder can get to: the walk does not validate block contents.
func zstdDeclared(d []byte) uint64 {
	var worst uint64

	for len(d) >= 4 {
		magic := binary.LittleEndian.Uint32(d)

		if magic&0xfffffff0 == 0x184d2a50 { // skippable frame
			if len(d) < 8 {
				return worst
			}

			n := uint64(binary.LittleEndian.Uint32(d[4:]))
			if 8+n > uint64(len(d)) {
				return worst
			}

			d = d[8+n:]

			continue
		}

		if magic != 0xfd2fb528 || len(d) < 5 {
			return worst
		}

		fhd := d[4]
		single := fhd&0x20 != 0
		pos := 5

		if !single {
			if len(d) <= pos {
				return worst
			}

			wd := d[pos]
			base := uint64(1) << (10 + (wd >> 3))
			worst = max(worst, base+base/8*uint64(wd&7))
			pos++
		}

		pos += [...]int{0, 1, 2, 4}[fhd&3]

		var (
			n   int
			add uint64
		)

		switch fhd >> 6 {
		case 0:
			if single {
				n = 1
			}
		case 1:
			n, add = 2, 256
		case 2:
			n = 4
		case 3:
			n = 8
		}

		if len(d) < pos+n {
			return worst
		}

		if n > 0 {
			var buf [8]byte

			copy(buf[:], d[pos:pos+n])

			worst = max(worst, binary.LittleEndian.Uint64(buf[:])+add)
		}

		d = d[pos+n:]

		// blocks
		for {
			if len(d) < 3 {
				return worst
			}

			bh := uint32(d[0]) | uint32(d[1])<<8 | uint32(d[2])<<16
			d = d[3:]

			size := int(bh >> 3)

			switch (bh >> 1) & 3 {
			case 1: // RLE
				size = 1
			case 3: // reserved
				return worst
			}

			if size > len(d) {
				return worst
			}

			d = d[size:]

			if bh&1 != 0 {
				break
			}
		}

		if fhd&4 != 0 { // content checksum
			if len(d) < 4 {
				return worst
			}

			d = d[4:]
		}
	}

	return worst
}

// ---- the check -----------------------------------------------------------------------------------------------------------

func TestC18(t *testing.T) {
	vk.Run(t, "C18", "exploration", func(c *vk.C) {
		c.Rule("round trips: seeded generator of resources of 5 kinds (typed with JSON spec, typed with a real protobuf message spec via protobuf.ResourceSpec, dynamically registered protoenc " +
			"spec, unregistered type carried as *protobuf.Resource with opaque spec bytes) whose namespace/type/id/owner/labels/annotations/finalizers come from a pool of ~230 hostile strings " +
			"(empty, whitespace, YAML-special scalars and indicators, multi-line, CR/LF, control characters, BOM, NEL/LS/PS, long lines, timestamp/number look-alikes, random runes; 1/8 of the cases " +
			"also invalid UTF-8), versions (undefined, 0, 1, MaxInt64, random), both phases, timestamps (zero time, epoch, sub-second, far past/future, non-UTC whole-minute zones), specs from empty " +
			"to 16 KiB (compressible and not) plus dedicated cases above 1 MiB and cases whose plain encoding is exactly threshold-2..threshold+2 bytes for the thresholds 64 and 1 MiB; each goes " +
			"through protobuf wire (vtproto and google.golang.org/protobuf), the store marshaler, every depth-1 wrapper (compression min 0/64/1MiB, encryption) and a seeded selection of the 80 " +
			"depth-2/3 stackings, YAML of metadata and of the whole resource. totality: seeded mutator (bit flips, truncation, valid prefix + garbage, splices, dictionary tokens, line edits, " +
			"random bytes) over valid encodings fed to all 85 marshaler stackings, YAML metadata / YAMLResource, protobuf.Unmarshal + UnmarshalResource + NewMetadataFromProto + NewAnyFromProto " +
			"(wire bytes and structured hostile messages: nil/out-of-range timestamps, bad version/phase texts, duplicate finalizers, hostile YAML specs) and the version/phase/RFC 3339 text parsers; " +
			"an accepted input must re-encode and decode to the same resource. tamper: every position of >= 200 records of stackings containing encryption is changed (3 values per position in " +
			"the first 64 and last 32 bytes, 1 elsewhere, all 255 for the 14 header bytes of every tenth record), every truncation, insertions/deletions/appends, 4 wrong keys per record. " +
			"distinct = hash of generated case / decoder input; non-trivial = a generated case with >= 1 hostile string that went through a stacking of depth >= 2, a decoder input that the decoder " +
			"accepted, or a tamper record")
		c.Assume("timestamps are drawn from the RFC 3339 domain (years 1..9999, whole-minute zone offsets); YAML timestamps are second-granular by design and compared at 1 s; instants are compared " +
			"with time.Equal (zone names are not part of the value)")
		c.Assume("nil-vs-empty maps/slices and finalizer order are not part of resource equality (resource.Equal ignores them); the JSON spec codec of the harness types A-D only gets valid UTF-8")
		c.Assume("zstd frames declaring more than 8 MiB of content are not passed to the real decompressor in the totality/tamper parts (it allocates the declared size up front, up to 64 GiB); " +
			"they are counted in zstd_huge_declared_inputs_diverted and one bounded probe measures the allocation")
		c.Require("roundtrips_protobuf", "roundtrips_store", "roundtrips_compression", "roundtrips_encryption", "roundtrips_stacked", "roundtrips_yaml", "roundtrips_yaml_resource",
			"compressed_above_threshold", "compressed_below_threshold", "threshold_boundary_cases", "decoder_inputs", "decoder_inputs_accepted", "hostile_proto_messages",
			"tamper_cases", "wrong_key_cases", "text_forms_checked")

		real := buildCodecs(realPool(), keyGood)
		guarded := buildCodecs(guardedPool(), keyGood)

		if path := os.Getenv("C18_CPUPROFILE"); path != "" { // debugging aid: vk exits the process, so the standard flag would not flush
			if f, err := os.Create(path); err == nil {
				_ = pprof.StartCPUProfile(f)

				defer pprof.StopCPUProfile()
			}
		}

		phases := map[string]float64{}
		timed := func(name string, f func()) {
			t0 := time.Now()

			f()

			phases[name] = math.Round(time.Since(t0).Seconds()*10) / 10
		}

		timed("alloc_probe", func() { allocProbe(c) })
		timed("text_forms", func() { textForms(c) })

		// round trips; the few expensive tasks (specs above 1 MiB, threshold boundaries) are scheduled first so that they overlap with the rest
		timed("round_trips", func() {
			bt := boundaryTasks(c, real)
			nHuge, nRT := c.N(4, 120), c.N(1000, 100000)

			parallel(len(bt)+nHuge+nRT, func(i int, cnt counts) {
				switch {
				case i < len(bt):
					bt[i](cnt)
				case i < len(bt)+nHuge:
					hugeCase(c, i-len(bt), real, cnt)
				default:
					roundTripCase(c, i-len(bt)-nHuge, real, cnt)
				}
			}, c)

			finishBoundary(c)
		})

		// hostile structured protobuf messages
		timed("hostile_messages", func() {
			parallel(c.N(6000, 1000000), func(i int, cnt counts) { hostileMessage(c, i, cnt) }, c)
		})

		// tamper
		timed("tamper", func() {
			parallel(c.N(210, 6000), func(i int, cnt counts) { tamperRecord(c, i, guarded, cnt) }, c)
		})

		// totality (seeded driver of the native fuzz bodies)
		timed("totality", func() { totality(c, guarded, c.N(200000, 8000000)) })

		c.Count("zstd_huge_declared_inputs_diverted", int(divertedTotal.Load()))
		c.Extra("phase_seconds", phases)
		fmt.Printf("phase seconds: %v\n", phases)
	})
}

type counts map[string]int

// parallel runs f(i) for i in [0,n) on up to 16 workers; every i derives its own PRNG from the seed, so results do not depend on scheduling.
func parallel(n int, f func(i int, cnt counts), c *vk.C) {
	var (
		wg   sync.WaitGroup
		next atomic.Int64
	)

	for w := 0; w < min(workers, runtime.GOMAXPROCS(0)*2, n); w++ {
		wg.Add(1)

		go func() {
			defer wg.Done()

			cnt := counts{}

			defer func() {
				for k, v := range cnt {
					c.Count(k, v)
				}
			}()

			for {
				i := int(next.Add(1)) - 1
				if i >= n {
					return
				}

				f(i, cnt)
			}
		}()
	}

	wg.Wait()
}

func hexClip(b []byte) string {
	if len(b) > 2048 {
		return hex.EncodeToString(b[:2048]) + fmt.Sprintf("...(%d bytes)", len(b))
	}

	return hex.EncodeToString(b)
}

func truncSec(t time.Time) time.Time { return t.Truncate(time.Second) }

// diff compares a decoded resource with the original; "" = equal.
func diff(orig, got resource.Resource, secondGranular bool) string {
	if got == nil {
		return "nil resource without error"
	}

	if d := mdDiff(orig.Metadata(), got.Metadata(), secondGranular); d != "" {
		return "metadata." + d
	}

	if !specEqual(orig, got) {
		return "spec"
	}

	if !resource.Equal(orig, got) {
		return "resource.Equal"
	}

	return ""
}

// ---- round trips -----------------------------------------------------------------------------------------------------------

func roundTripCase(c *vk.C, i int, codecs []*codec, cnt counts) {
	rng := c.Rand(uint64(1_000_000 + i))
	g := newGen(rng)
	gc := g.resource(sizeLarge, true)

	if i < 2 {
		c.Sample(gc.describe())
	}

	if !gc.allValid {
		cnt["cases_with_invalid_utf8"]++
	}

	if gc.hostile > 0 {
		cnt["cases_with_hostile_strings"]++
	}

	checkProtobufWire(c, gc, cnt)

	// store marshaler, all depth-1 wrappers, a seeded choice of stackings
	chosen := []*codec{codecs[0]}
	deep := 0

	for _, cd := range codecs {
		if cd.depth() == 1 {
			chosen = append(chosen, cd)
		}
	}

	picks := 4

	for k := 0; k < picks; k++ {
		cd := codecs[rng.IntN(len(codecs))]
		if cd.depth() >= 2 {
			chosen = append(chosen, cd)
			deep++
		}
	}

	for _, cd := range chosen {
		checkStore(c, gc, cd, cnt)
	}

	checkYAMLMeta(c, gc, cnt)

	if gc.size != sizeHuge && (gc.kind == kindA || gc.kind == kindC || gc.kind == kindP) {
		checkYAMLResource(c, gc, cnt)
	}

	c.Case(vk.Hash("rt", i, gc.r.Metadata().String(), gc.hostile), gc.hostile > 0 && deep > 0)
}

func checkProtobufWire(c *vk.C, gc *genCase, cnt counts) {
	for _, variant := range []string{"vtproto", "golang-protobuf"} {
		var (
			got   resource.Resource
			stage string
			err   error
			wire  []byte
		)

		p, st := vk.Try(func() {
			var (
				pr *protobuf.Resource
				pm *v1alpha1.Resource
			)

			if pr, err = protobuf.FromResource(gc.r); err != nil {
				stage = "encode:FromResource"

				return
			}

			if pm, err = pr.Marshal(); err != nil {
				stage = "encode:Marshal"

				return
			}

			if variant == "vtproto" {
				wire, err = protobuf.ProtoMarshal(pm)
			} else {
				wire, err = proto.Marshal(pm)
			}

			if err != nil {
				stage = "encode:wire"

				return
			}

			var back v1alpha1.Resource

			if variant == "vtproto" {
				err = protobuf.ProtoUnmarshal(wire, &back)
			} else {
				err = proto.Unmarshal(wire, &back)
			}

			if err != nil {
				stage = "decode:wire"

				return
			}

			var pr2 *protobuf.Resource

			if pr2, err = protobuf.Unmarshal(&back); err != nil {
				stage = "decode:Unmarshal"

				return
			}

			if got, err = protobuf.UnmarshalResource(pr2); err != nil {
				stage = "decode:UnmarshalResource"
			}
		})

		detail := func(extra map[string]any) map[string]any {
			d := map[string]any{"codec": "protobuf/" + variant, "case": gc.describe(), "wire_hex": hexClip(wire)}
			for k, v := range extra {
				d[k] = v
			}

			return d
		}

		switch {
		case p != nil:
			c.Violation("codec-panicked", detail(map[string]any{"panic": fmt.Sprint(p), "stack": st}))
		case err != nil && !gc.allValid:
			cnt["rejected_invalid_utf8"]++
		case err != nil && strings.HasPrefix(stage, "encode"):
			c.Violation("protobuf-encoder-rejected-valid-resource", detail(map[string]any{"stage": stage, "error": err.Error()}))
		case err != nil:
			c.Violation("protobuf-decoder-rejected-own-encoding", detail(map[string]any{"stage": stage, "error": err.Error()}))
		default:
			if d := diff(gc.r, got, false); d != "" {
				c.Violation("protobuf-roundtrip-differs", detail(map[string]any{"differs": d, "got": describeRes(got)}))
			}

			cnt["roundtrips_protobuf"]++
		}
	}
}

func describeRes(r resource.Resource) map[string]any {
	if r == nil {
		return nil
	}

	gc := &genCase{r: r}
	d := gc.describe()
	d["go_type"] = fmt.Sprintf("%T", r)
	delete(d, "kind")

	return d
}

func checkStore(c *vk.C, gc *genCase, cd *codec, cnt counts) {
	var (
		b    []byte
		got  resource.Resource
		err  error
		encd bool
	)

	p, st := vk.Try(func() {
		if b, err = cd.m.MarshalResource(gc.r); err != nil {
			return
		}

		encd = true
		got, err = cd.m.UnmarshalResource(b)
	})

	detail := func(extra map[string]any) map[string]any {
		d := map[string]any{"codec": cd.name, "case": gc.describe(), "encoded_len": len(b), "encoded_hex": hexClip(b)}
		for k, v := range extra {
			d[k] = v
		}

		return d
	}

	switch {
	case p != nil:
		c.Violation("codec-panicked", detail(map[string]any{"panic": fmt.Sprint(p), "stack": st}))

		return
	case err != nil && !gc.allValid:
		cnt["rejected_invalid_utf8"]++

		return
	case err != nil && !encd:
		c.Violation(cd.sigBase()+"-encoder-rejected-valid-resource", detail(map[string]any{"error": err.Error()}))

		return
	case err != nil:
		c.Violation(cd.sigBase()+"-decoder-rejected-own-encoding", detail(map[string]any{"error": err.Error()}))

		return
	}

	if d := diff(gc.r, got, false); d != "" {
		c.Violation(cd.sigBase()+"-roundtrip-differs", detail(map[string]any{"differs": d, "got": describeRes(got)}))
	}

	switch {
	case cd.depth() == 0:
		cnt["roundtrips_store"]++
	case cd.depth() > 1:
		cnt["roundtrips_stacked"]++
	case cd.layers[0] == layE:
		cnt["roundtrips_encryption"]++
	default:
		cnt["roundtrips_compression"]++

		if len(b) > 1 && b[0] == 0 {
			cnt["compressed_above_threshold"]++
			cnt["compressed_above_threshold_"+layerName[cd.layers[0]]]++
		} else {
			cnt["compressed_below_threshold"]++
			cnt["compressed_below_threshold_"+layerName[cd.layers[0]]]++
		}
	}
}

func checkYAMLMeta(c *vk.C, gc *genCase, cnt counts) {
	md := gc.r.Metadata()

	var (
		b, b2       []byte
		back, back2 resource.Metadata
		stage       string
		err         error
	)

	p, st := vk.Try(func() {
		if b, err = yaml.Marshal(md); err != nil {
			stage = "encode"

			return
		}

		if err = yaml.Unmarshal(b, &back); err != nil {
			stage = "decode"

			return
		}

		if b2, err = yaml.Marshal(&back); err != nil {
			stage = "re-encode"

			return
		}

		if err = yaml.Unmarshal(b2, &back2); err != nil {
			stage = "re-decode"
		}
	})

	detail := func(extra map[string]any) map[string]any {
		d := map[string]any{"codec": "yaml/metadata", "case": gc.describe(), "yaml": clipText(string(b))}
		for k, v := range extra {
			d[k] = v
		}

		return d
	}

	switch {
	case p != nil:
		c.Violation("codec-panicked", detail(map[string]any{"panic": fmt.Sprint(p), "stack": st}))

		return
	case err != nil && !gc.mdValid:
		cnt["rejected_invalid_utf8"]++

		return
	case err != nil && stage == "encode":
		c.Violation("yaml-encoder-rejected-valid-metadata", detail(map[string]any{"error": err.Error()}))

		return
	case err != nil:
		c.Violation(yamlCauseSig("yaml-decoder-rejected-own-encoding", err, "", &carrier{md: *md}), detail(map[string]any{"stage": stage, "error": err.Error()}))

		return
	}

	if d := mdDiff(md, &back, true); d != "" {
		got := (&genCase{r: &carrier{md: back}}).describe()

		if !gc.mdValid {
			cnt["yaml_invalid_utf8_changed"]++

			c.Violation("yaml-invalid-utf8-silently-changed", detail(map[string]any{"differs": d, "got": got}))
		} else {
			c.Violation(yamlCauseSig("yaml-roundtrip-differs", nil, d, &carrier{md: *md}), detail(map[string]any{"differs": d, "got": got}))
		}

		return
	}

	// format(parse(format(t))) == format(t), and the second pass is exact
	if d := mdDiff(&back, &back2, false); d != "" || back.Created().Format(time.RFC3339) != md.Created().Format(time.RFC3339) || back.Updated().Format(time.RFC3339) != md.Updated().Format(time.RFC3339) {
		if d == "created" || d == "updated" || d == "" {
			c.Violation("yaml-timestamp-not-idempotent", detail(map[string]any{"differs": d, "yaml2": clipText(string(b2))}))
		} else if gc.mdValid {
			c.Violation("yaml-roundtrip-differs", detail(map[string]any{"differs": "second pass: " + d, "yaml2": clipText(string(b2))}))
		}

		return
	}

	cnt["roundtrips_yaml"]++
}

// SigSpecYAMLLibrary is the signature of the recorded finding "the YAML library does not round-trip some spec strings": the spec of a
// resource is written and read by the YAML library's own struct encoder / decoder (cosi code only passes the spec value through), and
// the library mis-handles several string classes (multi-line strings starting with a tab or - inside sequences - with a space, strings
// around U+2028/U+2029 or carriage returns in block scalars, strings that are not valid UTF-8 ...).
const SigSpecYAMLLibrary = "yaml-spec-not-roundtripped-by-yaml-library"

// specAloneFailsThroughLibrary reports whether the spec of r, sent through the YAML library alone (yaml.Marshal of the spec value,
// yaml.Unmarshal into a fresh spec of the same resource type - no metadata, no cosi resource wrapper), already fails to come back equal.
func specAloneFailsThroughLibrary(r resource.Resource) (fails bool) {
	defer func() {
		if recover() != nil {
			fails = true
		}
	}()

	b, err := yaml.Marshal(r.Spec())
	if err != nil {
		return true
	}

	fresh, err := protobuf.CreateResource(r.Metadata().Type())
	if err != nil {
		return false // (not a registered type: cannot be isolated, so nothing is attributed to the library)
	}

	if err := yaml.Unmarshal(b, fresh.Spec()); err != nil {
		return true
	}

	return !specEqual(r, fresh)
}

// yamlCauseSig refines the signature of a YAML failure when the case shows one of two causes which were traced to the YAML library
// (go.yaml.in/yaml/v4) and are reported as findings of their own:
//   - a multi-line string whose first line starts with a tab is written as a block scalar without indentation indicator, which the
//     library's own scanner refuses ("found a tab character where an indentation space is expected");
//   - a multi-line string whose first non-empty line starts with a space and which is an element of a sequence (finalizers, list
//     fields of a spec) is written with a wrong indentation indicator: it is read back without its leading spaces, or the document
//     becomes unreadable.
//
// Each cause has one signature for metadata strings (written by Metadata.MarshalYAML) and one for spec fields (written by the library's
// struct encoder).
func yamlCauseSig(def string, err error, differs string, r resource.Resource) string {
	firstLineStarts := func(ss []string, prefix string) bool {
		for _, e := range ss {
			if strings.ContainsAny(e, "\r\n\u0085\u2028\u2029") && strings.HasPrefix(strings.TrimLeft(e, "\r\n\u0085\u2028\u2029"), prefix) {
				return true
			}
		}

		return false
	}

	// when both the metadata and the spec of a resource hold such a string, the metadata is blamed only if it fails on its own
	mdAloneFails := func() bool {
		b, e := yaml.Marshal(r.Metadata())
		if e != nil {
			return true
		}

		var back resource.Metadata

		return yaml.Unmarshal(b, &back) != nil || !back.Equal(*r.Metadata())
	}

	if err != nil && strings.Contains(err.Error(), "found a tab character where an indentation space is expected") {
		switch {
		case firstLineStarts(mdStrings(r.Metadata()), "\t") && mdAloneFails():
			return "yaml-tab-led-multiline-string-unreadable"
		case firstLineStarts(specStrings(r), "\t"):
			return SigSpecYAMLLibrary
		}
	}

	if (err != nil || strings.Contains(differs, "finalizers")) && firstLineStarts(*r.Metadata().Finalizers(), " ") && mdAloneFails() {
		return "yaml-space-led-multiline-list-item-corrupted"
	}

	if (err != nil || strings.Contains(differs, "spec")) && firstLineStarts(specLists(r), " ") {
		return SigSpecYAMLLibrary
	}

	// anything else about the spec: blamed on the library only if the metadata is fine on its own and the library alone, fed the bare
	// spec, reproduces a failure
	if (err != nil || strings.Contains(differs, "spec")) && !mdAloneFails() && specAloneFailsThroughLibrary(r) {
		return SigSpecYAMLLibrary
	}

	return def
}

// specLists returns the elements of the list-typed string fields of a spec.
func specLists(r resource.Resource) []string {
	switch x := r.(type) {
	case *P:
		if v := x.TypedSpec().Value; v != nil {
			return v.Finalizers
		}
	case *Dyn:
		return x.TypedSpec().List
	}

	if sp := res.SpecOf(r); sp != nil {
		return sp.S
	}

	return nil
}

func clipText(s string) string {
	if len(s) > 3000 {
		return s[:3000] + fmt.Sprintf("...(%d bytes)", len(s))
	}

	return s
}

func checkYAMLResource(c *vk.C, gc *genCase, cnt counts) {
	var (
		b     []byte
		got   resource.Resource
		stage string
		err   error
	)

	p, st := vk.Try(func() {
		var s any

		if s, err = resource.MarshalYAML(gc.r); err != nil {
			stage = "encode"

			return
		}

		if b, err = yaml.Marshal(s); err != nil {
			stage = "encode"

			return
		}

		var yr protobuf.YAMLResource

		if err = yaml.Unmarshal(b, &yr); err != nil {
			stage = "decode"

			return
		}

		got = yr.Resource()
	})

	detail := func(extra map[string]any) map[string]any {
		d := map[string]any{"codec": "yaml/resource", "case": gc.describe(), "yaml": clipText(string(b))}
		for k, v := range extra {
			d[k] = v
		}

		return d
	}

	switch {
	case p != nil:
		c.Violation("codec-panicked", detail(map[string]any{"panic": fmt.Sprint(p), "stack": st}))

		return
	case err != nil && !gc.allValid:
		cnt["rejected_invalid_utf8"]++

		return
	case err != nil && stage == "encode":
		c.Violation("yaml-encoder-rejected-valid-resource", detail(map[string]any{"error": err.Error()}))

		return
	case err != nil:
		c.Violation(yamlCauseSig("yaml-decoder-rejected-own-encoding", err, "", gc.r), detail(map[string]any{"stage": stage, "error": err.Error()}))

		return
	}

	mdD := mdDiff(gc.r.Metadata(), got.Metadata(), true)
	specOK := specEqual(gc.r, got)

	switch {
	case mdD != "" && !gc.mdValid:
		cnt["yaml_invalid_utf8_changed"]++

		c.Violation("yaml-invalid-utf8-silently-changed", detail(map[string]any{"differs": "metadata." + mdD, "got": describeRes(got)}))
	case mdD != "":
		c.Violation(yamlCauseSig("yaml-roundtrip-differs", nil, mdD, gc.r), detail(map[string]any{"differs": "metadata." + mdD, "got": describeRes(got)}))
	case !specOK && !allValid(specStrings(gc.r)):
		c.Violation(yamlCauseSig("yaml-spec-invalid-utf8-silently-changed", nil, "spec", gc.r), detail(map[string]any{"differs": "spec", "got_spec": fmt.Sprintf("%+v", got.Spec())}))
	case !specOK:
		c.Violation(yamlCauseSig("yaml-resource-spec-roundtrip-differs", nil, "spec", gc.r), detail(map[string]any{"differs": "spec", "got_spec": clipText(fmt.Sprintf("%+v", got.Spec()))}))
	default:
		cnt["roundtrips_yaml_resource"]++
	}
}

// hugeCase sends one resource with a spec above 1 MiB through the store marshaler, every depth-1 wrapper and a few stackings
// (this is what puts the 1 MiB compression threshold on its "above" side; no YAML for these).
func hugeCase(c *vk.C, i int, codecs []*codec, cnt counts) {
	rng := c.Rand(uint64(2_000_000 + i))
	g := newGen(rng)
	g.forceHuge = true

	gc := g.resource(sizeHuge, false)
	chosen := []*codec{codecs[0]}

	for _, cd := range codecs {
		if cd.depth() == 1 && (cd.layers[0] == layC1M || cd.layers[0] == layE) {
			chosen = append(chosen, cd)
		}
	}

	for k := 0; k < 1; {
		if cd := codecs[rng.IntN(len(codecs))]; cd.depth() == 2 && slices.Contains(cd.layers, layC1M) {
			chosen = append(chosen, cd)
			k++
		}
	}

	for _, cd := range chosen {
		checkStore(c, gc, cd, cnt)
	}

	cnt["huge_spec_cases"]++

	c.Case(vk.Hash("huge", i, gc.r.Metadata().String()), gc.hostile > 0)
}

// ---- threshold boundary ------------------------------------------------------------------------------------------------------

var (
	boundaryMu       sync.Mutex
	boundaryObserved = map[string]map[string]bool{}
)

// boundaryTasks builds, for the thresholds 64 and 1 MiB, resources whose plain encoding has exactly threshold-2 .. threshold+2 bytes.
func boundaryTasks(c *vk.C, codecs []*codec) []func(cnt counts) {
	var tasks []func(cnt counts)

	for _, l := range []layer{layC1M, layC64} {
		var cd *codec

		for _, x := range codecs {
			if x.depth() == 1 && x.layers[0] == l {
				cd = x
			}
		}

		T := layerMin[l]

		deltas := []int{-2, -1, 0, 1, 2}
		if l == layC1M {
			deltas = []int{-1, 0, 1}
		}

		for _, delta := range deltas {
			tasks = append(tasks, func(cnt counts) { boundaryCase(c, codecs[0], cd, T, delta, cnt) })
		}
	}

	return tasks
}

func boundaryCase(c *vk.C, plainCodec, cd *codec, T, delta int, cnt counts) {
	want := T + delta

	// adjust the opaque spec length until the plain encoding has exactly the wanted length
	car := &carrier{md: resource.NewMetadata("", "t", "", resource.VersionUndefined)}
	car.md.SetCreated(time.Time{})
	car.md.SetUpdated(time.Time{})

	specLen := max(1, want-40)

	var pr *protobuf.Resource

	ok := false

	for iter := 0; iter < 12; iter++ {
		car.spec.B = bytes.Repeat([]byte{'q'}, specLen)

		var err error

		if pr, err = protobuf.FromResource(car, protobuf.WithoutYAML()); err != nil {
			c.Inconclusive("boundary carrier: " + err.Error())

			return
		}

		plain, err := plainCodec.m.MarshalResource(pr)
		if err != nil {
			c.Inconclusive("boundary encode: " + err.Error())

			return
		}

		if len(plain) == want {
			ok = true

			break
		}

		specLen += want - len(plain)
		if specLen < 1 {
			break
		}
	}

	if !ok {
		cnt["threshold_boundary_unreachable"]++

		return
	}

	gc := &genCase{r: pr, kind: kindRaw, mdValid: true, allValid: true}

	checkStore(c, gc, cd, cnt)

	b, _ := cd.m.MarshalResource(pr)

	boundaryMu.Lock()

	if boundaryObserved[strconv.Itoa(T)] == nil {
		boundaryObserved[strconv.Itoa(T)] = map[string]bool{}
	}

	boundaryObserved[strconv.Itoa(T)][strconv.Itoa(want)] = len(b) > 1 && b[0] == 0

	boundaryMu.Unlock()

	cnt["threshold_boundary_cases"]++

	c.Case(vk.Hash("boundary", T, delta), false)
}

func finishBoundary(c *vk.C) {
	boundaryMu.Lock()
	defer boundaryMu.Unlock()

	c.Extra("threshold_boundary_compressed", boundaryObserved)
}

// ---- text forms ----------------------------------------------------------------------------------------------------------------

func textForms(c *vk.C) {
	rng := c.Rand(77)
	g := newGen(rng)
	cnt := counts{}

	defer func() {
		for k, v := range cnt {
			c.Count(k, v)
		}
	}()

	n := c.N(3000, 300000)

	// versions constructed through the API
	for i := 0; i < n; i++ {
		v := g.version()
		s := v.String()

		back, err := resource.ParseVersion(s)
		if err != nil || !back.Equal(v) || back.String() != s {
			c.Violation("version-text-roundtrip-differs", map[string]any{"version": s, "error": fmt.Sprint(err), "back": back.String()})
		}

		cnt["text_forms_checked"]++
		cnt["text_versions"]++
	}

	// the first version which Next() can produce beyond MaxInt64
	{
		v := mustVersion(strconv.FormatInt(math.MaxInt64, 10)).Next()
		_, err := resource.ParseVersion(v.String())

		cnt["text_forms_checked"]++

		if err != nil {
			car := &carrier{md: resource.NewMetadata("ns", "t", "id", v)}
			pr, _ := protobuf.FromResource(car, protobuf.WithoutYAML())
			b, encErr := store.ProtobufMarshaler{}.MarshalResource(pr)
			_, decErr := store.ProtobufMarshaler{}.UnmarshalResource(b)

			c.Violation("version-next-beyond-int64-text-not-parseable", map[string]any{
				"how":   "ParseVersion(\"9223372036854775807\").Next()",
				"text":  v.String(),
				"error": err.Error(),
				"store": map[string]any{"marshal_error": fmt.Sprint(encErr), "unmarshal_error": fmt.Sprint(decErr), "record_hex": hexClip(b)},
			})
		}
	}

	// phases
	for _, ph := range []resource.Phase{resource.PhaseRunning, resource.PhaseTearingDown} {
		back, err := resource.ParsePhase(ph.String())
		if err != nil || back != ph {
			c.Violation("phase-text-roundtrip-differs", map[string]any{"phase": ph.String(), "error": fmt.Sprint(err)})
		}

		cnt["text_forms_checked"]++
	}

	// arbitrary strings into the text parsers
	sk := &vkSink{c: c, cnt: cnt}

	var inputs []string

	inputs = append(inputs, hostileValid...)
	inputs = append(inputs, hostileInvalid...)
	inputs = append(inputs, "-1", "-0", "-9223372036854775808", "-9223372036854775807", "+0", "+9223372036854775807", "00", "0000000000000000000000001", " 1", "1 ", "1\n", "\t1",
		"9223372036854775807", "9223372036854775808", "18446744073709551615", "18446744073709551616", "1_0", "0x1", "1e1", "１", "Undefined", "undefined ", "running ", "Running", "tearingdown", "TearingDown")

	for i := 0; i < n; i++ {
		switch rng.IntN(4) {
		case 0:
			inputs = append(inputs, strconv.FormatInt(int64(rng.Uint64()), 10))
		case 1:
			inputs = append(inputs, strconv.FormatUint(rng.Uint64(), 10))
		case 2:
			inputs = append(inputs, []string{"-", "+", " ", "0", ""}[rng.IntN(5)]+strconv.Itoa(rng.IntN(100000)))
		default:
			inputs = append(inputs, g.randRunes(1+rng.IntN(6)))
		}
	}

	for _, s := range inputs {
		acc := bodyText(sk, s)
		cnt["text_forms_checked"]++
		c.Case("text|"+s, acc)
	}

	// timestamps: RFC 3339 text (the YAML form) and timestamppb (the wire form)
	for i := 0; i < n; i++ {
		t := g.timestamp()
		s := t.Format(time.RFC3339)

		back, err := time.Parse(time.RFC3339, s)

		switch {
		case err != nil:
			c.Violation("timestamp-text-not-parseable", map[string]any{"t": t.Format(time.RFC3339Nano), "text": s, "error": err.Error()})
		case !back.Equal(truncSec(t)):
			c.Violation("timestamp-text-roundtrip-differs", map[string]any{"t": t.Format(time.RFC3339Nano), "text": s, "back": back.Format(time.RFC3339Nano)})
		case back.Format(time.RFC3339) != s:
			c.Violation("yaml-timestamp-not-idempotent", map[string]any{"t": t.Format(time.RFC3339Nano), "text": s, "text2": back.Format(time.RFC3339)})
		}

		if w := timestamppb.New(t).AsTime(); !w.Equal(t) {
			c.Violation("timestamp-proto-roundtrip-differs", map[string]any{"t": t.Format(time.RFC3339Nano), "back": w.Format(time.RFC3339Nano)})
		}

		cnt["text_forms_checked"]++
		cnt["text_timestamps"]++
	}

	// outside the assumed domain: recorded as information only
	outside := map[string]string{}

	for name, t := range map[string]time.Time{
		"year-10000":          time.Date(10000, 1, 1, 0, 0, 0, 0, time.UTC),
		"year-minus-1":        time.Date(-1, 1, 1, 0, 0, 0, 0, time.UTC),
		"zone-offset-seconds": time.Date(2000, 1, 1, 0, 0, 0, 0, time.FixedZone("LMT", 3208)),
	} {
		md := resource.NewMetadata("ns", "t", "id", resource.VersionUndefined)
		md.SetCreated(t)
		md.SetUpdated(t)

		var back resource.Metadata

		b, err := yaml.Marshal(&md)
		if err == nil {
			err = yaml.Unmarshal(b, &back)
		}

		switch {
		case err != nil:
			outside[name] = "own YAML rejected on read: " + err.Error()
		case !back.Created().Equal(truncSec(t)):
			outside[name] = fmt.Sprintf("silently changed: %s -> %s", t.UTC().Format(time.RFC3339), back.Created().UTC().Format(time.RFC3339))
		default:
			outside[name] = "round-trips"
		}

		cnt["timestamps_outside_rfc3339_domain_probed"]++
	}

	c.Extra("yaml_timestamps_outside_rfc3339_domain", outside)
}

// ---- allocation probe ------------------------------------------------------------------------------------------------------------

// allocProbe feeds one 19-byte record whose zstd frame header declares 256 MiB of content to the real compression marshaler
// and records how much was allocated. Information only unless VERIF_C18_ALLOC_VIOLATION is set.
func allocProbe(c *vk.C) {
	const declared = 256 << 20

	in := []byte{0, 'z', 0x28, 0xb5, 0x2f, 0xfd, 0xc0, 0x00}
	in = binary.LittleEndian.AppendUint64(in, declared)
	in = append(in, 1, 0, 0)

	// self-checks of the guard: the probe frame alone, behind a valid frame, behind a skippable frame, and a valid frame alone
	valid, _ := compression.ZStd().Compress(nil, bytes.Repeat([]byte("some payload "), 50))
	skippable := append([]byte{0x5a, 0x2a, 0x4d, 0x18, 3, 0, 0, 0}, 1, 2, 3)

	for name, tc := range map[string]struct {
		in   []byte
		want uint64
	}{
		"probe": {in[2:], declared}, "valid+probe": {append(slices.Clone(valid), in[2:]...), declared}, "skippable+probe": {append(slices.Clone(skippable), in[2:]...), declared},
		"valid+skippable+valid+probe": {slices.Concat(valid, skippable, valid, in[2:]), declared}, "valid": {valid, 650}, "garbage+probe": {append([]byte{1, 2, 3}, in[2:]...), 0},
	} {
		if got := zstdDeclared(tc.in); got != tc.want && !(name == "valid" && got <= 1<<20) {
			c.Violation("harness-guard-misparses-zstd-header", map[string]any{"case": name, "got": got, "want": tc.want, "input_hex": hexClip(tc.in)})
		}
	}

	m := compression.NewMarshaler(store.ProtobufMarshaler{}, compression.ZStd(), 0)

	var a, b runtime.MemStats

	runtime.GC()
	runtime.ReadMemStats(&a)

	var err error

	p, st := vk.Try(func() { _, err = m.UnmarshalResource(in) })

	runtime.ReadMemStats(&b)
	runtime.GC()

	if p != nil {
		c.Violation("decoder-panicked", map[string]any{"decoder": "C0(pb)", "input_hex": hex.EncodeToString(in), "panic": fmt.Sprint(p), "stack": st})

		return
	}

	mib := int((b.TotalAlloc - a.TotalAlloc) >> 20)

	info := map[string]any{
		"input_hex": hex.EncodeToString(in), "input_len": len(in), "declared_content_mib": declared >> 20, "allocated_mib": mib, "error": fmt.Sprint(err),
		"note": "zstd DecodeAll allocates the frame content size declared in the header (decoder limit 64 GiB) before reading any block",
	}

	c.Extra("zstd_declared_size_allocation_probe", info)
	c.Count("alloc_probe_allocated_mib", mib)

	if os.Getenv("VERIF_C18_ALLOC_VIOLATION") != "" && mib >= declared>>21 {
		c.Violation("decoder-allocates-declared-size-up-front", info)
	}
}

// ---- tamper ------------------------------------------------------------------------------------------------------------------------

func tamperRecord(c *vk.C, i int, codecs []*codec, cnt counts) {
	rng := c.Rand(uint64(5_000_000 + i))
	g := newGen(rng)

	maxSize := sizeMedium
	if i%40 == 39 {
		maxSize = sizeLarge
	}

	gc := g.resource(maxSize, false)

	// codecs containing encryption; two thirds with encryption outermost (strict oracle)
	var pool []*codec

	strict := i%3 != 2

	for _, cd := range codecs {
		if cd.hasEnc() && cd.outerEnc() == strict {
			pool = append(pool, cd)
		}
	}

	cd := pool[rng.IntN(len(pool))]
	if i < 4 {
		cd = pool[0] // E(pb) resp. the first inner-encryption stacking
	}

	rec, err := cd.m.MarshalResource(gc.r)
	if err != nil {
		c.Violation(cd.sigBase()+"-encoder-rejected-valid-resource", map[string]any{"codec": cd.name, "case": gc.describe(), "error": err.Error()})

		return
	}

	orig, err := cd.m.UnmarshalResource(rec)
	if err != nil || diff(gc.r, orig, false) != "" {
		c.Violation(cd.sigBase()+"-roundtrip-differs", map[string]any{"codec": cd.name, "case": gc.describe(), "error": fmt.Sprint(err)})

		return
	}

	try := func(kind string, pos int, in []byte) {
		var (
			got resource.Resource
			err error
		)

		p, st := vk.Try(func() { got, err = cd.m.UnmarshalResource(in) })

		cnt["tamper_cases"]++

		detail := func() map[string]any {
			return map[string]any{"codec": cd.name, "tamper": kind, "position": pos, "record_hex": hexClip(rec), "tampered_hex": hexClip(in), "case": gc.describe(), "got": describeRes(got)}
		}

		switch {
		case p != nil:
			d := detail()
			d["panic"], d["stack"] = fmt.Sprint(p), st
			c.Violation("decoder-panicked", d)
		case err != nil:
			cnt["tamper_detected"]++
		case strict:
			c.Violation("tampered-record-accepted", detail())
		case diff(gc.r, got, false) != "":
			c.Violation("tampered-record-yielded-different-resource", detail())
		default:
			cnt["tamper_outer_layer_change_harmless"]++
		}
	}

	buf := make([]byte, 0, len(rec)*2+1)

	for pos := range rec {
		xors := []byte{0x01, 0x80, byte(1 + rng.IntN(255))}

		if pos >= 64 && pos < len(rec)-32 { // the body of longer records: one change per position
			xors = xors[2:]
		}

		if pos < 14 && i%10 == 0 {
			xors = xors[:0]
			for x := 1; x < 256; x++ {
				xors = append(xors, byte(x))
			}
		}

		for _, x := range xors {
			in := append(buf[:0], rec...)
			in[pos] ^= x
			try("byte-change", pos, in)
		}
	}

	for k := 0; k < len(rec); k++ {
		try("truncate", k, append(buf[:0], rec[:k]...))
	}

	try("append-byte", len(rec), append(append(buf[:0], rec...), byte(rng.IntN(256))))
	try("append-self", len(rec), append(append(buf[:0], rec...), rec...))
	try("drop-first", 0, append(buf[:0], rec[1:]...))

	if len(rec) > 14 {
		in := append(buf[:0], rec[:13]...)
		in = append(in, rec[14:]...)
		try("delete-byte", 13, in)

		in = append(buf[:0], rec[:13]...)
		in = append(in, 0)
		in = append(in, rec[13:]...)
		try("insert-byte", 13, in)
	}

	// wrong keys, same stacking
	{
		wrong := [][]byte{keyOther, bytes.Repeat([]byte{0}, 32), slices.Clone(keyGood)}
		wrong[2][rng.IntN(32)] ^= byte(1 << rng.IntN(8))

		rk := make([]byte, 32)
		for j := range rk {
			rk[j] = byte(rng.IntN(256))
		}

		wrong = append(wrong, rk)

		for _, k := range wrong {
			other := rebuild(cd, k)

			var (
				got resource.Resource
				err error
			)

			p, st := vk.Try(func() { got, err = other.UnmarshalResource(rec) })

			cnt["wrong_key_cases"]++

			switch {
			case p != nil:
				c.Violation("decoder-panicked", map[string]any{"codec": cd.name, "wrong_key_hex": hex.EncodeToString(k), "record_hex": hexClip(rec), "panic": fmt.Sprint(p), "stack": st})
			case err == nil:
				c.Violation("wrong-key-accepted", map[string]any{"codec": cd.name, "wrong_key_hex": hex.EncodeToString(k), "record_hex": hexClip(rec), "got": describeRes(got)})
			}
		}
	}

	if i < 1 {
		c.Sample(map[string]any{"mode": "tamper", "codec": cd.name, "record_len": len(rec), "strict": strict})
	}

	c.Case(vk.Hash("tamper", i, cd.name, len(rec)), true)
}

// rebuild constructs the same stacking with another key (guarded compressors).
func rebuild(cd *codec, key []byte) store.Marshaler {
	var m store.Marshaler = store.ProtobufMarshaler{}

	ciph := cipherFor(key)

	for _, l := range cd.layers {
		if l == layE {
			m = encryption.NewMarshaler(m, ciph)
		} else {
			m = compression.NewMarshaler(m, sharedGuard(), layerMin[l])
		}
	}

	return m
}

var (
	sharedGuardMu   sync.Mutex
	sharedGuardPool func() compression.Compressor
)

func sharedGuard() compression.Compressor {
	sharedGuardMu.Lock()
	defer sharedGuardMu.Unlock()

	if sharedGuardPool == nil {
		sharedGuardPool = guardedPool()
	}

	return sharedGuardPool()
}
