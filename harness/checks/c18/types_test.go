//go:build verif

package c18

import (
	"bytes"
	"maps"
	"reflect"
	"slices"
	"sync"
	"unicode/utf8"

	"go.yaml.in/yaml/v4"

	"github.com/cosi-project/runtime/api/v1alpha1"
	"github.com/cosi-project/runtime/pkg/resource"
	"github.com/cosi-project/runtime/pkg/resource/meta"
	"github.com/cosi-project/runtime/pkg/resource/protobuf"
	"github.com/cosi-project/runtime/pkg/resource/typed"

	"verif/harness/res"
)

// ---- extra resource kinds ----------------------------------------------------------------------------------------------

// P: spec is a real protobuf message wrapped in protobuf.ResourceSpec (statically registered).
const TypeP = resource.Type("Ps.c18.verif.cosi.dev")

type (
	PSpec = protobuf.ResourceSpec[v1alpha1.Metadata, *v1alpha1.Metadata]
	extP  struct{}
	P     = typed.Resource[PSpec, extP]
)

func (extP) ResourceDefinition() meta.ResourceDefinitionSpec {
	return meta.ResourceDefinitionSpec{Type: TypeP, DefaultNamespace: "default"}
}

// Dyn: spec is a plain struct with protobuf:"n" tags, registered with protobuf.RegisterDynamic (protoenc).
const TypeDyn = resource.Type("Dyns.c18.verif.cosi.dev")

type DynSpec struct {
	Str  string            `protobuf:"1" yaml:"str"`
	Num  int64             `protobuf:"2" yaml:"num"`
	Raw  []byte            `protobuf:"3" yaml:"raw,omitempty"`
	List []string          `protobuf:"4" yaml:"list,omitempty"`
	Map  map[string]string `protobuf:"5" yaml:"map,omitempty"`
}

func (s DynSpec) DeepCopy() DynSpec {
	return DynSpec{Str: s.Str, Num: s.Num, Raw: slices.Clone(s.Raw), List: slices.Clone(s.List), Map: maps.Clone(s.Map)}
}

type (
	extDyn struct{}
	Dyn    = typed.Resource[DynSpec, extDyn]
)

func (extDyn) ResourceDefinition() meta.ResourceDefinitionSpec {
	return meta.ResourceDefinitionSpec{Type: TypeDyn, DefaultNamespace: "default"}
}

// carrier is only used to build a *protobuf.Resource of an arbitrary (unregistered) type with opaque spec bytes
// through the system's own encoder protobuf.FromResource.
type carrier struct {
	md   resource.Metadata
	spec rawSpec
}

type rawSpec struct {
	B []byte
	Y string
}

func (s *rawSpec) MarshalProto() ([]byte, error) { return s.B, nil }

func (s *rawSpec) MarshalYAML() (any, error) {
	return &yaml.Node{Kind: yaml.ScalarNode, Tag: "!!str", Value: s.Y}, nil
}

func (c *carrier) Metadata() *resource.Metadata { return &c.md }
func (c *carrier) Spec() any                    { return &c.spec }
func (c *carrier) DeepCopy() resource.Resource {
	return &carrier{md: c.md, spec: rawSpec{B: slices.Clone(c.spec.B), Y: c.spec.Y}}
}

var registerOnce sync.Once

func registerAll() {
	registerOnce.Do(func() {
		res.Register()

		if err := protobuf.RegisterResource(TypeP, &P{}); err != nil {
			panic(err)
		}

		if err := protobuf.RegisterDynamic[DynSpec](TypeDyn, &Dyn{}); err != nil {
			panic(err)
		}
	})
}

// ---- comparison --------------------------------------------------------------------------------------------------------

// specEqual compares specs ignoring nil-vs-empty map/slice distinctions (which the property does not promise).
func specEqual(a, b resource.Resource) bool {
	if reflect.TypeOf(a) != reflect.TypeOf(b) {
		return false
	}

	switch x := a.(type) {
	case *protobuf.Resource:
		y := b.(*protobuf.Resource) //nolint:forcetypeassert

		ma, errA := x.Marshal()
		mb, errB := y.Marshal()

		if errA != nil || errB != nil {
			return false
		}

		return bytes.Equal(ma.GetSpec().GetProtoSpec(), mb.GetSpec().GetProtoSpec()) && ma.GetSpec().GetYamlSpec() == mb.GetSpec().GetYamlSpec()
	case *P:
		y := b.(*P) //nolint:forcetypeassert

		return protobuf.ProtoEqual(x.TypedSpec().Value, y.TypedSpec().Value)
	case *Dyn:
		sa, sb := x.TypedSpec(), b.(*Dyn).TypedSpec() //nolint:forcetypeassert

		return sa.Str == sb.Str && sa.Num == sb.Num && bytes.Equal(sa.Raw, sb.Raw) && slices.Equal(sa.List, sb.List) && maps.Equal(sa.Map, sb.Map)
	}

	if sa, sb := res.SpecOf(a), res.SpecOf(b); sa != nil && sb != nil {
		return sa.Token == sb.Token && sa.Val == sb.Val && maps.Equal(sa.M, sb.M) && slices.Equal(sa.S, sb.S)
	}

	return reflect.DeepEqual(a.Spec(), b.Spec())
}

// mdDiff returns "" if two metadata are equal (Metadata.Equal plus timestamps at the given granularity), else what differs.
func mdDiff(a, b *resource.Metadata, secondGranular bool) string {
	switch {
	case a.Namespace() != b.Namespace():
		return "namespace"
	case a.Type() != b.Type():
		return "type"
	case a.ID() != b.ID():
		return "id"
	case a.Owner() != b.Owner():
		return "owner"
	case a.Phase() != b.Phase():
		return "phase"
	case !a.Version().Equal(b.Version()):
		return "version"
	case !a.Labels().Equal(*b.Labels()):
		return "labels"
	case !a.Annotations().Equal(*b.Annotations()):
		return "annotations"
	case !a.Equal(*b):
		return "finalizers"
	}

	ca, ua := a.Created(), a.Updated()

	if secondGranular {
		ca, ua = truncSec(ca), truncSec(ua)
	}

	if !ca.Equal(b.Created()) {
		return "created"
	}

	if !ua.Equal(b.Updated()) {
		return "updated"
	}

	return ""
}

// mdStrings lists every free-form string of a metadata.
func mdStrings(md *resource.Metadata) []string {
	out := []string{md.Namespace(), md.Type(), md.ID(), md.Owner()}

	for k, v := range md.Labels().Raw() {
		out = append(out, k, v)
	}

	for k, v := range md.Annotations().Raw() {
		out = append(out, k, v)
	}

	return append(out, *md.Finalizers()...)
}

func allValid(ss []string) bool {
	for _, s := range ss {
		if !utf8.ValidString(s) {
			return false
		}
	}

	return true
}

// specStrings lists the strings of a spec (for UTF-8 classification).
func specStrings(r resource.Resource) []string {
	switch x := r.(type) {
	case *protobuf.Resource:
		m, err := x.Marshal()
		if err != nil {
			return nil
		}

		return []string{m.GetSpec().GetYamlSpec()}
	case *P:
		v := x.TypedSpec().Value
		if v == nil {
			return nil
		}

		out := []string{v.Namespace, v.Type, v.Id, v.Version, v.Owner, v.Phase}
		out = append(out, v.Finalizers...)

		for k, val := range v.Labels {
			out = append(out, k, val)
		}

		for k, val := range v.Annotations {
			out = append(out, k, val)
		}

		return out
	case *Dyn:
		s := x.TypedSpec()
		out := append([]string{s.Str}, s.List...)

		for k, v := range s.Map {
			out = append(out, k, v)
		}

		return out
	}

	if s := res.SpecOf(r); s != nil {
		out := append([]string{s.Token}, s.S...)

		for k, v := range s.M {
			out = append(out, k, v)
		}

		return out
	}

	return nil
}
