//go:build verif

package c18

import (
	"bytes"
	"encoding/hex"
	"encoding/json"
	"fmt"
	"math"
	"math/rand/v2"
	"os"
	"path/filepath"
	"strconv"
	"strings"
	"sync"
	"sync/atomic"
	"testing"
	"time"

	"go.yaml.in/yaml/v4"
	"google.golang.org/protobuf/types/known/timestamppb"

	"github.com/cosi-project/runtime/api/v1alpha1"
	"github.com/cosi-project/runtime/pkg/resource"
	"github.com/cosi-project/runtime/pkg/resource/protobuf"
	"github.com/cosi-project/runtime/pkg/state/impl/store"

	"verif/harness/res"
	"verif/harness/vk"
)

// ---- sinks -----------------------------------------------------------------------------------------------------------------

// sink receives the verdicts of a fuzz body: vk evidence inside TestC18, test failures under `go test -fuzz`.
type sink interface {
	Violation(sig string, detail map[string]any)
	Count(name string, n int)
}

type vkSink struct {
	c   *vk.C
	cnt counts
}

func (s *vkSink) Violation(sig string, detail map[string]any) { s.c.Violation(sig, detail) }
func (s *vkSink) Count(name string, n int)                    { s.cnt[name] += n }

// findings which are already reported by TestC18; under native fuzzing they are logged instead of stopping the fuzzer at once.
var nativeFuzzTolerated = map[string]bool{
	"parse-version-accepts-negative":                 true,
	"yaml-invalid-utf8-silently-changed":             true,
	"yaml-resource-null-document-yields-no-resource": true,
	"yaml-tab-led-multiline-string-unreadable":       true,
	"yaml-space-led-multiline-list-item-corrupted":   true,
	SigSpecYAMLLibrary:                               true,
	"version-next-beyond-int64-text-not-parseable":   true,
}

type tSink struct{ t *testing.T }

func (s tSink) Violation(sig string, detail map[string]any) {
	b, _ := json.Marshal(detail)

	if nativeFuzzTolerated[sig] {
		s.t.Logf("known: %s %s", sig, b)

		return
	}

	s.t.Errorf("%s: %s", sig, b)
}

func (tSink) Count(string, int) {}

const maxInput = 1 << 16

func over(sig string, r resource.Resource) string {
	if r != nil && r.Metadata().Version().Value() > math.MaxInt64 {
		// only reachable through ParseVersion accepting a negative number
		return "parse-version-accepts-negative"
	}

	return sig
}

// diffLoose is diff without resource.Equal's reflect.DeepEqual (decoded garbage may hold empty-but-non-nil maps).
func diffLoose(a, b resource.Resource, secondGranular bool) string {
	if b == nil {
		return "nil resource without error"
	}

	if d := mdDiff(a.Metadata(), b.Metadata(), secondGranular); d != "" {
		return "metadata." + d
	}

	if !specEqual(a, b) {
		return "spec"
	}

	return ""
}

// ---- body: store marshalers ----------------------------------------------------------------------------------------------------

// bodyStore feeds data to the stacking selected by sel; an accepted input must be a well-formed resource: it re-encodes and round-trips.
func bodyStore(s sink, codecs []*codec, sel int, data []byte) (accepted bool, cd *codec) {
	cd = codecs[sel%len(codecs)]

	var (
		r   resource.Resource
		err error
	)

	p, st := vk.Try(func() { r, err = cd.m.UnmarshalResource(data) })
	if p != nil {
		s.Violation("decoder-panicked", map[string]any{"decoder": "store:" + cd.name, "input_hex": hexClip(data), "panic": fmt.Sprint(p), "stack": st})

		return false, cd
	}

	if err != nil {
		return false, cd
	}

	if r == nil {
		s.Violation("decoder-returned-nothing", map[string]any{"decoder": "store:" + cd.name, "input_hex": hexClip(data)})

		return false, cd
	}

	reencodeStore(s, cd, data, r)

	return true, cd
}

func reencodeStore(s sink, cd *codec, input []byte, r resource.Resource) {
	var (
		b2  []byte
		r3  resource.Resource
		err error
		stg = "re-encode"
	)

	p, st := vk.Try(func() {
		if b2, err = cd.m.MarshalResource(r); err != nil {
			return
		}

		stg = "re-decode"
		r3, err = cd.m.UnmarshalResource(b2)
	})

	detail := map[string]any{"decoder": "store:" + cd.name, "input_hex": hexClip(input), "accepted_as": describeRes(r), "reencoded_hex": hexClip(b2), "stage": stg}

	switch {
	case p != nil:
		detail["panic"], detail["stack"] = fmt.Sprint(p), st
		s.Violation("accepted-garbage-reencode-panicked", detail)
	case err != nil:
		detail["error"] = err.Error()
		s.Violation(over("accepted-garbage-does-not-roundtrip", r), detail)
	default:
		if d := diffLoose(r, r3, false); d != "" {
			detail["differs"], detail["got"] = d, describeRes(r3)
			s.Violation(over("accepted-garbage-does-not-roundtrip", r), detail)
		}
	}
}

// ---- body: YAML metadata ---------------------------------------------------------------------------------------------------------

func bodyYAMLMeta(s sink, data []byte) bool {
	var (
		md  resource.Metadata
		err error
	)

	p, st := vk.Try(func() { err = yaml.Unmarshal(data, &md) })
	if p != nil {
		s.Violation("decoder-panicked", map[string]any{"decoder": "yaml:resource.Metadata", "input_hex": hexClip(data), "input": clipText(string(data)), "panic": fmt.Sprint(p), "stack": st})

		return false
	}

	if err != nil {
		return false
	}

	var (
		b2  []byte
		md2 resource.Metadata
		stg = "re-encode"
	)

	p, st = vk.Try(func() {
		if b2, err = yaml.Marshal(&md); err != nil {
			return
		}

		stg = "re-decode"
		err = yaml.Unmarshal(b2, &md2)
	})

	car := &carrier{md: md}
	detail := map[string]any{"decoder": "yaml:resource.Metadata", "input_hex": hexClip(data), "input": clipText(string(data)), "accepted_as": describeRes(car), "reencoded": clipText(string(b2)), "stage": stg}

	switch {
	case p != nil:
		detail["panic"], detail["stack"] = fmt.Sprint(p), st
		s.Violation("accepted-garbage-reencode-panicked", detail)
	case err != nil:
		detail["error"] = err.Error()
		s.Violation(yamlCauseSig(over("accepted-garbage-does-not-roundtrip", car), err, "", car), detail)
	default:
		if d := mdDiff(&md, &md2, true); d != "" {
			detail["differs"] = d
			s.Violation(yamlCauseSig(over("accepted-garbage-does-not-roundtrip", car), nil, d, car), detail)
		}
	}

	return true
}

// ---- body: YAML resource ---------------------------------------------------------------------------------------------------------

func bodyYAMLRes(s sink, data []byte) bool {
	var (
		yr  protobuf.YAMLResource
		err error
	)

	p, st := vk.Try(func() { err = yaml.Unmarshal(data, &yr) })
	if p != nil {
		s.Violation("decoder-panicked", map[string]any{"decoder": "yaml:protobuf.YAMLResource", "input_hex": hexClip(data), "input": clipText(string(data)), "panic": fmt.Sprint(p), "stack": st})

		return false
	}

	if err != nil {
		return false
	}

	var r resource.Resource

	p, st = vk.Try(func() { r = yr.Resource() })
	if p != nil {
		sig := "decoder-panicked"
		if fmt.Sprint(p) == "resource is not set" {
			// yaml.Unmarshal returned nil without ever calling UnmarshalYAML (empty / null document)
			sig = "yaml-resource-null-document-yields-no-resource"
		}

		s.Violation(sig, map[string]any{
			"decoder": "yaml:protobuf.YAMLResource + Resource()", "input_hex": hexClip(data), "input": clipText(string(data)), "unmarshal_error": nil, "panic": fmt.Sprint(p), "stack": st,
		})

		return false
	}

	var (
		b2  []byte
		r2  resource.Resource
		stg = "re-encode"
	)

	p, st = vk.Try(func() {
		var v any

		if v, err = resource.MarshalYAML(r); err != nil {
			return
		}

		if b2, err = yaml.Marshal(v); err != nil {
			return
		}

		stg = "re-decode"

		var yr2 protobuf.YAMLResource

		if err = yaml.Unmarshal(b2, &yr2); err != nil {
			return
		}

		r2 = yr2.Resource()
	})

	detail := map[string]any{"decoder": "yaml:protobuf.YAMLResource", "input_hex": hexClip(data), "input": clipText(string(data)), "accepted_as": describeRes(r), "reencoded": clipText(string(b2)), "stage": stg}

	switch {
	case p != nil:
		detail["panic"], detail["stack"] = fmt.Sprint(p), st
		s.Violation("accepted-garbage-reencode-panicked", detail)
	case err != nil:
		detail["error"] = err.Error()
		s.Violation(yamlCauseSig(over("accepted-garbage-does-not-roundtrip", r), err, "", r), detail)
	default:
		if d := diffLoose(r, r2, true); d != "" {
			detail["differs"], detail["got"] = d, describeRes(r2)
			s.Violation(yamlCauseSig(over("accepted-garbage-does-not-roundtrip", r), nil, d, r), detail)
		}
	}

	return true
}

// ---- body: protobuf messages ---------------------------------------------------------------------------------------------------------

type yamlSpec struct{ s *v1alpha1.Spec }

func (y yamlSpec) GetYaml() []byte { return []byte(y.s.GetYamlSpec()) }

func bodyProtoBytes(s sink, base *codec, data []byte) bool {
	var (
		pm  v1alpha1.Resource
		err error
	)

	p, st := vk.Try(func() { err = protobuf.ProtoUnmarshal(data, &pm) })
	if p != nil {
		s.Violation("decoder-panicked", map[string]any{"decoder": "protobuf.ProtoUnmarshal(v1alpha1.Resource)", "input_hex": hexClip(data), "panic": fmt.Sprint(p), "stack": st})

		return false
	}

	if err != nil {
		return false
	}

	return checkProtoMsg(s, base, &pm, data)
}

// checkProtoMsg runs every decoder which takes protobuf messages on a (hostile) message.
func checkProtoMsg(s sink, base *codec, pm *v1alpha1.Resource, wire []byte) (accepted bool) {
	show := func() map[string]any {
		d := map[string]any{"message": clipText(fmt.Sprint(pm))}
		if wire != nil {
			d["input_hex"] = hexClip(wire)
		}

		return d
	}

	panicked := func(dec string, p any, st string) {
		d := show()
		d["decoder"], d["panic"], d["stack"] = dec, fmt.Sprint(p), st
		s.Violation("decoder-panicked", d)
	}

	// resource.NewMetadataFromProto
	var (
		md  resource.Metadata
		err error
	)

	if p, st := vk.Try(func() { md, err = resource.NewMetadataFromProto(pm.GetMetadata()) }); p != nil {
		panicked("resource.NewMetadataFromProto", p, st)
	} else if err == nil {
		accepted = true

		s.Count("accepted_metadata_from_proto", 1)

		// re-encode with the system's encoder and decode again
		car := &carrier{md: md}

		var md2 resource.Metadata

		p, st := vk.Try(func() {
			var pr *protobuf.Resource

			if pr, err = protobuf.FromResource(car, protobuf.WithoutYAML()); err != nil {
				return
			}

			var pm2 *v1alpha1.Resource

			if pm2, err = pr.Marshal(); err != nil {
				return
			}

			md2, err = resource.NewMetadataFromProto(pm2.GetMetadata())
		})

		d := show()
		d["decoder"], d["accepted_as"] = "resource.NewMetadataFromProto", describeRes(car)

		switch {
		case p != nil:
			d["panic"], d["stack"] = fmt.Sprint(p), st
			s.Violation("accepted-garbage-reencode-panicked", d)
		case err != nil:
			d["error"] = err.Error()
			s.Violation(over("accepted-garbage-does-not-roundtrip", car), d)
		default:
			if df := mdDiff(&md, &md2, false); df != "" {
				d["differs"] = df
				s.Violation(over("accepted-garbage-does-not-roundtrip", car), d)
			}
		}
	}

	// protobuf.Unmarshal, then protobuf.UnmarshalResource
	var pr *protobuf.Resource

	if p, st := vk.Try(func() { pr, err = protobuf.Unmarshal(pm) }); p != nil {
		panicked("protobuf.Unmarshal", p, st)
	} else if err == nil && pr != nil {
		accepted = true

		s.Count("accepted_protobuf_unmarshal", 1)

		var r resource.Resource

		if p, st := vk.Try(func() { r, err = protobuf.UnmarshalResource(pr) }); p != nil {
			panicked("protobuf.UnmarshalResource", p, st)
		} else if err == nil {
			if r == nil {
				d := show()
				d["decoder"] = "protobuf.UnmarshalResource"
				s.Violation("decoder-returned-nothing", d)
			} else {
				s.Count("accepted_unmarshal_resource", 1)
				reencodeStore(s, base, wire, r)
			}
		}
	}

	// resource.NewAnyFromProto (read-only view: must not panic, and must render or refuse to render without panicking)
	var a *resource.Any

	if p, st := vk.Try(func() { a, err = resource.NewAnyFromProto(pm.GetMetadata(), yamlSpec{pm.GetSpec()}) }); p != nil {
		panicked("resource.NewAnyFromProto", p, st)
	} else if err == nil && a != nil {
		s.Count("accepted_any_from_proto", 1)

		if p, st := vk.Try(func() {
			v, e := resource.MarshalYAML(a)
			if e == nil {
				_, _ = yaml.Marshal(v)
			}

			_ = a.Value()
			_ = a.DeepCopy()
		}); p != nil {
			panicked("resource.Any render", p, st)
		}
	}

	return accepted
}

var (
	versionTexts = []string{"", "undefined", "0", "1", "2", "42", "-1", "-0", "-42", "+1", "007", " 1", "1 ", "1e3", "0x10", "1.0", "9223372036854775807", "9223372036854775808", "18446744073709551615",
		"18446744073709551616", "-9223372036854775808", "\u0661\u0662\u0663", "Undefined", "UNDEFINED", "null", "~"}
	phaseTexts = []string{"running", "tearingDown", "", "Running", "tearingdown", "TearingDown", "teardown", "0", "1", "running ", " running", "running\n", "runnin"}
	yamlSpecs  = []string{"", "a: b", "value: xyz\nsomething: [a, b, c]\n", "[1,2", "&a [*a]", "&a [*a, *a]", "*a", "!!binary x", "!!binary YQ==", "? [a]: b", "a: &x 1\nb: *x", "<<: {a: 1}", "<<: [1]", "- - - a",
		"\t", "%YAML 9.9\n---\n", "{a: 1, a: 2}", "0x1f", "2001-01-01", "!!timestamp nope", "!!int x", "!!float x", "!!map []", "!!seq {}", "--- a\n--- b", "a: |\n b\n c", "a: >-\n  x", "? ", ": ", "[", "]", "{", "\"",
		"'", "a: 'b", "\xff", "\x00", "null", "~", "---", "...", "- ", "!<tag:yaml.org,2002:str> a", "&a a: *a", "a: !!merge b", "{? {a: 1}: 2}", "[[[[[[[[[[[[[[[[[[[[[[]]]]]]]]]]]]]]]]]]]]]]"}
)

func pick(r *rand.Rand, l []string) string { return l[r.IntN(len(l))] }

func hostileTimestamp(g *gen) *timestamppb.Timestamp {
	switch g.r.IntN(12) {
	case 0, 1:
		return nil
	case 2:
		return &timestamppb.Timestamp{}
	case 3:
		return &timestamppb.Timestamp{Seconds: math.MaxInt64, Nanos: math.MaxInt32}
	case 4:
		return &timestamppb.Timestamp{Seconds: math.MinInt64, Nanos: math.MinInt32}
	case 5:
		return &timestamppb.Timestamp{Seconds: g.r.Int64N(1 << 32), Nanos: -1 - int32(g.r.IntN(1<<30))}
	case 6:
		return &timestamppb.Timestamp{Seconds: g.r.Int64N(1 << 32), Nanos: 1_000_000_000 + int32(g.r.IntN(1<<30))}
	case 7:
		return &timestamppb.Timestamp{Seconds: []int64{-62135596800, -62135596801, 253402300799, 253402300800}[g.r.IntN(4)], Nanos: int32(g.r.IntN(1_000_000_000))}
	case 8:
		return &timestamppb.Timestamp{Seconds: int64(g.r.Uint64()), Nanos: int32(g.r.Uint32())}
	default:
		return timestamppb.New(g.timestamp())
	}
}

// hostileMsg draws a structured hostile v1alpha1.Resource.
func hostileMsg(g *gen) *v1alpha1.Resource {
	r := g.r
	g.allowInval = r.IntN(4) == 0

	if r.IntN(40) == 0 {
		return &v1alpha1.Resource{}
	}

	pm := &v1alpha1.Resource{}

	if r.IntN(25) != 0 {
		m := &v1alpha1.Metadata{Namespace: g.str(), Id: g.str(), Owner: g.str()}

		switch r.IntN(6) {
		case 0:
			m.Type = g.str()
		case 1:
			m.Type = TypeP
		case 2:
			m.Type = TypeDyn
		case 3:
			m.Type = res.TypeA
		case 4:
			m.Type = res.TypeC
		default:
			m.Type = pick(r, plainWords)
		}

		if r.IntN(10) < 6 {
			m.Version = pick(r, []string{"undefined", "0", "1", "7", "9223372036854775807"})
		} else if r.IntN(3) == 0 {
			m.Version = g.str()
		} else {
			m.Version = pick(r, versionTexts)
		}

		if r.IntN(10) < 7 {
			m.Phase = pick(r, phaseTexts[:2])
		} else if r.IntN(3) == 0 {
			m.Phase = g.str()
		} else {
			m.Phase = pick(r, phaseTexts)
		}

		m.Created, m.Updated = hostileTimestamp(g), hostileTimestamp(g)
		m.Finalizers = g.strList(g.str)

		if len(m.Finalizers) > 0 && r.IntN(3) == 0 { // duplicates
			m.Finalizers = append(m.Finalizers, m.Finalizers[r.IntN(len(m.Finalizers))], m.Finalizers[0])
		}

		if r.IntN(10) == 0 {
			m.Finalizers = []string{}
		}

		m.Labels, m.Annotations = g.strMap(g.str), g.strMap(g.str)

		if r.IntN(10) == 0 {
			m.Labels = map[string]string{}
		}

		pm.Metadata = m
	}

	if r.IntN(25) != 0 {
		sp := &v1alpha1.Spec{}

		switch r.IntN(8) {
		case 0:
		case 1:
			sp.ProtoSpec = []byte{}
		case 2:
			sp.ProtoSpec = []byte(pick(r, []string{"{}", `{"token":"x","val":1}`, `{"m":{},"s":[]}`, `{"val":1e3}`, `{"val":"x"}`, "[", "null", `{"token":"\ud800"}`, `{"token":"a","token":"b"}`, " {} ", "{}x"}))
		default:
			sp.ProtoSpec = make([]byte, r.IntN(40))
			for i := range sp.ProtoSpec {
				sp.ProtoSpec[i] = byte(r.IntN(256))
			}
		}

		if r.IntN(2) == 0 {
			sp.YamlSpec = pick(r, yamlSpecs)
		} else if r.IntN(3) == 0 {
			sp.YamlSpec = g.str()
		}

		pm.Spec = sp
	}

	return pm
}

var hostileSampled atomic.Int64

var baseCodec = &codec{name: "pb", m: store.ProtobufMarshaler{}}

func hostileMessage(c *vk.C, i int, cnt counts) {
	g := newGen(c.Rand(uint64(3_000_000 + i)))
	pm := hostileMsg(g)

	acc := checkProtoMsg(&vkSink{c: c, cnt: cnt}, baseCodec, pm, nil)

	cnt["hostile_proto_messages"]++
	cnt["decoder_inputs"]++

	if acc {
		cnt["hostile_proto_messages_accepted"]++
		cnt["decoder_inputs_accepted"]++
	}

	if i < 40 && acc && hostileSampled.Add(1) == 1 {
		c.Sample(map[string]any{"mode": "hostile-message", "message": clipText(fmt.Sprint(pm)), "accepted": acc})
	}

	if i < 200000 {
		c.Case(vk.Hash("msg", i, pm.GetMetadata().GetVersion(), pm.GetMetadata().GetPhase(), pm.GetMetadata().GetType()), acc)
	} else {
		c.Evals(1)
	}
}

// ---- body: text forms ----------------------------------------------------------------------------------------------------------------

func bodyText(s sink, in string) (accepted bool) {
	var (
		v   resource.Version
		err error
	)

	if p, st := vk.Try(func() { v, err = resource.ParseVersion(in) }); p != nil {
		s.Violation("decoder-panicked", map[string]any{"decoder": "resource.ParseVersion", "input_hex": hex.EncodeToString([]byte(in)), "panic": fmt.Sprint(p), "stack": st})
	} else if err == nil {
		accepted = true

		back, err2 := resource.ParseVersion(v.String())
		if err2 != nil || !back.Equal(v) {
			sig := "version-text-roundtrip-differs"
			if strings.HasPrefix(in, "-") || v.Value() > math.MaxInt64 {
				sig = "parse-version-accepts-negative"
			}

			s.Violation(sig, map[string]any{"input": in, "parsed_as": v.String(), "reparse_error": fmt.Sprint(err2), "reparsed": back.String()})
		}
	}

	var ph resource.Phase

	if p, st := vk.Try(func() { ph, err = resource.ParsePhase(in) }); p != nil {
		s.Violation("decoder-panicked", map[string]any{"decoder": "resource.ParsePhase", "input_hex": hex.EncodeToString([]byte(in)), "panic": fmt.Sprint(p), "stack": st})
	} else if err == nil {
		accepted = true

		var back resource.Phase

		p, _ := vk.Try(func() { back, err = resource.ParsePhase(ph.String()) })
		if p != nil || err != nil || back != ph {
			s.Violation("phase-text-roundtrip-differs", map[string]any{"input": in, "panic": fmt.Sprint(p), "error": fmt.Sprint(err)})
		}
	}

	if t, err := time.Parse(time.RFC3339, in); err == nil {
		accepted = true
		f := t.Format(time.RFC3339)

		t2, err := time.Parse(time.RFC3339, f)
		if err != nil || !t2.Equal(truncSec(t)) || t2.Format(time.RFC3339) != f {
			s.Violation("yaml-timestamp-not-idempotent", map[string]any{"input": in, "formatted": f, "error": fmt.Sprint(err), "reparsed": t2.Format(time.RFC3339Nano)})
		}
	}

	return accepted
}

// ---- seeded mutator --------------------------------------------------------------------------------------------------------------------

var interesting = []byte{0x00, 0x01, 0x7f, 0x80, 0xff, 0x0a, 0x12, 0x1a, 0x22, 0x2a, 0x32, 0x3a, 0x42, 0x4a, 0x52, 0x5a, '\n', ' ', ':', '-', '#', '"', '\'', '&', '*', '!', '|', '>', '{', '[', '%', '@', '`', '?', '~', '\t', '\r'}

var dictBin = [][]byte{
	{0x00, 'z'}, zstdMagic, {0x00, 'z', 0x28, 0xb5, 0x2f, 0xfd}, {0x50, 0x2a, 0x4d, 0x18}, {0x01}, {0x00}, {0xff, 0xff, 0xff, 0xff, 0xff, 0xff, 0xff, 0xff, 0xff, 0x01}, {0x80, 0x80, 0x80, 0x80, 0x08},
	[]byte("undefined"), []byte("running"), []byte("tearingDown"), []byte("-1"), []byte(res.TypeA), []byte(TypeP), []byte(TypeDyn), {0x0a, 0x00}, {0x12, 0x00}, {0x22, 0x02, '-', '1'}, {0x3a, 0x00}, {0x3a, 0x02, 0x08, 0x01},
}

var dictYAML = []string{
	"null", "~", "!!binary ", "!!str ", "!!null ", "!!int ", "!!map ", "!!seq ", "!!merge ", "&a ", "*a", "<<: ", "<<: *a\n", "? ", ": ", "- ", "---\n", "...\n", "|\n", ">-\n", "|2+\n", "{", "}", "[", "]", ",", "#", "\"", "'", "\\x",
	"\t", "\r\n", "    ", "\n", "metadata:\n", "spec:\n", "spec: {}\n", "spec: []\n", "metadata: {}\n", "namespace: ", "type: ", "id: ", "version: ", "version: -1\n", "version: undefined\n", "owner: ", "phase: ", "phase: running\n",
	"phase: tearingDown\n", "created: ", "updated: ", "created: 2021-06-23T19:22:29Z\n", "created: 2021-06-23T19:22:29.5+05:30\n", "finalizers:\n", "finalizers: []\n", "finalizers: [a, a]\n", "labels:\n", "labels: {}\n",
	"annotations:\n", "    - x\n", "    k: v\n", "type: " + res.TypeA + "\n", "type: " + TypeP + "\n", "type: " + TypeDyn + "\n", "token: ", "val: ", "val: 1e3\n", "m: ", "s: ", "%YAML 1.2\n", "%TAG ! tag:x,2000:\n", "\ufeff",
	"18446744073709551615", "9223372036854775808", "0x1f", "0o7", ".inf", "2001-12-14t21:59:43.10-05:00",
}

// mutate returns a mutated copy of seed (other is a second seed for splices). The result may equal seed or other (callers check).
func mutate(r *rand.Rand, seed, other []byte, text bool) []byte {
	b := append(make([]byte, 0, len(seed)+64), seed...)

	randBytes := func(n int) []byte {
		o := make([]byte, n)
		for i := range o {
			if text && r.IntN(4) != 0 {
				o[i] = interesting[10+r.IntN(len(interesting)-10)]
			} else {
				o[i] = byte(r.IntN(256))
			}
		}

		return o
	}

	token := func() []byte {
		if text {
			return []byte(dictYAML[r.IntN(len(dictYAML))])
		}

		return dictBin[r.IntN(len(dictBin))]
	}

	insert := func(at int, ins []byte) {
		b = append(b[:at], append(append([]byte{}, ins...), b[at:]...)...)
	}

	ops := 1
	for ops < 6 && r.IntN(2) == 0 {
		ops++
	}

	for ; ops > 0; ops-- {
		if len(b) == 0 {
			b = append(b, randBytes(1+r.IntN(8))...)

			continue
		}

		switch r.IntN(14) {
		case 0, 1:
			b[r.IntN(len(b))] ^= byte(1 << r.IntN(8))
		case 2:
			b[r.IntN(len(b))] = interesting[r.IntN(len(interesting))]
		case 3:
			b = b[:r.IntN(len(b))]
		case 4:
			b = b[:len(b)-min(len(b), 1+r.IntN(4))]
		case 5:
			insert(r.IntN(len(b)+1), randBytes(1+r.IntN(8)))
		case 6:
			from := r.IntN(len(b))
			to := min(len(b), from+1+r.IntN(16))
			b = append(b[:from], b[to:]...)
		case 7:
			from := r.IntN(len(b))
			to := min(len(b), from+1+r.IntN(32))
			insert(r.IntN(len(b)+1), b[from:to])
		case 8:
			t := token()
			at := r.IntN(len(b))
			b = append(b[:at], append(append([]byte{}, t...), b[min(len(b), at+len(t)):]...)...)
		case 9:
			insert(r.IntN(len(b)+1), token())
		case 10:
			if len(other) > 0 {
				b = append(b[:r.IntN(len(b)+1)], other[r.IntN(len(other)):]...)
			}
		case 11:
			b = append(b, randBytes(1+r.IntN(32))...)
		case 12:
			i := r.IntN(len(b))
			b[i] += byte(1 - 2*r.IntN(2))
		case 13:
			if text { // line-level edits
				lines := bytes.SplitAfter(b, []byte("\n"))
				i := r.IntN(len(lines))

				switch r.IntN(4) {
				case 0:
					lines = append(lines[:i], lines[i+1:]...)
				case 1:
					lines = append(lines[:i+1], append([][]byte{lines[i]}, lines[i+1:]...)...)
				case 2:
					lines[i] = append([]byte(strings.Repeat(" ", 1+r.IntN(4))), lines[i]...)
				default:
					if k := bytes.IndexByte(lines[i], ':'); k >= 0 {
						lines[i] = append(append(append([]byte{}, lines[i][:k+1]...), ' '), append([]byte(hostileValid[r.IntN(len(hostileValid))]), '\n')...)
					}
				}

				b = bytes.Join(lines, nil)
			} else {
				b[r.IntN(len(b))] = byte(r.IntN(256))
			}
		}

		if len(b) > maxInput {
			b = b[:maxInput]
		}
	}

	return b
}

// ---- seeds ---------------------------------------------------------------------------------------------------------------------------

type storeSeed struct {
	sel  int
	data []byte
}

type seedSet struct {
	store    []storeSeed
	yamlMeta [][]byte
	yamlRes  [][]byte
	proto    [][]byte
	text     []string
}

var handYAMLMeta = []string{
	"", "{}", "namespace: default\ntype: type\nid: aaa\nversion: 1\nowner: FooController\nphase: running\ncreated: 2021-06-23T19:22:29Z\nupdated: 2021-06-23T19:22:29Z\nlabels:\n    app: foo\nannotations:\n    ttl: 1h\nfinalizers:\n    - resource1\n    - resource2\n",
	"version: -1\n", "version: undefined\nphase: tearingDown\n", "labels: &a\n  k: v\nannotations: *a\n", "finalizers: [a, a, b]\n", "created: 2021-06-23T19:22:29.123456789+05:30\n", "labels:\n  ? [a]\n  : b\n",
	"labels: {<<: {a: b}}\n", "namespace: !!binary YWJj\n", "id: |\n  multi\n  line\n", "? namespace\n: x\n", "--- \nnamespace: a\n--- \nnamespace: b\n", "[a]", "a", "phase: 0\n", "labels: []\n", "finalizers: {}\n", "owner: [x]\n",
	"namespace: {a: b}\n", "version: [1]\n", "labels:\n  a: [b]\n", "labels:\n  a: {b: c}\n", "finalizers:\n  - [a]\n", "namespace: *x\n", "namespace: &x a\nid: *x\n",
}

func yamlResDoc(typ string, spec string) string {
	return "metadata:\n    namespace: default\n    type: " + typ + "\n    id: aaa\n    version: 1\n    owner: o\n    phase: running\n    created: 2021-06-23T19:22:29Z\n    updated: 2021-06-23T19:22:29Z\nspec:\n" + spec
}

var handYAMLRes = []string{
	"", "null", "~", "# only a comment\n", "---\n", "{}", "metadata: {}\nspec: {}\n", "spec: {}\nmetadata: {}\n", "metadata: {}\nmetadata: {}\n", "spec: {}\nspec: {}\n",
	yamlResDoc(res.TypeA, "    token: x\n    val: 1\n"), yamlResDoc(res.TypeA, "    token: x\n    val: 1\n    m:\n        a: b\n    s:\n        - q\n"), yamlResDoc(res.TypeA, "    {}\n"),
	yamlResDoc(res.TypeC, "    val: 1e3\n"), yamlResDoc(res.TypeA, "    val: [1]\n"), yamlResDoc(res.TypeA, "    unknown: 1\n"), yamlResDoc("nosuchtype", "    a: b\n"), yamlResDoc(TypeDyn, "    str: a\n"),
	yamlResDoc(TypeP, "    namespace: n\n    version: v\n    created:\n        seconds: 5\n        nanos: 7\n    labels:\n        a: b\n    finalizers:\n        - f\n"), yamlResDoc(TypeP, "    created: 5\n"),
	yamlResDoc(TypeP, "    created: null\n    updated: {}\n"), yamlResDoc(TypeP, "    state: 1\n"), "metadata: &m\n    type: " + res.TypeA + "\nspec: *m\n", "metadata: []\nspec: {}\n", "? metadata\n: {}\n? spec\n: {}\n",
	"metadata: {type: " + res.TypeA + "}\nspec: {token: !!binary /w==}\n", "metadata: {type: " + res.TypeA + ", version: -1}\nspec: {}\n", "[metadata, spec]\n", "metadata: {}\nspec: {}\nextra: {}\n",
}

func buildSeeds(rng *rand.Rand, codecs []*codec, n int) *seedSet {
	ss := &seedSet{}
	g := newGen(rng)

	for i := 0; i < n; i++ {
		maxSize := sizeMedium
		if i%25 == 24 {
			maxSize = sizeLarge
		}

		gc := g.resource(maxSize, i%3 == 0)

		// store marshalers
		picks := 5
		if i < 6 {
			picks = len(codecs)
		}

		for k := 0; k < picks; k++ {
			sel := rng.IntN(len(codecs))
			if i < 6 {
				sel = k
			} else if k%3 != 0 { // two thirds of the seeds come from stackings without encryption (mutants of ciphertext are always rejected)
				for codecs[sel].hasEnc() {
					sel = rng.IntN(len(codecs))
				}
			}

			if b, err := codecs[sel].m.MarshalResource(gc.r); err == nil && len(b) <= maxInput/2 {
				ss.store = append(ss.store, storeSeed{sel: sel, data: b})
			}
		}

		// protobuf wire
		if pr, err := protobuf.FromResource(gc.r); err == nil {
			if pm, err := pr.Marshal(); err == nil {
				if b, err := protobuf.ProtoMarshal(pm); err == nil && len(b) <= maxInput/2 {
					ss.proto = append(ss.proto, b)
				}
			}
		}

		// YAML
		if b, err := yaml.Marshal(gc.r.Metadata()); err == nil {
			ss.yamlMeta = append(ss.yamlMeta, b)
		}

		if gc.kind == kindA || gc.kind == kindC || gc.kind == kindP {
			if v, err := resource.MarshalYAML(gc.r); err == nil {
				if b, err := yaml.Marshal(v); err == nil && len(b) <= maxInput/2 {
					ss.yamlRes = append(ss.yamlRes, b)
				}
			}
		}

		// hostile structured messages as wire seeds
		if b, err := protobuf.ProtoMarshal(hostileMsg(g)); err == nil {
			ss.proto = append(ss.proto, b)
		}
	}

	for _, s := range handYAMLMeta {
		ss.yamlMeta = append(ss.yamlMeta, []byte(s))
	}

	for _, s := range handYAMLRes {
		ss.yamlRes = append(ss.yamlRes, []byte(s))
	}

	ss.text = append(ss.text, versionTexts...)
	ss.text = append(ss.text, phaseTexts...)
	ss.text = append(ss.text, "2021-06-23T19:22:29Z", "2021-06-23T19:22:29.123456789+05:30", "0000-01-01T00:00:00+23:59", "9999-12-31T23:59:59-23:59", "2021-06-23t19:22:29z", "2016-12-31T23:59:60Z")
	ss.text = append(ss.text, hostileValid[:60]...)

	return ss
}

// ---- the seeded driver of the fuzz bodies ----------------------------------------------------------------------------------------------

const chunk = 1000

type targetStat struct{ inputs, accepted atomic.Int64 }

func totality(c *vk.C, codecs []*codec, total int) {
	seeds := buildSeeds(c.Rand(9_000_001), codecs, c.N(160, 600))

	c.Count("fuzz_seeds_store", len(seeds.store))
	c.Count("fuzz_seeds_proto", len(seeds.proto))
	c.Count("fuzz_seeds_yaml", len(seeds.yamlMeta)+len(seeds.yamlRes))

	targets := []struct {
		name   string
		weight int
	}{{"store", 40}, {"yaml-metadata", 20}, {"yaml-resource", 15}, {"proto", 20}, {"text", 5}}

	stats := make([]targetStat, len(targets))

	var (
		caseBudget atomic.Int64
		sampled    atomic.Int64
	)

	caseBudget.Store(250000)

	chunks := (total + chunk - 1) / chunk

	parallel(chunks, func(ci int, cnt counts) {
		rng := c.Rand(uint64(10_000_000 + ci))
		sk := &vkSink{c: c, cnt: cnt}
		rejected := 0

		n := min(chunk, total-ci*chunk)

		for it := 0; it < n; it++ {
			// weighted target
			w, ti := rng.IntN(100), 0
			for ; w >= targets[ti].weight; ti++ {
				w -= targets[ti].weight
			}

			var (
				data     []byte
				accepted bool
			)

			pickBytes := func(pool [][]byte, text bool) ([]byte, bool) {
				seed := pool[rng.IntN(len(pool))]
				other := pool[rng.IntN(len(pool))]

				var out []byte

				switch m := rng.IntN(20); {
				case m < 2: // arbitrary bytes
					out = make([]byte, rng.IntN(65))
					for i := range out {
						out[i] = byte(rng.IntN(256))
					}
				case m < 4: // truncation
					out = append([]byte{}, seed[:rng.IntN(len(seed)+1)]...)
				case m < 6: // valid prefix + garbage
					out = append([]byte{}, seed[:rng.IntN(len(seed)+1)]...)
					for k := 1 + rng.IntN(24); k > 0; k-- {
						out = append(out, byte(rng.IntN(256)))
					}
				case m < 7: // single bit flip
					out = append([]byte{}, seed...)
					if len(out) > 0 {
						out[rng.IntN(len(out))] ^= byte(1 << rng.IntN(8))
					}
				default:
					out = mutate(rng, seed, other, text)
				}

				return out, bytes.Equal(out, seed) || bytes.Equal(out, other)
			}

			switch targets[ti].name {
			case "store":
				seed := seeds.store[rng.IntN(len(seeds.store))]
				other := seeds.store[rng.IntN(len(seeds.store))]

				var pristine bool

				data, pristine = pickBytes([][]byte{seed.data, other.data}, false)

				sel := seed.sel
				if rng.IntN(7) == 0 {
					sel = rng.IntN(len(codecs))
				}

				var cd *codec

				accepted, cd = bodyStore(sk, codecs, sel, data)

				if accepted && !pristine && cd.outerEnc() {
					c.Violation("tampered-record-accepted", map[string]any{"codec": cd.name, "input_hex": hexClip(data), "note": "mutated record accepted by a stacking whose outermost layer is encryption"})
				}

				if cd.hasEnc() {
					cnt["decoder_inputs_encrypted_stackings"]++
				}
			case "yaml-metadata":
				data, _ = pickBytes(seeds.yamlMeta, true)
				accepted = bodyYAMLMeta(sk, data)
			case "yaml-resource":
				data, _ = pickBytes(seeds.yamlRes, true)
				accepted = bodyYAMLRes(sk, data)
			case "proto":
				data, _ = pickBytes(seeds.proto, false)
				accepted = bodyProtoBytes(sk, codecs[0], data)
			case "text":
				s := seeds.text[rng.IntN(len(seeds.text))]
				if rng.IntN(3) != 0 {
					s = string(mutate(rng, []byte(s), []byte(seeds.text[rng.IntN(len(seeds.text))]), rng.IntN(2) == 0))
				}

				data = []byte(s)
				accepted = bodyText(sk, s)
			}

			stats[ti].inputs.Add(1)
			cnt["decoder_inputs"]++

			if !accepted {
				rejected++

				continue
			}

			stats[ti].accepted.Add(1)
			cnt["decoder_inputs_accepted"]++

			if caseBudget.Add(-1) >= 0 {
				c.Case(targets[ti].name+"|"+string(data), true)
			} else {
				c.Evals(1)
			}

			if ti < 4 && sampled.Add(1) == 1 {
				c.Sample(map[string]any{"mode": "accepted-decoder-input", "target": targets[ti].name, "input_hex": hexClip(data[:min(len(data), 200)])})
			}
		}

		c.Evals(rejected)
	}, c)

	per := map[string]map[string]int64{}
	for i, tg := range targets {
		per[tg.name] = map[string]int64{"inputs": stats[i].inputs.Load(), "accepted": stats[i].accepted.Load()}
	}

	c.Extra("decoder_inputs_per_target", per)
}

// ---- native fuzz entry points (not needed by TestC18; `go test -tags verif -fuzz FuzzX -fuzztime Nx ./checks/c18`) -----------------------

var (
	fuzzCodecsOnce sync.Once
	fuzzCodecsVal  []*codec
)

func fuzzCodecs() []*codec {
	fuzzCodecsOnce.Do(func() {
		registerAll()

		fuzzCodecsVal = buildCodecs(guardedPool(), keyGood)
	})

	return fuzzCodecsVal
}

func fuzzSeeds() *seedSet {
	return buildSeeds(rand.New(rand.NewPCG(1, 9_000_001)), fuzzCodecs(), 12)
}

func FuzzStoreUnmarshal(f *testing.F) {
	cds := fuzzCodecs()

	for _, s := range fuzzSeeds().store {
		if len(s.data) < 2048 {
			f.Add(uint8(s.sel), s.data)
		}
	}

	f.Fuzz(func(t *testing.T, sel uint8, data []byte) {
		if len(data) > maxInput {
			t.Skip()
		}

		bodyStore(tSink{t}, cds, int(sel), data)
	})
}

func FuzzYAMLMetadata(f *testing.F) {
	fuzzCodecs()

	for _, s := range handYAMLMeta {
		f.Add([]byte(s))
	}

	f.Fuzz(func(t *testing.T, data []byte) {
		if len(data) > maxInput {
			t.Skip()
		}

		bodyYAMLMeta(tSink{t}, data)
	})
}

func FuzzYAMLResource(f *testing.F) {
	fuzzCodecs()

	for _, s := range handYAMLRes {
		f.Add([]byte(s))
	}

	f.Fuzz(func(t *testing.T, data []byte) {
		if len(data) > maxInput {
			t.Skip()
		}

		bodyYAMLRes(tSink{t}, data)
	})
}

func FuzzProtoResource(f *testing.F) {
	cds := fuzzCodecs()

	for _, s := range fuzzSeeds().proto {
		if len(s) < 2048 {
			f.Add(s)
		}
	}

	f.Fuzz(func(t *testing.T, data []byte) {
		if len(data) > maxInput {
			t.Skip()
		}

		bodyProtoBytes(tSink{t}, cds[0], data)
	})
}

func FuzzTextForms(f *testing.F) {
	for _, s := range versionTexts {
		f.Add(s)
	}

	for _, s := range phaseTexts {
		f.Add(s)
	}

	f.Add("2021-06-23T19:22:29.5+05:30")

	f.Fuzz(func(t *testing.T, s string) {
		if len(s) > 4096 {
			t.Skip()
		}

		bodyText(tSink{t}, s)
	})
}

// TestWriteCorpus regenerates the seed corpus under testdata/fuzz (only when C18_WRITE_CORPUS=1).
func TestWriteCorpus(t *testing.T) {
	if os.Getenv("C18_WRITE_CORPUS") == "" {
		t.Skip("set C18_WRITE_CORPUS=1 to rewrite testdata/fuzz")
	}

	ss := buildSeeds(rand.New(rand.NewPCG(7, 7)), fuzzCodecs(), 10)

	write := func(fn string, i int, lines ...string) {
		dir := filepath.Join("testdata", "fuzz", fn)
		if err := os.MkdirAll(dir, 0o755); err != nil {
			t.Fatal(err)
		}

		body := "go test fuzz v1\n" + strings.Join(lines, "\n") + "\n"
		if err := os.WriteFile(filepath.Join(dir, fmt.Sprintf("seed-%03d", i)), []byte(body), 0o644); err != nil {
			t.Fatal(err)
		}
	}

	n := 0

	for _, s := range ss.store {
		if len(s.data) <= 600 && n < 40 {
			write("FuzzStoreUnmarshal", n, fmt.Sprintf("byte(%s)", strconv.QuoteRune(rune(s.sel))), fmt.Sprintf("[]byte(%q)", s.data))
			n++
		}
	}

	n = 0

	for _, s := range ss.proto {
		if len(s) <= 600 && n < 16 {
			write("FuzzProtoResource", n, fmt.Sprintf("[]byte(%q)", s))
			n++
		}
	}

	n = 0

	for _, s := range ss.yamlMeta {
		if len(s) <= 1200 && n < 12 {
			write("FuzzYAMLMetadata", n, fmt.Sprintf("[]byte(%q)", s))
			n++
		}
	}

	n = 0

	for _, s := range ss.yamlRes {
		if len(s) <= 1500 && n < 12 {
			write("FuzzYAMLResource", n, fmt.Sprintf("[]byte(%q)", s))
			n++
		}
	}

	for i, s := range []string{"-1", "undefined", "9223372036854775808", "tearingDown", "2021-06-23T19:22:29+05:30"} {
		write("FuzzTextForms", i, fmt.Sprintf("string(%q)", s))
	}
}
