//go:build verif

package c18

import (
	"encoding/base64"
	"fmt"
	"math"
	"math/rand/v2"
	"strconv"
	"strings"
	"time"
	"unicode/utf8"

	"google.golang.org/protobuf/types/known/timestamppb"

	"github.com/cosi-project/runtime/api/v1alpha1"
	"github.com/cosi-project/runtime/pkg/resource"
	"github.com/cosi-project/runtime/pkg/resource/protobuf"
	"github.com/cosi-project/runtime/pkg/resource/typed"

	"verif/harness/res"
)

// hostileValid: valid UTF-8 strings chosen to stress YAML scalar styles, protobuf strings and text parsers.
var hostileValid = []string{
	"", " ", "  ", "null", "~", "Null", "NULL", "yes", "no", "on", "off", "true", "false", "True", "y", "n", "Y",
	"0x1f", "0o17", "017", "0b11", "1e3", "1E-3", ".inf", "-.inf", ".nan", ".NaN", "1_000", "+1", "-1", "0", "-0", "1.5", "1.", ".5", "1:30",
	"- a", "-", "- ", "-a", "a: b", "a:", ": a", ":", "a :b", "#c", "a #c", "a#c", "? a", "?", "|", ">", "|-", ">+", "|2", "&a", "*a", "&a b", "!t", "!",
	"!!binary", "!!binary YQ==", "!!str a", "!!null", "!!int 1", "!!map", "%YAML 1.2", "%TAG", "---", "...", "--- a", "--- |", "{a: b}", "[a, b]", "{", "}", "[", "]", ",", "a,b", "a, b",
	"@a", "`a", "'", "\"", "''", "\"\"", "'a'", "\"a\"", "a'b\"c", "it's", "\\", "\\n", "a\\", "\\x41", "\\u0041",
	"multi\nline", "trailing\n", "trailing\n\n", "\nleading", "\n", "\n\n", "a\n\nb\n\n", "  indented\n   more\n", " \n", "a\n ", "a \nb", "\ta\n\tb", "a\n#b", "a\n- b", "a\n---\nb", "a\n...\nb",
	"a\r\nb", "\r", "a\rb", "\r\n", "\t", "\ta", "a\t", "a\tb", " a", "a ", " a ", "\u00a0", "a\u00a0", "\u0085", "a\u0085b", "\u2028", "a\u2028b", "\u2029", "\ufeff", "\ufeffa", "a\ufeff",
	"\x00", "a\x00b", "\x01\x02", "\x7f", "\x1b[31mred\x1b[0m", "\x08", "\x0b", "\x0c",
	"日本語", "héllo", "😀", "e\u0301", "\U0010ffff", "\ufffd", "\ufffe", "\uffff", "\u200b", "\u202e", "Ω≈ç√∫", "\u0627", "\u0661\u0662\u0663",
	"2001-12-14t21:59:43.10-05:00", "2002-12-14", "2006-01-02T15:04:05Z", "2006-01-02T15:04:05.999999999+07:00", "12:30:45", "190:20:30", "0001-01-01T00:00:00Z",
	"undefined", "running", "tearingDown", "<<", "=", "a=b", "key=val,!x", "a/b", "../..", "a.b.c", "*", "**", "$(x)", "${x}", "%s", "%!d(string=x)",
	"18446744073709551615", "9223372036854775808", "-9223372036854775808", "1e400", "0.1", "NaN", "Inf",
	strings.Repeat("x", 300), strings.Repeat("word ", 40), strings.Repeat("long line with spaces ", 20) + "\nsecond", strings.Repeat("ab\n", 50), strings.Repeat(" ", 100),
	strings.Repeat("é", 200), strings.Repeat("a", 1<<12), strings.Repeat("0123456789abcdef", 1<<9),
}

// hostileInvalid: strings which are not valid UTF-8.
var hostileInvalid = []string{
	"\xff", "a\xffb", "\xc3\x28", "\xed\xa0\x80", "\xf8\x88\x80\x80\x80", "\x80", "abc\xc0", "\xfe\xff", "\xe2\x82", "ok\nthen\xf0\x28\x8c\xbc", "\xc0\xaf", "plain \xb1 text",
}

var plainWords = []string{"default", "system", "config", "a", "b", "node-1", "worker", "app", "ttl", "1h", "controller", "k8s.io/name", "v1", "alpha", "some owner", "foo.bar/baz"}

type gen struct {
	r          *rand.Rand
	hostile    int  // number of hostile strings drawn
	invalid    int  // number of invalid UTF-8 strings drawn
	allowInval bool // whether invalid UTF-8 strings may be drawn
	forceHuge  bool // the next resource gets a spec above 1 MiB
}

func newGen(r *rand.Rand) *gen { return &gen{r: r} }

func (g *gen) randRunes(n int) string {
	var b strings.Builder

	for i := 0; i < n; i++ {
		switch g.r.IntN(8) {
		case 0:
			b.WriteRune(rune(g.r.IntN(0x20))) // control
		case 1:
			b.WriteRune(rune(0x80 + g.r.IntN(0x780)))
		case 2:
			b.WriteRune(rune(0x800 + g.r.IntN(0xd000-0x800)))
		case 3:
			b.WriteRune(rune(0x10000 + g.r.IntN(0x100000)))
		case 4:
			b.WriteByte(" :-#'\"\\\n\t{}[],&*!|>%@`?~="[g.r.IntN(25)])
		default:
			b.WriteByte(byte(0x20 + g.r.IntN(0x5f)))
		}
	}

	return b.String()
}

// str draws a metadata/spec string.
func (g *gen) str() string {
	switch p := g.r.IntN(100); {
	case p < 40:
		return plainWords[g.r.IntN(len(plainWords))]
	case p < 84:
		g.hostile++

		return hostileValid[g.r.IntN(len(hostileValid))]
	case p < 93:
		g.hostile++

		return g.randRunes(1 + g.r.IntN(12))
	case p < 96:
		g.hostile++
		// concatenation of two hostile strings
		return hostileValid[g.r.IntN(len(hostileValid))] + hostileValid[g.r.IntN(len(hostileValid))]
	default:
		if !g.allowInval {
			return plainWords[g.r.IntN(len(plainWords))]
		}

		g.hostile++
		g.invalid++

		if g.r.IntN(3) == 0 {
			b := make([]byte, 1+g.r.IntN(10))
			for i := range b {
				b[i] = byte(g.r.IntN(256))
			}

			if utf8.Valid(b) {
				b = append(b, 0xff)
			}

			return string(b)
		}

		return hostileInvalid[g.r.IntN(len(hostileInvalid))]
	}
}

// validStr draws a string which is valid UTF-8 (for codecs of the harness itself, e.g. the JSON spec of res.Spec).
func (g *gen) validStr() string {
	save := g.allowInval
	g.allowInval = false

	s := g.str()

	g.allowInval = save

	return s
}

func mustVersion(s string) resource.Version {
	v, err := resource.ParseVersion(s)
	if err != nil {
		panic(err)
	}

	return v
}

// version draws a version constructible through the public API whose text form is within the documented uint64 domain
// representable by ParseVersion today (<= MaxInt64; the 2^63 case is probed separately).
func (g *gen) version() resource.Version {
	switch g.r.IntN(9) {
	case 0:
		return resource.VersionUndefined
	case 1:
		return mustVersion("0")
	case 2:
		return resource.VersionUndefined.Next()
	case 3:
		return mustVersion(strconv.FormatInt(math.MaxInt64, 10))
	case 4:
		return mustVersion(strconv.FormatInt(math.MaxInt64-int64(g.r.IntN(3))-1, 10)).Next()
	case 5:
		return mustVersion(strconv.FormatUint(g.r.Uint64()>>1, 10))
	case 6:
		return mustVersion(strconv.FormatUint(uint64(g.r.Uint32()), 10))
	default:
		return mustVersion(strconv.Itoa(g.r.IntN(1000)))
	}
}

var (
	minInstant = time.Date(1, 1, 2, 0, 0, 0, 0, time.UTC)
	maxInstant = time.Date(9999, 12, 30, 0, 0, 0, 0, time.UTC)
)

func (g *gen) zone() *time.Location {
	switch g.r.IntN(6) {
	case 0, 1:
		return time.UTC
	case 2:
		return time.FixedZone("", 0)
	case 3:
		return time.FixedZone("X", []int{-12 * 3600, -11*3600 - 1800, -3600, 3600, 5*3600 + 1800, 5*3600 + 2700, 14 * 3600, 60, -60}[g.r.IntN(9)])
	default:
		return time.FixedZone("R", (g.r.IntN(2*14*60+1)-14*60)*60) // whole minutes, +-14h
	}
}

// timestamp draws an instant inside the RFC 3339 domain (years 1..9999 in any zone used, whole-minute offsets).
func (g *gen) timestamp() time.Time {
	var t time.Time

	switch g.r.IntN(10) {
	case 0:
		return time.Time{} // zero time, UTC
	case 1:
		return time.Unix(0, 0).UTC()
	case 2:
		t = time.Unix(0, int64(g.r.IntN(1_000_000_000))) // sub-second only
	case 3:
		t = minInstant.Add(time.Duration(g.r.Int64N(int64(100 * 365 * 24 * time.Hour)))) // far past
	case 4:
		t = maxInstant.Add(-time.Duration(g.r.Int64N(int64(100 * 365 * 24 * time.Hour)))) // far future
	case 5:
		t = time.Unix(-g.r.Int64N(1<<33), int64(g.r.IntN(1_000_000_000))) // before 1970
	case 6:
		t = time.Unix(1_700_000_000+g.r.Int64N(1<<28), 999_999_999)
	case 7:
		t = time.Unix(1_700_000_000+g.r.Int64N(1<<28), 0)
	default:
		span := maxInstant.Unix() - minInstant.Unix()
		t = time.Unix(minInstant.Unix()+g.r.Int64N(span), int64(g.r.IntN(1_000_000_000)))
	}

	return t.In(g.zone())
}

type kind int

const (
	kindA kind = iota
	kindC
	kindP
	kindDyn
	kindRaw
	numKinds
)

func (k kind) String() string { return [...]string{"A", "C", "P", "Dyn", "Raw"}[k] }

type sizeClass int

const (
	sizeEmpty sizeClass = iota
	sizeSmall
	sizeMedium
	sizeLarge // 4-16 KiB
	sizeHuge  // > 1 MiB
)

// payload builds a string payload of roughly n bytes; compressible or not; always valid UTF-8.
func (g *gen) payload(n int, compressible bool) string {
	if n == 0 {
		return ""
	}

	if compressible {
		unit := []string{"var/run/", "    # comment\n", "a", "key: value\n", "日本"}[g.r.IntN(5)]

		return strings.Repeat(unit, max(1, n/len(unit)))
	}

	b := make([]byte, n*3/4+3)
	for i := 0; i+8 <= len(b); i += 8 {
		v := g.r.Uint64()
		for j := 0; j < 8; j++ {
			b[i+j] = byte(v >> (8 * j))
		}
	}

	return base64.StdEncoding.EncodeToString(b)[:n]
}

func (g *gen) size() (sizeClass, int) {
	switch p := g.r.IntN(200); {
	case p < 40:
		return sizeEmpty, 0
	case p < 110:
		return sizeSmall, 1 + g.r.IntN(40)
	case p < 192:
		return sizeMedium, 40 + g.r.IntN(400)
	default:
		return sizeLarge, 4096 + g.r.IntN(12<<10)
	}
}

func (g *gen) strMap(str func() string) map[string]string {
	n := 0

	switch p := g.r.IntN(20); {
	case p < 8:
		return nil
	case p < 19:
		n = 1 + g.r.IntN(4)
	default:
		n = 10 + g.r.IntN(30)
	}

	m := make(map[string]string, n)

	for i := 0; i < n; i++ {
		k := str()
		if i >= 4 {
			k += strconv.Itoa(i)
		}

		m[k] = str()
	}

	return m
}

func (g *gen) strList(str func() string) []string {
	n := 0

	switch p := g.r.IntN(20); {
	case p < 9:
		return nil
	case p < 19:
		n = 1 + g.r.IntN(3)
	default:
		n = 8 + g.r.IntN(20)
	}

	var out []string

	seen := map[string]bool{}

	for i := 0; i < n; i++ {
		s := str()
		if i >= 3 {
			s += strconv.Itoa(i)
		}

		if !seen[s] {
			seen[s] = true

			out = append(out, s)
		}
	}

	return out
}

// genCase is one generated resource with its classification.
type genCase struct {
	r        resource.Resource
	kind     kind
	size     sizeClass
	hostile  int
	mdValid  bool // all metadata strings valid UTF-8
	allValid bool // metadata and spec strings valid UTF-8
	tiny     bool
}

func (gc *genCase) describe() map[string]any {
	md := gc.r.Metadata()

	return map[string]any{
		"kind": gc.kind.String(), "ns": clip(md.Namespace()), "type": clip(md.Type()), "id": clip(md.ID()), "owner": clip(md.Owner()), "version": md.Version().String(),
		"phase": md.Phase().String(), "created": md.Created().Format(time.RFC3339Nano), "updated": md.Updated().Format(time.RFC3339Nano),
		"labels": clipMap(md.Labels().Raw()), "annotations": clipMap(md.Annotations().Raw()), "finalizers": clipList(*md.Finalizers()), "size_class": int(gc.size),
		"hostile_strings": gc.hostile, "all_valid_utf8": gc.allValid,
	}
}

func clip(s string) string {
	q := strconv.QuoteToASCII(s)
	if len(q) > 80 {
		return q[:80] + fmt.Sprintf("...(%d bytes)", len(s))
	}

	return q
}

func clipMap(m map[string]string) map[string]string {
	out := map[string]string{}

	for k, v := range m {
		if len(out) >= 6 {
			break
		}

		out[clip(k)] = clip(v)
	}

	return out
}

func clipList(l []string) []string {
	var out []string

	for i, s := range l {
		if i >= 6 {
			break
		}

		out = append(out, clip(s))
	}

	return out
}

// resource draws a full resource. maxSize limits the spec payload class (sizeHuge allows > 1 MiB).
func (g *gen) resource(maxSize sizeClass, allowInvalid bool) *genCase {
	g.hostile, g.invalid = 0, 0
	g.allowInval = allowInvalid && g.r.IntN(8) == 0 // a minority of the cases carries invalid UTF-8

	k := kind(g.r.IntN(int(numKinds)))
	tiny := g.r.IntN(12) == 0 && !g.forceHuge // forces a very short encoding (below the 64 byte threshold)

	var ns, id, typ string

	if tiny {
		ns, id = []string{"", "n"}[g.r.IntN(2)], []string{"", "i"}[g.r.IntN(2)]
		k = kindRaw
		typ = []string{"", "t"}[g.r.IntN(2)]
	} else {
		ns, id = g.str(), g.str()
	}

	switch k {
	case kindA:
		typ = res.TypeA
	case kindC:
		typ = res.TypeC
	case kindP:
		typ = TypeP
	case kindDyn:
		typ = TypeDyn
	case kindRaw:
		if !tiny {
			typ = g.str()

			switch typ {
			case res.TypeA, res.TypeB, res.TypeC, res.TypeD, TypeP, TypeDyn:
				typ += "x"
			}
		}
	}

	md := resource.NewMetadata(ns, typ, id, g.version())

	if g.r.IntN(2) == 0 {
		md.SetPhase(resource.PhaseTearingDown)
	}

	if tiny {
		md.SetCreated(time.Time{})
		md.SetUpdated(time.Unix(0, 0).UTC())
	} else {
		md.SetCreated(g.timestamp())
		md.SetUpdated(g.timestamp())

		if g.r.IntN(5) < 3 {
			if err := md.SetOwner(g.str()); err != nil {
				panic(err)
			}
		}

		for k, v := range g.strMap(g.str) {
			md.Labels().Set(k, v)
		}

		for k, v := range g.strMap(g.str) {
			md.Annotations().Set(k, v)
		}

		for _, f := range g.strList(g.str) {
			md.Finalizers().Add(f)
		}
	}

	sc, n := g.size()
	if g.forceHuge {
		sc, n = sizeHuge, (1<<20)+4096+g.r.IntN(1<<19)
		tiny = false
	} else if sc > maxSize {
		sc, n = sizeMedium, 40+g.r.IntN(400)
	}

	if tiny {
		sc, n = sizeEmpty, 0
	}

	compressible := g.r.IntN(2) == 0

	var r resource.Resource

	switch k {
	case kindA, kindC:
		spec := res.Spec{Val: g.int64()}

		switch {
		case n == 0:
		case g.r.IntN(3) == 0 && sc <= sizeMedium:
			spec.Token = g.validStr()
		default:
			spec.Token = g.payload(n, compressible)
		}

		if sc != sizeEmpty {
			spec.M = g.strMap(g.validStr)
			spec.S = g.strList(g.validStr)
		}

		if k == kindA {
			a := res.NewA(ns, id)
			*a.Metadata() = md
			*a.TypedSpec() = spec
			r = a
		} else {
			c := res.NewC(ns, id)
			*c.Metadata() = md
			*c.TypedSpec() = spec
			r = c
		}
	case kindP:
		v := &v1alpha1.Metadata{}

		if sc != sizeEmpty {
			v.Namespace, v.Type, v.Id, v.Version, v.Phase = g.str(), g.str(), g.str(), g.str(), g.str()
			v.Owner = g.payload(n, compressible)
			v.Finalizers = g.strList(g.str)
			v.Labels = g.strMap(g.str)
			v.Annotations = g.strMap(g.str)

			if g.r.IntN(2) == 0 {
				v.Created = timestamppb.New(g.timestamp())
			}

			if g.r.IntN(3) == 0 {
				v.Updated = &timestamppb.Timestamp{Seconds: g.int64(), Nanos: int32(g.r.Uint32())}
			}
		}

		r = typed.NewResource[PSpec, extP](md, protobuf.NewResourceSpec(v))
	case kindDyn:
		spec := DynSpec{}

		if sc != sizeEmpty {
			spec.Str = g.str()
			spec.Num = g.int64()
			spec.List = g.strList(g.str)
			spec.Map = g.strMap(g.str)

			// yaml renders []byte as a sequence of integers (very slow for big slices): the bulk goes into the string field
			rawLen := min(n, 2048)

			if n > rawLen {
				spec.Str = g.payload(n, compressible)
			}

			if compressible {
				spec.Raw = []byte(g.payload(rawLen, true))
			} else {
				spec.Raw = make([]byte, rawLen)
				for i := range spec.Raw {
					spec.Raw[i] = byte(g.r.IntN(256))
				}
			}

			if len(spec.Raw) == 0 {
				spec.Raw = nil
			}
		}

		r = typed.NewResource[DynSpec, extDyn](md, spec)
	case kindRaw:
		c := &carrier{md: md}

		if n > 0 {
			if compressible {
				c.spec.B = []byte(g.payload(n, true))
			} else {
				c.spec.B = make([]byte, n)
				for i := range c.spec.B {
					c.spec.B[i] = byte(g.r.IntN(256))
				}
			}

			if len(c.spec.B) == 0 {
				c.spec.B = nil
			}
		}

		c.spec.Y = g.validStr()

		var (
			pr  *protobuf.Resource
			err error
		)

		if tiny {
			pr, err = protobuf.FromResource(c, protobuf.WithoutYAML())
		} else {
			pr, err = protobuf.FromResource(c)
		}

		if err != nil {
			panic(fmt.Sprintf("carrier: %v", err))
		}

		r = pr
	}

	gc := &genCase{r: r, kind: k, size: sc, hostile: g.hostile, tiny: tiny}
	gc.mdValid = allValid(mdStrings(r.Metadata()))
	gc.allValid = gc.mdValid && allValid(specStrings(r))

	return gc
}

func (g *gen) int64() int64 {
	switch g.r.IntN(6) {
	case 0:
		return 0
	case 1:
		return math.MaxInt64
	case 2:
		return math.MinInt64
	case 3:
		return -1
	default:
		return int64(g.r.Uint64())
	}
}
