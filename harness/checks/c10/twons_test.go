//go:build verif

package c10

import (
	"context"
	"fmt"
	"math/rand/v2"
	"os"
	"path/filepath"
	"strings"
	"sync"
	"time"

	"go.etcd.io/bbolt"

	"github.com/cosi-project/runtime/pkg/resource"
	"github.com/cosi-project/runtime/pkg/state"
	"github.com/cosi-project/runtime/pkg/state/impl/inmem"
	"github.com/cosi-project/runtime/pkg/state/impl/store/bolt"

	"verif/harness/res"
	"verif/harness/vk"
)

// twoNamespaces: several namespaces share one database file (one bolt store, one inmem state per namespace). After a restart namespace
// "a" is loaded lazily - by its first accesses - at the very moment namespace "b" commits writes that make the file grow. What "a" then
// serves must be exactly what was acknowledged before the restart (every field, payloads included), and the process must survive.
func twoNamespaces(c *vk.C, dir string) {
	bg := context.Background()

	var (
		wg  sync.WaitGroup
		sem = make(chan struct{}, 4)
	)

	n := c.N(10, 150)

	for ci := 0; ci < n; ci++ {
		wg.Add(1)
		sem <- struct{}{}

		go func() {
			defer wg.Done()
			defer func() { <-sem }()

			marshaler := marshalers[ci%len(marshalers)]
			path := filepath.Join(dir, fmt.Sprintf("twons-%d.db", ci))
			rng := rand.New(rand.NewPCG(uint64(c.Seed), uint64(50_000+ci)))

			open := func() (map[string]state.CoreState, func(), error) {
				bs, err := bolt.NewBackingStore(func() (*bbolt.DB, error) {
					return bbolt.Open(path, 0o600, &bbolt.Options{Timeout: 5 * time.Second, NoSync: true, InitialMmapSize: 32 * 1024})
				}, mkMarshaler(marshaler))
				if err != nil {
					return nil, nil, err
				}

				sts := map[string]state.CoreState{}
				for _, ns := range []string{"a", "b"} {
					sts[ns] = inmem.NewStateWithOptions(inmem.WithBackingStore(bs.WithNamespace(ns)))(ns)
				}

				return sts, func() { _ = bs.Close() }, nil
			}

			mk := func(ns, id string, size int, tok string) resource.Resource {
				r := res.New(ns, res.TypeA, id)
				res.SpecOf(r).Token = tok
				r.Metadata().Annotations().Set("payload", strings.Repeat(tok+"/", size/(len(tok)+1)+1))
				r.Metadata().Labels().Set("k", tok)
				r.Metadata().Finalizers().Add("f-" + tok)

				return r
			}

			sts, closer, err := open()
			if err != nil {
				c.Violation("open-failed", err.Error())

				return
			}

			model := map[string]val{}

			for i := 0; i < 12+rng.IntN(20); i++ {
				id := fmt.Sprintf("r%d", i)
				r := mk("a", id, []int{10, 200, 3000, 9000}[rng.IntN(4)], fmt.Sprintf("a%d-%d", ci, i))

				if err := sts["a"].Create(bg, r); err != nil {
					c.Violation("write-failed", err.Error())

					closer()

					return
				}

				model[id] = snap(r)
			}

			closer()

			// restart: the first accesses of "a" race with growing writes to "b"
			sts, closer, err = open()
			if err != nil {
				c.Violation("open-failed", err.Error())

				return
			}

			var (
				start = make(chan struct{})
				rw    sync.WaitGroup
				got   map[string]val
				lerr  error
			)

			rw.Add(2)

			go func() {
				defer rw.Done()
				<-start

				l, err := sts["a"].List(bg, resource.NewMetadata("a", res.TypeA, "", resource.VersionUndefined))
				if err != nil {
					lerr = err

					return
				}

				got = map[string]val{}
				for _, it := range l.Items {
					got[it.Metadata().ID()] = snap(it)
				}
			}()

			go func() {
				defer rw.Done()
				<-start

				for i := 0; i < 6; i++ {
					_ = sts["b"].Create(bg, mk("b", fmt.Sprintf("big%d", i), 64*1024<<uint(rng.IntN(3)), fmt.Sprintf("b%d-%d", ci, i)))
				}
			}()

			close(start)
			rw.Wait()

			bad := lerr != nil || len(got) != len(model)

			for id, want := range model {
				if g, ok := got[id]; !ok || !g.same(want, true) {
					bad = true
				}
			}

			if bad {
				c.Violation("state-after-restart-differs-from-acknowledged", map[string]any{"family": "two namespaces on one file", "marshaler": marshaler, "list_error": fmt.Sprint(lerr),
					"resources_acknowledged": len(model), "resources_served": len(got)})
			}

			closer()

			c.Count("restarts_with_another_namespace_writing", 1)
			c.Count("fields_compared", len(model)*12)
			c.Case(vk.Hash("twons", marshaler, ci), true)

			_ = os.Remove(path)
		}()
	}

	wg.Wait()
}
