//go:build verif

// C10: persistent store - acknowledged writes survive crashes; memory never diverges from the store.
package c10

import (
	"bufio"
	"bytes"
	"context"
	"encoding/json"
	"errors"
	"fmt"
	"maps"
	"math/rand/v2"
	"os"
	"os/exec"
	"path/filepath"
	"slices"
	"sort"
	"strconv"
	"strings"
	"sync"
	"sync/atomic"
	"syscall"
	"testing"
	"time"

	"go.etcd.io/bbolt"

	"github.com/cosi-project/runtime/pkg/resource"
	"github.com/cosi-project/runtime/pkg/state"
	"github.com/cosi-project/runtime/pkg/state/impl/inmem"
	"github.com/cosi-project/runtime/pkg/state/impl/store"
	"github.com/cosi-project/runtime/pkg/state/impl/store/bolt"
	"github.com/cosi-project/runtime/pkg/state/impl/store/compression"
	"github.com/cosi-project/runtime/pkg/state/impl/store/encryption"

	"verif/harness/res"
	"verif/harness/vk"
)

func TestMain(m *testing.M) {
	res.Register()

	if os.Getenv("VERIF_CHILD") == "c10worker" {
		worker()

		return
	}

	os.Exit(m.Run())
}

// ---- shared: value snapshots, marshalers, op streams --------------------------------------------------------------------

type val struct {
	Ver     uint64            `json:"ver"`
	Owner   string            `json:"owner"`
	Phase   string            `json:"phase"`
	Fins    []string          `json:"fins"`
	Labels  map[string]string `json:"labels"`
	Annot   map[string]string `json:"annot"`
	Created int64             `json:"created"`
	Updated int64             `json:"updated"`
	Token   string            `json:"token"`
	Val     int64             `json:"val"`
	S       []string          `json:"s"`
	M       map[string]string `json:"m"`
}

func snap(r resource.Resource) val {
	md := r.Metadata()
	v := val{Ver: md.Version().Value(), Owner: md.Owner(), Phase: md.Phase().String(), Fins: slices.Clone([]string(*md.Finalizers())),
		Labels: maps.Clone(md.Labels().Raw()), Annot: maps.Clone(md.Annotations().Raw()), Created: md.Created().UnixNano(), Updated: md.Updated().UnixNano()}

	if sp := res.SpecOf(r); sp != nil {
		v.Token, v.Val, v.S, v.M = sp.Token, sp.Val, slices.Clone(sp.S), maps.Clone(sp.M)
	}

	sort.Strings(v.Fins)

	return v
}

func (a val) same(b val, withTimes bool) bool {
	eqMap := func(x, y map[string]string) bool { return (len(x) == 0 && len(y) == 0) || maps.Equal(x, y) }
	eqSl := func(x, y []string) bool { return (len(x) == 0 && len(y) == 0) || slices.Equal(x, y) }

	ok := a.Ver == b.Ver && a.Owner == b.Owner && a.Phase == b.Phase && eqSl(a.Fins, b.Fins) && eqMap(a.Labels, b.Labels) && eqMap(a.Annot, b.Annot) &&
		a.Token == b.Token && a.Val == b.Val && eqSl(a.S, b.S) && eqMap(a.M, b.M)
	if withTimes {
		ok = ok && a.Created == b.Created && a.Updated == b.Updated
	}

	return ok
}

var marshalers = []string{"protobuf", "compress0", "compress64", "compress1M", "encrypt", "encrypt+compress0", "compress64+encrypt"}

func mkMarshaler(name string) store.Marshaler {
	key := []byte("0123456789abcdef0123456789abcdef")
	cipher := encryption.NewCipher(encryption.KeyProviderFunc(func() ([]byte, error) { return key, nil }))

	var m store.Marshaler = store.ProtobufMarshaler{}

	switch name {
	case "compress0":
		m = compression.NewMarshaler(m, compression.ZStd(), 0)
	case "compress64":
		m = compression.NewMarshaler(m, compression.ZStd(), 64)
	case "compress1M":
		m = compression.NewMarshaler(m, compression.ZStd(), 1<<20)
	case "encrypt":
		m = encryption.NewMarshaler(m, cipher)
	case "encrypt+compress0": // compress, then encrypt
		m = encryption.NewMarshaler(compression.NewMarshaler(m, compression.ZStd(), 0), cipher)
	case "compress64+encrypt": // encrypt, then (try to) compress
		m = compression.NewMarshaler(encryption.NewMarshaler(m, cipher), compression.ZStd(), 64)
	}

	return m
}

func openState(path, marshaler string, wrap func(inmem.BackingStore) inmem.BackingStore, noSync ...bool) (state.CoreState, func(), error) {
	bs, err := bolt.NewBackingStore(func() (*bbolt.DB, error) {
		return bbolt.Open(path, 0o600, &bbolt.Options{Timeout: 5 * time.Second, NoSync: len(noSync) > 0 && noSync[0]})
	}, mkMarshaler(marshaler))
	if err != nil {
		return nil, nil, err
	}

	var b inmem.BackingStore = bs.WithNamespace("ns")
	if wrap != nil {
		b = wrap(b)
	}

	return inmem.NewStateWithOptions(inmem.WithBackingStore(b))("ns"), func() { _ = bs.Close() }, nil
}

// op is one operation of the stream, fully determined by (seed, index) and the version it read.
type op struct {
	K         int               `json:"k"`
	Kind      string            `json:"kind"` // create | update | destroy
	ID        string            `json:"id"`
	Owner     string            `json:"owner"`
	Ver       uint64            `json:"ver"` // version carried by the object (update)
	Stale     bool              `json:"stale,omitempty"`
	Resubmit  bool              `json:"resubmit,omitempty"`
	HandBuilt bool              `json:"hand_built,omitempty"`
	Token     string            `json:"token"`
	Big       int               `json:"big,omitempty"` // payload size (both sides of the compression threshold)
	Phase     string            `json:"phase"`
	Fins      []string          `json:"fins"`
	Labels    map[string]string `json:"labels"`
}

type ack struct {
	K     int    `json:"k"`
	Class string `json:"class"` // "" ok | notfound | conflict | owner | phase | other:<msg>
	Val   *val   `json:"val,omitempty"`
}

func classOf(err error) string {
	switch {
	case err == nil:
		return ""
	case state.IsNotFoundError(err):
		return "notfound"
	case state.IsOwnerConflictError(err):
		return "owner"
	case state.IsPhaseConflictError(err):
		return "phase"
	case state.IsConflictError(err):
		return "conflict"
	}

	return "other:" + err.Error()
}

var ids = []string{"r0", "r1", "r2", "r3"}

// typeFor maps an id to its resource type. In the parent (rejecting-store part) everything is one kind; the crash workers put the ids
// of their second goroutine into another kind, so that the two goroutines write through different collections (each with its own lock)
// into the one backing store and its marshaler at the same time.
var typeFor = func(string) string { return res.TypeA }

// nextOp draws op k for worker goroutine g (which owns ids[g*2 : g*2+2]) given the current stored value of the chosen id.
func nextOp(rng *rand.Rand, k, g int, get func(id string) (resource.Resource, bool)) (op, resource.Resource) {
	id := ids[g*2+rng.IntN(2)]
	o := op{K: k, ID: id, Token: fmt.Sprintf("tok%d", k), Phase: "running", Owner: []string{"", "", "own"}[rng.IntN(3)]}
	cur, exists := get(id)

	switch p := rng.IntN(100); {
	case !exists || p < 8:
		o.Kind = "create"
	case p < 80:
		o.Kind = "update"
	default:
		o.Kind = "destroy"
	}

	if rng.IntN(4) == 0 {
		o.Big = 100 + rng.IntN(4000)
	}

	var r resource.Resource

	switch o.Kind {
	case "create":
		r = res.New("ns", typeFor(id), id)

		if rng.IntN(3) == 0 {
			r.Metadata().Finalizers().Add("f0")
		}
	case "update":
		r = cur.DeepCopy()
		o.Owner = cur.Metadata().Owner()

		if rng.IntN(10) == 0 {
			o.Owner = "intruder"
		}

		if rng.IntN(10) == 0 && cur.Metadata().Version().Value() > 1 {
			ver, _ := resource.ParseVersion(strconv.FormatUint(cur.Metadata().Version().Value()-1, 10))
			r.Metadata().SetVersion(ver)
			o.Stale = true
		}

		if rng.IntN(5) == 0 {
			// re-submit the current contents unchanged: still an acknowledged write (version + update time move on)
			o.Resubmit = true
			o.Token = res.Token(cur)
		}

		switch pick := rng.IntN(6); {
		case o.Resubmit:
		case pick == 0:
			r.Metadata().SetPhase(resource.PhaseTearingDown)
		case pick == 1:
			r.Metadata().Finalizers().Add(fmt.Sprintf("f%d", rng.IntN(3)))
		case pick == 2:
			r.Metadata().Finalizers().Remove(fmt.Sprintf("f%d", rng.IntN(3)))
		case pick == 3:
			r.Metadata().Finalizers().Set(nil)
		}

		if rng.IntN(5) == 0 {
			// a hand-built object: everything the store looks at is copied over, but the object is a new one (the constructor
			// stamps its own creation / update times); the store keeps the resource's creation time
			nr := res.New("ns", typeFor(id), id)
			nr.Metadata().SetVersion(r.Metadata().Version())
			_ = nr.Metadata().SetOwner(r.Metadata().Owner())
			nr.Metadata().SetPhase(r.Metadata().Phase())
			nr.Metadata().Finalizers().Set(slices.Clone([]string(*r.Metadata().Finalizers())))

			for k, v := range r.Metadata().Labels().Raw() {
				nr.Metadata().Labels().Set(k, v)
			}

			for k, v := range r.Metadata().Annotations().Raw() {
				nr.Metadata().Annotations().Set(k, v)
			}

			*res.SpecOf(nr) = *res.SpecOf(r.DeepCopy())
			r = nr
			o.HandBuilt = true
		}
	case "destroy":
		o.Owner = cur.Metadata().Owner()

		if rng.IntN(8) == 0 {
			o.Owner = "intruder"
		}

		return o, nil
	}

	if !o.Resubmit {
		sp := res.SpecOf(r)
		sp.Token, sp.Val = o.Token, int64(k)
		sp.S = []string{o.Token, strings.Repeat("x", o.Big)}
		sp.M = map[string]string{"k": o.Token}
		r.Metadata().Labels().Set("l", o.Token)
		r.Metadata().Annotations().Set("a", strings.Repeat("y", o.Big/3))
	}

	o.Ver = r.Metadata().Version().Value()
	o.Phase = r.Metadata().Phase().String()
	o.Fins = slices.Clone([]string(*r.Metadata().Finalizers()))
	o.Labels = maps.Clone(r.Metadata().Labels().Raw())

	return o, r
}

func apply(ctx context.Context, st state.CoreState, o op, r resource.Resource) ack {
	a := ack{K: o.K}

	switch o.Kind {
	case "create":
		err := st.Create(ctx, r, state.WithCreateOwner(o.Owner))
		a.Class = classOf(err)
	case "update":
		err := st.Update(ctx, r, state.WithUpdateOwner(o.Owner), state.WithExpectedPhaseAny())
		a.Class = classOf(err)
	case "destroy":
		err := st.Destroy(ctx, resource.NewMetadata("ns", typeFor(o.ID), o.ID, resource.VersionUndefined), state.WithDestroyOwner(o.Owner))
		a.Class = classOf(err)

		return a
	}

	if a.Class == "" {
		v := snap(r)
		a.Val = &v
	}

	return a
}

// ---- worker (child process) ------------------------------------------------------------------------------------------------

func worker() {
	typeFor = func(id string) string {
		if id == ids[2] || id == ids[3] {
			return res.TypeB
		}

		return res.TypeA
	}

	path, marshaler := os.Getenv("VERIF_C10_DB"), os.Getenv("VERIF_C10_MARSHALER")
	seed, _ := strconv.ParseUint(os.Getenv("VERIF_C10_SEED"), 10, 64)
	from, _ := strconv.Atoi(os.Getenv("VERIF_C10_FROM"))
	n, _ := strconv.Atoi(os.Getenv("VERIF_C10_N"))

	var wrap func(inmem.BackingStore) inmem.BackingStore

	// VERIF_C10_SELFKILL=<point>:<n> - die (SIGKILL to self) right before / after the n-th backing-store Put / Destroy of this
	// process: "the store has not been asked yet" vs "the store has committed but memory and the caller have not been told"
	if sk := os.Getenv("VERIF_C10_SELFKILL"); sk != "" {
		point, ns, _ := strings.Cut(sk, ":")
		n, _ := strconv.Atoi(ns)

		wrap = func(b inmem.BackingStore) inmem.BackingStore { return &suicidalStore{inner: b, point: point, n: n} }
	}

	st, closer, err := openState(path, marshaler, wrap)
	if err != nil {
		fmt.Println("FATAL", err)
		os.Exit(3)
	}

	defer closer()

	ctx := context.Background()

	var outMu sync.Mutex

	emit := func(tag string, v any) {
		b, _ := json.Marshal(v)

		outMu.Lock()
		fmt.Fprintf(os.Stdout, "%s %s\n", tag, b)
		outMu.Unlock()
	}

	// dump what was recovered from the file - unless told not to: then the very first accesses to the reopened (non-empty) store are
	// the concurrent operations of the two goroutines below (the lazy load races with them)
	if os.Getenv("VERIF_C10_NODUMP") == "" {
		dump := map[string]val{}

		for _, typ := range []string{res.TypeA, res.TypeB} {
			list, err := st.List(ctx, resource.NewMetadata("ns", typ, "", resource.VersionUndefined))
			if err != nil {
				fmt.Println("FATAL list:", err)
				os.Exit(3)
			}

			for _, it := range list.Items {
				dump[it.Metadata().ID()] = snap(it)
			}
		}

		emit("DUMP", dump)
	}

	if n == 0 {
		return
	}

	var (
		wg   sync.WaitGroup
		next atomic.Int64
	)

	next.Store(int64(from))

	for g := 0; g < 2; g++ {
		rng := rand.New(rand.NewPCG(seed, uint64(from*10+g)))

		wg.Add(1)

		go func() {
			defer wg.Done()

			for {
				k := int(next.Add(1)) - 1
				if k >= from+n {
					return
				}

				o, r := nextOp(rng, k, g, func(id string) (resource.Resource, bool) {
					cur, err := st.Get(ctx, resource.NewMetadata("ns", typeFor(id), id, resource.VersionUndefined))

					return cur, err == nil
				})

				emit("INTENT", o)
				emit("ACK", apply(ctx, st, o, r))
			}
		}()
	}

	wg.Wait()
	emit("DONE", map[string]int{"next": from + n})
}

// suicidalStore kills the process at an exact point relative to the n-th Put / Destroy of the real store.
type suicidalStore struct {
	inner inmem.BackingStore
	point string // beforePut | afterPut | beforeDestroy | afterDestroy
	n     int
	mu    sync.Mutex
	puts  int
	dests int
}

func (s *suicidalStore) die() {
	_ = syscall.Kill(os.Getpid(), syscall.SIGKILL)

	select {} // never returns: the signal is on its way
}

func (s *suicidalStore) Load(ctx context.Context, h inmem.LoadHandler) error {
	return s.inner.Load(ctx, h)
}

func (s *suicidalStore) Put(ctx context.Context, t resource.Type, r resource.Resource) error {
	s.mu.Lock()
	s.puts++
	k := s.puts
	s.mu.Unlock()

	if s.point == "beforePut" && k == s.n {
		s.die()
	}

	err := s.inner.Put(ctx, t, r)

	if s.point == "afterPut" && k == s.n {
		s.die()
	}

	return err
}

func (s *suicidalStore) Destroy(ctx context.Context, t resource.Type, p resource.Pointer) error {
	s.mu.Lock()
	s.dests++
	k := s.dests
	s.mu.Unlock()

	if s.point == "beforeDestroy" && k == s.n {
		s.die()
	}

	err := s.inner.Destroy(ctx, t, p)

	if s.point == "afterDestroy" && k == s.n {
		s.die()
	}

	return err
}

// ---- parent --------------------------------------------------------------------------------------------------------------

func TestC10(t *testing.T) {
	vk.Run(t, "C10", "fault_enumeration", func(c *vk.C) {
		c.Rule("(1) rejecting store, in process: an inmem.BackingStore wrapper around the real bbolt store fails the N-th Put / Destroy / Load for every N of a seeded 40-operation stream " +
			"(7 marshaler stackings): the failing operation must return the error, Get/List and a concurrent unfiltered watcher must show no change, a failed Load is retried and then equals " +
			"the file. (2) crashes: a child process runs a seeded operation stream (2 goroutines, disjoint ids, payloads on both sides of the compression threshold) on inmem+bbolt writing " +
			"INTENT/ACK lines; the parent SIGKILLs it when it reads the k-th INTENT (during an operation) or ACK (between operations) line, for enumerated k; a fresh child reopens the file, " +
			"dumps every field and continues for 2-4 crash/restart cycles; the dump must equal the model of acknowledged operations, each id allowed to hold its single in-flight operation " +
			"instead, and every acknowledged result must match the model (as if no restart happened). distinct = (marshaler, kill point / failing call index); non-trivial = the kill landed with " +
			"an operation in flight, or the rejected call was a write")
		c.Assume("crash = process death (SIGKILL) with the page cache intact; power loss / torn sectors cannot be produced here")
		c.Require("store_rejections_put", "store_rejections_destroy", "store_rejections_load", "kills", "kills_with_inflight_op", "restarts_checked", "acked_ops_checked", "fields_compared", "marshalers_used")
		c.Want("kills_at_exact_store_call_beforePut", "kills_at_exact_store_call_afterPut", "kills_inside_bbolt_commit_pwrite64", "bbolt_internal_rejections", "restarts_with_concurrent_first_access")

		dir, err := os.MkdirTemp("", "c10")
		if err != nil {
			c.Inconclusive("no temp dir")

			return
		}

		defer os.RemoveAll(dir)

		// (development aid: VERIF_C10_ONLY=<family> runs one family; the run is then inconclusive by construction - required counters stay zero)
		only := os.Getenv("VERIF_C10_ONLY")
		if only == "" || only == "rejecting" {
			rejecting(c, dir)
		}

		if only == "" || only == "cancelled" {
			cancelled(c, dir)
		}

		if only == "" || only == "twons" {
			twoNamespaces(c, dir)
		}

		if only == "" || only == "crashes" {
			crashes(c, dir)
		}
	})
}

// failingStore fails the n-th call of a kind.
type failingStore struct {
	inner  inmem.BackingStore
	mu     sync.Mutex
	counts map[string]int
	failAt map[string]int
	hits   map[string]int
}

var errRejected = errors.New("verif: store rejected the call")

func (f *failingStore) hit(kind string) bool {
	f.mu.Lock()
	defer f.mu.Unlock()

	f.counts[kind]++

	if n, ok := f.failAt[kind]; ok && f.counts[kind] == n {
		f.hits[kind]++

		return true
	}

	return false
}

func (f *failingStore) Load(ctx context.Context, h inmem.LoadHandler) error {
	if f.hit("load") {
		return errRejected
	}

	return f.inner.Load(ctx, h)
}

func (f *failingStore) Put(ctx context.Context, t resource.Type, r resource.Resource) error {
	if f.hit("put") {
		return errRejected
	}

	return f.inner.Put(ctx, t, r)
}

func (f *failingStore) Destroy(ctx context.Context, t resource.Type, p resource.Pointer) error {
	if f.hit("destroy") {
		return errRejected
	}

	return f.inner.Destroy(ctx, t, p)
}

func listAll(ctx context.Context, st state.CoreState) (map[string]val, error) {
	list, err := st.List(ctx, resource.NewMetadata("ns", res.TypeA, "", resource.VersionUndefined))
	if err != nil {
		return nil, err
	}

	out := map[string]val{}
	for _, it := range list.Items {
		out[it.Metadata().ID()] = snap(it)
	}

	return out, nil
}

func sameState(a, b map[string]val, withTimes bool) bool {
	if len(a) != len(b) {
		return false
	}

	for k, v := range a {
		if w, ok := b[k]; !ok || !v.same(w, withTimes) {
			return false
		}
	}

	return true
}

func rejecting(c *vk.C, dir string) {
	ctx := context.Background()
	nOps := 40

	var (
		cases atomic.Int64
		wg    sync.WaitGroup
		sem   = make(chan struct{}, 16)
	)

	for mi, marshaler := range marshalers {
		c.Count("marshalers_used", 1)

		for _, kind := range []string{"put", "destroy", "load"} {
			maxN := nOps
			if kind == "load" {
				maxN = 3
			}

			if !c.Thorough() && mi > 2 && kind == "put" {
				maxN = 12 // quick: full enumeration for three stackings, a prefix for the rest
			}

			for n := 1; n <= maxN; n++ {
				wg.Add(1)
				sem <- struct{}{}

				go func() {
					defer wg.Done()
					defer func() { <-sem }()

					path := filepath.Join(dir, fmt.Sprintf("rej-%d-%s-%d.db", mi, kind, n))
					fs := &failingStore{counts: map[string]int{}, failAt: map[string]int{kind: n}, hits: map[string]int{}}

					// seed the file with two resources through a healthy handle so that Load has something to deliver
					pre, closePre, err := openState(path, marshaler, nil, true)
					if err != nil {
						c.Violation("open-failed", err.Error())

						return
					}

					seedRng := rand.New(rand.NewPCG(uint64(c.Seed), 5))
					for k := 0; k < 3; k++ {
						o, r := nextOp(seedRng, 1000+k, k%2, func(id string) (resource.Resource, bool) {
							cur, err := pre.Get(ctx, resource.NewMetadata("ns", res.TypeA, id, resource.VersionUndefined))

							return cur, err == nil
						})
						apply(ctx, pre, o, r)
					}

					closePre()

					st, closer, err := openState(path, marshaler, func(b inmem.BackingStore) inmem.BackingStore { fs.inner = b; return fs }, true)
					if err != nil {
						c.Violation("open-failed", err.Error())

						return
					}

					wctx, wcancel := context.WithCancel(ctx)

					var events atomic.Int64

					watchStarted := false
					startWatch := func() {
						ch := make(chan state.Event, 1024)
						if err := st.WatchKind(wctx, resource.NewMetadata("ns", res.TypeA, "", resource.VersionUndefined), ch); err == nil {
							watchStarted = true

							go func() {
								for {
									select {
									case <-wctx.Done():
										return
									case ev := <-ch:
										if ev.Type == state.Created || ev.Type == state.Updated || ev.Type == state.Destroyed {
											events.Add(1)
										}
									}
								}
							}()
						}
					}

					rng := rand.New(rand.NewPCG(uint64(c.Seed), uint64(mi*100+n)))
					rejectedWrites := 0
					watchedCommits := 0

					for k := 0; k < nOps; k++ {
						before, berr := listAll(ctx, st)
						if berr != nil {
							// a failed Load: the call reports it, and the next call must succeed and show the file's contents
							if !errors.Is(berr, errRejected) {
								c.Violation("load-failure-not-reported", map[string]any{"err": berr.Error()})
							}

							again, aerr := listAll(ctx, st)
							if aerr != nil || len(again) == 0 {
								c.Violation("failed-load-not-retried", map[string]any{"marshaler": marshaler, "n": n, "err": fmt.Sprint(aerr), "state": again})
							}

							c.Count("store_rejections_load", 1)

							before = again
						}

						if !watchStarted {
							startWatch()
						}

						// let the events of earlier (successful) writes arrive first
						for w := 0; w < 2000 && watchedCommits > 0 && events.Load() < int64(watchedCommits); w++ {
							time.Sleep(100 * time.Microsecond)
						}

						evBefore := events.Load()
						o, r := nextOp(rng, k, k%2, func(id string) (resource.Resource, bool) {
							cur, err := st.Get(ctx, resource.NewMetadata("ns", res.TypeA, id, resource.VersionUndefined))

							return cur, err == nil
						})

						hitsBefore := fs.hits["put"] + fs.hits["destroy"]
						a := apply(ctx, st, o, r)
						rejectedNow := fs.hits["put"]+fs.hits["destroy"] > hitsBefore

						if a.Class == "" && watchStarted {
							watchedCommits++
						}

						if rejectedNow {
							rejectedWrites++

							c.Count("store_rejections_"+map[bool]string{true: "destroy", false: "put"}[o.Kind == "destroy"], 1)

							if a.Class == "" {
								c.Violation("rejected-write-reported-success", map[string]any{"marshaler": marshaler, "op": o})
							}

							time.Sleep(2 * time.Millisecond)

							after, _ := listAll(ctx, st)
							if !sameState(before, after, true) {
								c.Violation("memory-diverged-from-store", map[string]any{"marshaler": marshaler, "op": o, "before": before, "after": after})
							}

							if events.Load() != evBefore {
								c.Violation("watcher-observed-rejected-write", map[string]any{"marshaler": marshaler, "op": o})
							}
						}
					}

					wcancel()

					// the file must agree with memory at the end
					final, _ := listAll(ctx, st)
					closer()

					re, closeRe, err := openState(path, marshaler, nil, true)
					if err == nil {
						onDisk, _ := listAll(ctx, re)

						closeRe()

						if !sameState(final, onDisk, true) {
							c.Violation("memory-diverged-from-store", map[string]any{"marshaler": marshaler, "failing": kind, "n": n, "memory": final, "file": onDisk})
						}

						c.Count("fields_compared", len(onDisk)*12)
					}

					_ = os.Remove(path)
					cases.Add(1)

					c.Case(vk.Hash("reject", marshaler, kind, n), rejectedWrites > 0)
				}()
			}
		}
	}

	wg.Wait()

	c.Sample(map[string]any{"mode": "rejecting-store", "cases": cases.Load(), "marshalers": marshalers})
}

// cancelled: operations whose context is cancelled at a seeded moment while they run (before the call, while it waits, inside the
// store's commit, after it). Whatever the call answers is the truth: an error means no effect - in memory now and in the file after
// a reopen -, success means the write is there; a watcher sees exactly the successful writes.
func cancelled(c *vk.C, dir string) {
	bg := context.Background()

	var (
		wg  sync.WaitGroup
		sem = make(chan struct{}, 8)
	)

	n := c.N(12, 200)

	for ci := 0; ci < n; ci++ {
		wg.Add(1)
		sem <- struct{}{}

		go func() {
			defer wg.Done()
			defer func() { <-sem }()

			marshaler := marshalers[ci%len(marshalers)]
			noSync := ci%3 == 0 // two thirds with real syncs: the commit takes long enough for the cancellation to land inside it
			path := filepath.Join(dir, fmt.Sprintf("cancel-%d.db", ci))

			st, closer, err := openState(path, marshaler, nil, noSync)
			if err != nil {
				c.Violation("open-failed", err.Error())

				return
			}

			rng := rand.New(rand.NewPCG(uint64(c.Seed), uint64(40_000+ci)))
			avg := 200 * time.Microsecond
			failedCalls, okCalls, history := 0, 0, []string{}

			for k := 0; k < 50; k++ {
				before, berr := listAll(bg, st)
				if berr != nil {
					c.Violation("list-failed", berr.Error())

					break
				}

				o, r := nextOp(rng, k, k%2, func(id string) (resource.Resource, bool) {
					cur, err := st.Get(bg, resource.NewMetadata("ns", typeFor(id), id, resource.VersionUndefined))

					return cur, err == nil
				})

				cctx, cancel := context.WithCancel(bg)
				delay := time.Duration(rng.Int64N(int64(avg)*3/2 + 1))

				if k%7 == 6 {
					delay = 0
					cancel() // cancelled before the call
				}

				tm := time.AfterFunc(delay, cancel)
				t0 := time.Now()
				a := apply(cctx, st, o, r)
				took := time.Since(t0)

				tm.Stop()
				cancel()

				after, _ := listAll(bg, st)
				history = append(history, fmt.Sprintf("%d %s %s cancel-after=%s took=%s -> %q", k, o.Kind, o.ID, delay, took, a.Class))

				if a.Class == "" {
					okCalls++
					avg = (avg*3 + took) / 4
				} else {
					failedCalls++

					if strings.HasPrefix(a.Class, "other") {
						c.Count("calls_failed_by_cancellation", 1)
					}

					if !sameState(before, after, true) {
						c.Violation("memory-diverged-from-store", map[string]any{"family": "cancelled context", "marshaler": marshaler, "op": o, "answer": a.Class, "before": before, "after": after, "history": history})
					}
				}
			}

			final, _ := listAll(bg, st)

			closer()

			re, closeRe, err := openState(path, marshaler, nil, true)
			if err != nil {
				c.Violation("open-failed", err.Error())

				return
			}

			onDisk, _ := listAll(bg, re)

			closeRe()

			if !sameState(final, onDisk, true) {
				c.Violation("state-after-reopen-differs-from-answers", map[string]any{"family": "cancelled context", "marshaler": marshaler, "no_sync": noSync, "memory_at_close": final, "file": onDisk, "history": history})
			}

			c.Count("cancelled_context_ops", failedCalls+okCalls)
			c.Count("fields_compared", len(onDisk)*12)
			c.Case(vk.Hash("cancel", marshaler, ci), failedCalls > 0 && okCalls > 0)

			_ = os.Remove(path)
		}()
	}

	wg.Wait()
}

type childRun struct {
	dump    map[string]val
	intents map[int]op
	acks    map[int]ack
	order   []string
	done    bool
	fatal   string
	// signaled: the child died from a signal (the self-kill / kernel-injected kill landed)
	signaled bool
	// race: the race detector's report if the worker was stopped by one
	race string
}

// runChild starts a worker and kills it when the trigger line shows up (kind "INTENT"/"ACK", index k); k < 0 = let it finish.
func runChild(path, marshaler string, seed uint64, from, n int, killKind string, killK int, noDump ...bool) (*childRun, error) {
	cmd := exec.Command(os.Args[0], "-test.run", "^$")

	var extraEnv []string

	switch {
	case strings.HasPrefix(killKind, "SELF-"):
		// the worker kills itself right before/after its killK-th store call of that kind (call counts restart with each process)
		extraEnv = append(extraEnv, fmt.Sprintf("VERIF_C10_SELFKILL=%s:%d", strings.TrimPrefix(killKind, "SELF-"), killK))
	case strings.HasPrefix(killKind, "STRACE-"):
		// the kernel-side injector: SIGKILL on entry to the killK-th pwrite64 / fdatasync of a thread = death inside a bbolt commit
		sc := strings.TrimPrefix(killKind, "STRACE-")
		cmd = exec.Command("strace", "-f", "-qq", "-o", "/dev/null", "-e", "trace="+sc, "-e", fmt.Sprintf("inject=%s:signal=SIGKILL:when=%d", sc, killK),
			os.Args[0], "-test.run", "^$")
	case strings.HasPrefix(killKind, "STRACEERR-"):
		// the killK-th pwrite64 of a thread fails with EIO: bbolt itself rejects a commit (no process death)
		sc := strings.TrimPrefix(killKind, "STRACEERR-")
		cmd = exec.Command("strace", "-f", "-qq", "-o", "/dev/null", "-e", "trace="+sc, "-e", fmt.Sprintf("inject=%s:error=EIO:when=%d", sc, killK),
			os.Args[0], "-test.run", "^$")
	}

	if len(noDump) > 0 && noDump[0] {
		extraEnv = append(extraEnv, "VERIF_C10_NODUMP=1")
	}

	cmd.Env = append(append(os.Environ(), extraEnv...), "VERIF_CHILD=c10worker", "VERIF_C10_DB="+path, "VERIF_C10_MARSHALER="+marshaler,
		fmt.Sprint("VERIF_C10_SEED=", seed), fmt.Sprint("VERIF_C10_FROM=", from), fmt.Sprint("VERIF_C10_N=", n), "GORACE=halt_on_error=1")

	stdout, err := cmd.StdoutPipe()
	if err != nil {
		return nil, err
	}

	var stderr bytes.Buffer

	cmd.Stderr = &stderr

	if err := cmd.Start(); err != nil {
		return nil, err
	}

	run := &childRun{intents: map[int]op{}, acks: map[int]ack{}}
	sc := bufio.NewScanner(stdout)
	sc.Buffer(make([]byte, 1<<20), 1<<26)

	killed := false

	for sc.Scan() {
		line := sc.Text()
		tag, body, _ := strings.Cut(line, " ")

		switch tag {
		case "DUMP":
			_ = json.Unmarshal([]byte(body), &run.dump)
		case "INTENT":
			var o op
			if json.Unmarshal([]byte(body), &o) == nil {
				run.intents[o.K] = o
				run.order = append(run.order, fmt.Sprintf("I%d", o.K))

				if !killed && killKind == "INTENT" && o.K == killK {
					_ = cmd.Process.Signal(syscall.SIGKILL)
					killed = true
				}
			}
		case "ACK":
			var a ack
			if json.Unmarshal([]byte(body), &a) == nil {
				run.acks[a.K] = a
				run.order = append(run.order, fmt.Sprintf("A%d", a.K))

				if !killed && killKind == "ACK" && a.K == killK {
					_ = cmd.Process.Signal(syscall.SIGKILL)
					killed = true
				}
			}
		case "DONE":
			run.done = true
		case "FATAL":
			run.fatal = body
		}
	}

	werr := cmd.Wait()

	if ee, ok := werr.(*exec.ExitError); ok { //nolint:errorlint
		if ws, ok := ee.Sys().(syscall.WaitStatus); ok && ws.Signaled() {
			run.signaled = true
		}

		// strace re-raises the tracee's fatal signal on itself, or exits with 128+signal
		if ee.ExitCode() == 128+int(syscall.SIGKILL) {
			run.signaled = true
		}

		// the worker runs under the race detector with halt_on_error: exit code 66 = a data race in the code under test
		if ee.ExitCode() == 66 || strings.Contains(stderr.String(), "WARNING: DATA RACE") {
			run.race = stderr.String()
			if len(run.race) > 6000 {
				run.race = run.race[:6000]
			}
		}
	}

	return run, nil
}

// model applies an op to the model and returns the predicted class.
func predict(m map[string]val, o op) (string, *val) {
	cur, exists := m[o.ID]

	switch o.Kind {
	case "create":
		if exists {
			return "conflict", nil
		}

		nv := val{Ver: 1, Owner: o.Owner, Phase: o.Phase, Fins: sorted(o.Fins), Labels: o.Labels, Token: o.Token}

		return "", &nv
	case "update":
		switch {
		case !exists:
			return "notfound", nil
		case cur.Owner != o.Owner:
			return "owner", nil
		case cur.Ver != o.Ver:
			return "conflict", nil
		}

		nv := val{Ver: cur.Ver + 1, Owner: cur.Owner, Phase: o.Phase, Fins: sorted(o.Fins), Labels: o.Labels, Token: o.Token, Created: cur.Created}

		return "", &nv
	case "destroy":
		switch {
		case !exists:
			return "notfound", nil
		case cur.Owner != o.Owner:
			return "owner", nil
		case len(cur.Fins) > 0:
			return "conflict", nil
		}

		return "", nil
	}

	return "other", nil
}

func sorted(s []string) []string {
	o := slices.Clone(s)
	sort.Strings(o)

	return o
}

func crashes(c *vk.C, dir string) {
	type job struct {
		marshaler string
		seed      uint64
		kills     [][2]any // (kind, offset within the segment)
	}

	rng := c.Rand(10)

	var jobs []job

	segment := 24
	nJobs := c.N(10, 900)

	for j := 0; j < nJobs; j++ {
		jb := job{marshaler: marshalers[j%len(marshalers)], seed: uint64(c.Seed)*1000 + uint64(j)}

		// enumerate kill points: job j kills at offset (j mod segment) in the first cycle, seeded afterwards
		cycles := 2 + rng.IntN(3)
		for cy := 0; cy < cycles; cy++ {
			kind := []string{"INTENT", "ACK"}[(j/segment+cy)%2]
			off := (j + cy*7) % segment

			jb.kills = append(jb.kills, [2]any{kind, off})
		}

		jobs = append(jobs, jb)
	}

	// exact crash points relative to the store call: the worker kills itself right before / after its n-th backing-store Put /
	// Destroy ("store not asked yet" / "store committed, memory and caller not told"), n enumerated
	points := []string{"SELF-beforePut", "SELF-afterPut", "SELF-beforeDestroy", "SELF-afterDestroy"}
	nSelf := c.N(3, 24)

	for pi, pt := range points {
		for n := 0; n < nSelf; n++ {
			maxN := segment / 2
			if strings.HasSuffix(pt, "Destroy") {
				maxN = 4 // (destroys are rarer in the stream)
			}

			jb := job{marshaler: marshalers[(pi*nSelf+n+int(c.Seed))%len(marshalers)], seed: uint64(c.Seed)*1000 + 500 + uint64(pi*nSelf+n)}
			for cy := 0; cy < 2+rng.IntN(2); cy++ {
				jb.kills = append(jb.kills, [2]any{pt, (n + cy*3 + int(c.Seed)) % maxN})
			}

			jobs = append(jobs, jb)
		}
	}

	// death inside a bbolt commit: SIGKILL injected by the kernel-side tracer on entry to the n-th pwrite64 / fdatasync of a thread;
	// and a bbolt-internal rejection: the n-th pwrite64 fails with EIO (no death; the operation must fail and leave no trace)
	if _, err := exec.LookPath("strace"); err == nil {
		nTrace := c.N(2, 40)

		for _, kind := range []string{"STRACE-pwrite64", "STRACE-fdatasync", "STRACEERR-pwrite64"} {
			for n := 0; n < nTrace; n++ {
				jb := job{marshaler: marshalers[(n+int(c.Seed))%len(marshalers)], seed: uint64(c.Seed)*1000 + 800 + uint64(n)}
				for cy := 0; cy < 2; cy++ {
					jb.kills = append(jb.kills, [2]any{kind, (n*3 + cy*5 + int(c.Seed)) % 14})
				}

				jobs = append(jobs, jb)
			}
		}
	} else {
		c.Count("strace_unavailable", 1)
	}

	// the families are interleaved (seeded shuffle) so that each gets its share early; a wall-clock safety valve stops launching
	// new jobs late in the run on an overloaded machine (it only limits how much is explored - every job that runs is judged as usual)
	rng.Shuffle(len(jobs), func(i, j int) { jobs[i], jobs[j] = jobs[j], jobs[i] })

	began := time.Now()
	budget := time.Duration(c.N(6, 100)) * time.Minute

	var wg sync.WaitGroup

	sem := make(chan struct{}, 8)

	for ji, jb := range jobs {
		if time.Since(began) > budget {
			c.Count("crash_jobs_not_started_time_budget", len(jobs)-ji)

			break
		}

		wg.Add(1)
		sem <- struct{}{}

		go func() {
			defer wg.Done()
			defer func() { <-sem }()

			path := filepath.Join(dir, fmt.Sprintf("crash-%d.db", ji))
			defer os.Remove(path)

			model := map[string]val{}
			from := 0

			var history []string

			for cy, kl := range jb.kills {
				kind, off := kl[0].(string), kl[1].(int) //nolint:forcetypeassert

				killK := from + off
				if strings.HasPrefix(kind, "S") { // SELF-* / STRACE*: the n-th call of this process, 1-based
					killK = off + 1
				}

				// after a restart every other job lets the two worker goroutines be the first to touch the reopened store (cold start):
				// the file contents were verified by the read-only child at the end of the previous cycle
				cold := cy > 0 && ji%2 == 1

				run, err := runChild(path, jb.marshaler, jb.seed, from, segment, kind, killK, cold)
				if err == nil && run.race != "" {
					c.Violation("worker-data-race", map[string]any{"marshaler": jb.marshaler, "report": run.race, "history": history,
						"note": "the race detector stopped a crash worker: two goroutines writing through different collections into one backing store raced"})

					return
				}

				if err == nil && run.fatal != "" && strings.HasPrefix(kind, "STRACEERR-") && strings.Contains(run.fatal, "input/output error") {
					// the injected EIO hit bbolt while it opened (or initialised) the file: nothing was acknowledged; a file that was
					// being created is bbolt's business, so the job ends here
					c.Count("bbolt_internal_rejections_at_open", 1)

					return
				}

				if err != nil || run.fatal != "" {
					c.Violation("crash-worker-failed", map[string]any{"err": fmt.Sprint(err), "fatal": run.fatal, "history": history})

					return
				}

				if cold {
					c.Count("restarts_with_concurrent_first_access", 1)
				}

				// (a) what the fresh process recovered must equal the model (it was updated at the end of the previous cycle)
				if !cold && (cy > 0 || from == 0) {
					if !checkDump(c, run.dump, model, nil, jb.marshaler, history) {
						return
					}

					c.Count("restarts_checked", 1)
				}

				// (b) every acknowledged operation of this segment must match the model, in per-id order
				ks := make([]int, 0, len(run.intents))
				for k := range run.intents {
					ks = append(ks, k)
				}

				sort.Ints(ks)

				inflight := map[string]op{}

				for _, k := range ks {
					o := run.intents[k]
					a, acked := run.acks[k]

					if !acked {
						inflight[o.ID] = o

						continue
					}

					class, nv := predict(model, o)
					c.Count("acked_ops_checked", 1)

					if strings.HasPrefix(kind, "STRACEERR-") && strings.HasPrefix(a.Class, "other:") && class == "" {
						// bbolt rejected the commit (injected EIO): the operation failed, so it must have had no effect - the model
						// stays as it is and everything after it (later acks in this process, the dump after reopen) is judged against that
						c.Count("bbolt_internal_rejections", 1)

						continue
					}

					if a.Class != class {
						c.Violation("acknowledged-result-differs-from-model", map[string]any{"marshaler": jb.marshaler, "op": o, "ack": a, "predicted": class, "model": model[o.ID], "history": history})

						return
					}

					if class == "" {
						if o.Kind == "destroy" {
							delete(model, o.ID)
						} else {
							nv.Created, nv.Updated = a.Val.Created, a.Val.Updated
							nv.Annot, nv.Val, nv.S, nv.M = a.Val.Annot, a.Val.Val, a.Val.S, a.Val.M

							if !nv.same(*a.Val, false) {
								c.Violation("acknowledged-value-differs-from-model", map[string]any{"op": o, "ack": a.Val, "model": nv})

								return
							}

							if o.Kind == "update" && a.Val.Created != model[o.ID].Created {
								c.Violation("creation-time-not-kept", map[string]any{"op": o, "ack": a.Val, "before": model[o.ID]})
							}

							model[o.ID] = *a.Val
						}
					}
				}

				history = append(history, fmt.Sprintf("cycle %d: from %d kill at %s %d; acked %d, in flight %d", cy, from, kind, from+off, len(run.acks), len(inflight)))

				c.Count("kills", 1)

				switch {
				case strings.HasPrefix(kind, "SELF-") && run.signaled:
					c.Count("kills_at_exact_store_call_"+strings.TrimPrefix(kind, "SELF-"), 1)
				case strings.HasPrefix(kind, "STRACE-") && run.signaled:
					c.Count("kills_inside_bbolt_commit_"+strings.TrimPrefix(kind, "STRACE-"), 1)
				}

				if len(inflight) > 0 {
					c.Count("kills_with_inflight_op", 1)
				}

				// (c) reopen with a read-only child and compare, allowing each in-flight op to have taken effect or not
				re, err := runChild(path, jb.marshaler, jb.seed, 0, 0, "", -1)
				if err != nil || re.fatal != "" {
					c.Violation("reopen-after-crash-failed", map[string]any{"err": fmt.Sprint(err), "fatal": re.fatal, "marshaler": jb.marshaler, "history": history})

					return
				}

				if !checkDump(c, re.dump, model, inflight, jb.marshaler, history) {
					return
				}

				c.Count("restarts_checked", 1)
				c.Count("fields_compared", len(re.dump)*12)

				// adopt what is on disk for the ids that had an operation in flight
				for id := range inflight {
					if v, ok := re.dump[id]; ok {
						model[id] = v
					} else {
						delete(model, id)
					}
				}

				c.Case(vk.Hash("crash", jb.marshaler, kind, off, cy, ji), len(inflight) > 0)

				// next segment continues after the highest index handed out
				maxK := from
				for k := range run.intents {
					if k+1 > maxK {
						maxK = k + 1
					}
				}

				from = maxK + 2 // (indices possibly taken but not yet announced are skipped)
			}

			if ji < 3 {
				c.Sample(map[string]any{"mode": "crash", "marshaler": jb.marshaler, "history": history})
			}
		}()
	}

	wg.Wait()
}

func checkDump(c *vk.C, dump, model map[string]val, inflight map[string]op, marshaler string, history []string) bool {
	for _, id := range ids {
		got, has := dump[id]
		want, exp := model[id]

		okPlain := has == exp && (!has || got.same(want, true))
		if okPlain {
			continue
		}

		if o, ok := inflight[id]; ok {
			// the single in-flight operation on this id may have been committed
			class, nv := predict(model, o)
			if class == "" {
				if o.Kind == "destroy" && !has {
					continue
				}

				if nv != nil && has {
					nv.Created, nv.Updated = got.Created, got.Updated
					nv.Annot, nv.Val, nv.S, nv.M = got.Annot, got.Val, got.S, got.M

					createdOK := o.Kind == "create" || got.Created == want.Created
					if nv.same(got, false) && got.Token == o.Token && createdOK {
						continue
					}
				}
			}
		}

		c.Violation("state-after-crash-differs-from-acknowledged", map[string]any{"marshaler": marshaler, "id": id, "on_disk": dump[id], "present": has, "model": model[id], "expected_present": exp,
			"inflight": inflight[id], "history": history})

		return false
	}

	return true
}
