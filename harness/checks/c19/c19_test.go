//go:build verif

// C19: caller isolation - objects passed to / returned by the state never alias the store.
package c19

import (
	"context"
	"fmt"
	"maps"
	"math/rand/v2"
	"os"
	"reflect"
	"regexp"
	"slices"
	"sort"
	"strings"
	"sync"
	"testing"
	"testing/synctest"
	"time"

	"go.uber.org/zap"

	"github.com/cosi-project/runtime/pkg/controller/runtime"
	"github.com/cosi-project/runtime/pkg/controller/runtime/options"
	"go.yaml.in/yaml/v4"

	"github.com/cosi-project/runtime/pkg/resource"
	"github.com/cosi-project/runtime/pkg/resource/kvutils"
	"github.com/cosi-project/runtime/pkg/resource/meta"
	metaspec "github.com/cosi-project/runtime/pkg/resource/meta/spec"
	"github.com/cosi-project/runtime/pkg/state"
	"github.com/cosi-project/runtime/pkg/state/impl/inmem"
	"github.com/cosi-project/runtime/pkg/state/impl/namespaced"
	"github.com/cosi-project/runtime/pkg/state/protobuf/client"
	"github.com/cosi-project/runtime/pkg/state/protobuf/server"

	"verif/harness/lb"
	"verif/harness/res"
	"verif/harness/vk"
)

func TestMain(m *testing.M) {
	res.Register()
	os.Exit(m.Run())
}

// full is a complete value snapshot of a resource (everything observable through the public API).
type full struct {
	Ver, Owner, Phase string
	Fins              []string
	Labels, Annot     map[string]string
	Token             string
	Val               int64
	M                 map[string]string
	S                 []string
}

func snapshot(r resource.Resource) full {
	md := r.Metadata()
	f := full{Ver: md.Version().String(), Owner: md.Owner(), Phase: md.Phase().String(), Fins: slices.Clone([]string(*md.Finalizers())),
		Labels: maps.Clone(md.Labels().Raw()), Annot: maps.Clone(md.Annotations().Raw())}

	if sp := res.SpecOf(r); sp != nil {
		f.Token, f.Val, f.M, f.S = sp.Token, sp.Val, maps.Clone(sp.M), slices.Clone(sp.S)
	}

	return f
}

func (a full) equal(b full) bool {
	fa, fb := slices.Clone(a.Fins), slices.Clone(b.Fins)
	sort.Strings(fa)
	sort.Strings(fb)

	return a.Ver == b.Ver && a.Owner == b.Owner && a.Phase == b.Phase && slices.Equal(fa, fb) && maps.Equal(a.Labels, b.Labels) && maps.Equal(a.Annot, b.Annot) &&
		a.Token == b.Token && a.Val == b.Val && maps.Equal(a.M, b.M) && slices.Equal(a.S, b.S)
}

// exact is equal with the finalizers compared in order: for objects nobody was supposed to touch (an object in a reader's hands, one
// version of a stored resource) even the order must stay what it was.
func (a full) exact(b full) bool { return a.equal(b) && slices.Equal(a.Fins, b.Fins) }

// readOnly uses the comparing / printing part of the public API on an object the caller holds, against a variant of it whose
// finalizers are the same set in another order or differ in one element: none of this may change either object.
func readOnly(rng *rand.Rand, o resource.Resource) string {
	v := o.DeepCopy()
	fins := v.Metadata().Finalizers()

	if n := len(*fins); n > 0 {
		f := (*fins)[rng.IntN(n)]
		fins.Remove(f)

		if rng.IntN(2) == 0 {
			fins.Add(f) // same set, other order
		} else {
			fins.Add("other") // same length, other set
		}
	}

	before := snapshot(v)

	_ = resource.Equal(o, v)
	_ = resource.Equal(v, o)
	_ = o.Metadata().Equal(*v.Metadata())
	_ = o.Metadata().String()
	_, _ = resource.MarshalYAML(o)
	_ = o.Metadata().Finalizers().Has("other")

	if !snapshot(v).exact(before) {
		return "the compared variant was changed"
	}

	return ""
}

// scribble mutates an object the caller holds through the public metadata/spec API.
func scribble(rng *rand.Rand, r resource.Resource) string {
	md := r.Metadata()
	x := fmt.Sprintf("scribble%d", rng.IntN(1000))

	switch rng.IntN(14) {
	case 0:
		md.Labels().Set("l"+fmt.Sprint(rng.IntN(3)), x)

		return "labels.Set"
	case 1:
		md.Labels().Delete("l" + fmt.Sprint(rng.IntN(3)))

		return "labels.Delete"
	case 2:
		md.Labels().Do(func(t kvutils.TempKV) {
			t.Set("l0", x)
			t.Delete("l1")
		})

		return "labels.Do"
	case 3:
		md.Annotations().Set("a"+fmt.Sprint(rng.IntN(2)), x)

		return "annotations.Set"
	case 4:
		md.Annotations().Delete("a" + fmt.Sprint(rng.IntN(2)))

		return "annotations.Delete"
	case 5:
		md.Finalizers().Add(x)

		return "finalizers.Add"
	case 6:
		md.Finalizers().Remove("f" + fmt.Sprint(rng.IntN(3)))

		return "finalizers.Remove"
	case 7:
		md.Finalizers().Set(resource.Finalizers{x, "zz"})

		return "finalizers.Set"
	case 8:
		md.SetPhase(resource.PhaseTearingDown)

		return "SetPhase"
	case 9:
		md.SetVersion(md.Version().Next().Next())

		return "SetVersion"
	case 10:
		_ = md.SetOwner(x)

		return "SetOwner"
	case 11:
		if sp := res.SpecOf(r); sp != nil {
			sp.Token, sp.Val = x, sp.Val+100
		}

		return "spec scalars"
	case 12:
		if sp := res.SpecOf(r); sp != nil {
			if sp.M == nil {
				sp.M = map[string]string{}
			}

			sp.M["k"+fmt.Sprint(rng.IntN(3))] = x
			delete(sp.M, "k0")
		}

		return "spec map in place"
	default:
		if sp := res.SpecOf(r); sp != nil {
			if len(sp.S) > 0 {
				sp.S[rng.IntN(len(sp.S))] = x // in place: shares the backing array with any alias
			}

			sp.S = append(sp.S, x)
		}

		return "spec slice in place"
	}
}

func TestC19(t *testing.T) {
	vk.Run(t, "C19", "exploration", func(c *vk.C) {
		c.Rule("seeded sequences of Create / Update / Modify / UpdateWithConflicts / Get / List on direct inmem, namespaced, the runtime's cached state (kind cached) and the gRPC path " +
			"(client -> loopback -> server) interleaved with random mutations, through the public metadata/spec API (labels, annotations, finalizers, phase, version, owner, spec scalars, " +
			"spec map and slice in place), of EVERY object the caller passed in or got back; after each step fresh Get/List on every path and the resources held by an independent watch " +
			"replica are compared with a shadow model built from deep copies taken before the objects crossed the API. Plus metadata copy families (Remove-then-Add, Delete-then-Set, Do) " +
			"against per-copy models and concurrent readers of one copy while another is mutated under the race detector. distinct = (path, sequence) hash; non-trivial = the sequence held " +
			">= 3 aliases candidates (passed-in, returned by Get, returned by List) of one stored resource and scribbled on each")
		c.Assume("watch event objects are read-only for the receiver (the statement isolates objects passed to Create/Update/Modify and returned by Get/List)")
		c.Require("steps", "scribbles", "store_comparisons", "replica_comparisons", "paths_cached", "paths_remote", "metadata_copy_ops", "concurrent_copy_rounds")

		n := c.N(600, 60000)

		var wg sync.WaitGroup

		sem := make(chan struct{}, 16)

		for k := 0; k < n; k++ {
			wg.Add(1)
			sem <- struct{}{}

			go func() {
				defer wg.Done()
				defer func() { <-sem }()

				rng := rand.New(rand.NewPCG(uint64(c.Seed), uint64(k)))
				synctest.Test(t, func(*testing.T) { sequence(c, rng, k) })
				copies(c, rand.New(rand.NewPCG(uint64(c.Seed), uint64(9_000_000+k))), k)
			}()
		}

		wg.Wait()

		concurrentCopies(c)
		builtinKinds(c)
		protoSpecs(c)
	})
}

// builtinKinds: the resource kinds the repository itself defines (meta.ResourceDefinition, meta.Namespace) have hand-written spec
// copies; a generic (reflection) scribbler overwrites every string, slice element and map entry of a copy's spec in place, and the
// original / the stored value / the other readers' objects must not move. Rendered through YAML for comparison.
func builtinKinds(c *vk.C) {
	rng := c.Rand(19_019)

	mk := func(i int) []resource.Resource {
		rd, err := meta.NewResourceDefinition(metaspec.ResourceDefinitionSpec{
			Type: fmt.Sprintf("%sThings.c19.verif.cosi.dev", []string{"Red", "Blue", "Green"}[i%3]), DisplayType: "Kind", DefaultNamespace: "ns",
			Aliases:      []string{"al1", "al2", "al3"}[:1+rng.IntN(3)],
			PrintColumns: []metaspec.PrintColumn{{Name: "col", JSONPath: "{.x}"}, {Name: "col2", JSONPath: "{.y}"}}[:rng.IntN(3)],
			Sensitivity:  metaspec.NonSensitive,
		})
		if err != nil {
			c.Violation("builtin-kind-setup-failed", err.Error())

			return nil
		}

		return []resource.Resource{rd, meta.NewNamespace(fmt.Sprintf("ns%d", i), meta.NamespaceSpec{Description: "a namespace"})}
	}

	render := func(r resource.Resource) string {
		out, err := resource.MarshalYAML(r)
		if err != nil {
			return "marshal error: " + err.Error()
		}

		b, err := yaml.Marshal(out)
		if err != nil {
			return "yaml error: " + err.Error()
		}

		return string(b)
	}

	for i := 0; i < c.N(40, 2000); i++ {
		for _, orig := range mk(i) {
			before := render(orig)
			what := orig.Metadata().Type()

			// 1. DeepCopy
			cp := orig.DeepCopy()
			scribbleSpec(cp.Spec())
			c.Count("builtin_kind_copies_scribbled", 1)

			if now := render(orig); now != before {
				c.Violation("builtin-resource-deepcopy-shares-spec", map[string]any{"type": what, "before": before, "after_scribbling_on_the_copy": now})

				return
			}

			// 2. through the store: the object passed to Create, the objects returned by Get / List
			st := inmem.NewState(orig.Metadata().Namespace())
			ctx := context.Background()
			in := orig.DeepCopy()

			if err := st.Create(ctx, in); err != nil {
				c.Violation("builtin-kind-setup-failed", err.Error())

				return
			}

			stored, _ := st.Get(ctx, orig.Metadata())
			storedBefore := render(stored)

			scribbleSpec(in.Spec())

			got, _ := st.Get(ctx, orig.Metadata())
			scribbleSpec(got.Spec())

			if l, err := st.List(ctx, resource.NewMetadata(orig.Metadata().Namespace(), orig.Metadata().Type(), "", resource.VersionUndefined)); err == nil {
				for _, it := range l.Items {
					scribbleSpec(it.Spec())
				}
			}

			again, _ := st.Get(ctx, orig.Metadata())
			if now := render(again); now != storedBefore {
				c.Violation("store-changed-by-caller-mutation", map[string]any{"type": what, "path": "inmem (built-in kind)", "before": storedBefore, "after": now})

				return
			}

			c.Count("store_comparisons", 1)
		}
	}
}

// scribbleSpec overwrites, in place, everything reachable from a spec value: strings, slice elements, map entries, numbers.
func scribbleSpec(spec any) {
	var walk func(v reflect.Value, depth int)

	walk = func(v reflect.Value, depth int) {
		if depth > 6 || !v.IsValid() {
			return
		}

		switch v.Kind() {
		case reflect.Pointer, reflect.Interface:
			if !v.IsNil() {
				walk(v.Elem(), depth+1)
			}
		case reflect.Struct:
			for i := 0; i < v.NumField(); i++ {
				if f := v.Field(i); f.CanSet() || f.Kind() == reflect.Slice || f.Kind() == reflect.Map || f.Kind() == reflect.Pointer {
					walk(f, depth+1)
				}
			}
		case reflect.Slice:
			for i := 0; i < v.Len(); i++ {
				walk(v.Index(i), depth+1) // (elements of a slice are addressable even when the slice header is not)
			}
		case reflect.Map:
			if v.Type().Key().Kind() == reflect.String && v.Type().Elem().Kind() == reflect.String {
				for _, k := range v.MapKeys() {
					v.SetMapIndex(k, reflect.ValueOf("scribbled").Convert(v.Type().Elem()))
				}
			}
		case reflect.String:
			if v.CanSet() {
				v.SetString("scribbled")
			}
		case reflect.Int, reflect.Int32, reflect.Int64:
			if v.CanSet() {
				v.SetInt(v.Int() + 1)
			}
		}
	}

	walk(reflect.ValueOf(spec), 0)
}

func sequence(c *vk.C, rng *rand.Rand, k int) {
	ctx, cancel := context.WithCancel(context.Background())

	path := []string{"inmem", "namespaced", "cached", "remote"}[k%4]

	var (
		backing state.CoreState = inmem.NewState("ns")
		st      state.State
		runDone chan struct{}
	)

	switch path {
	case "inmem":
		st = state.WrapCore(backing)
	case "namespaced":
		backing = namespaced.NewState(inmem.Build)
		st = state.WrapCore(backing)
	case "cached":
		rt, err := runtime.NewRuntime(state.WrapCore(backing), zap.NewNop(), options.WithCachedResource("ns", res.TypeA), options.WithMetrics(false))
		if err != nil {
			c.Violation("runtime-setup-failed", err.Error())

			return
		}

		runDone = make(chan struct{})

		go func() {
			defer close(runDone)

			_ = rt.Run(ctx)
		}()

		st = state.WrapCore(rt.CachedState())
		c.Count("paths_cached", 1)
	case "remote":
		st = state.WrapCore(client.NewAdapter(lb.New(server.NewState(backing))))
		c.Count("paths_remote", 1)
	}

	defer func() {
		cancel()

		if runDone != nil {
			<-runDone
		}

		synctest.Wait()
	}()

	settle := func() {
		synctest.Wait()

		if path == "cached" {
			time.Sleep(time.Millisecond)
			synctest.Wait()
		}
	}

	kind := resource.NewMetadata("ns", res.TypeA, "", resource.VersionUndefined)

	// an independent watch replica on the backing state: its objects must never change after delivery
	type held struct {
		r    resource.Resource
		snap full
	}

	var (
		replica   []held
		replicaCh = make(chan state.Event, 4096)
	)

	if err := backing.WatchKind(ctx, kind, replicaCh); err != nil {
		c.Violation("watch-failed", err.Error())

		return
	}

	shadow := map[string]full{}    // what the store must contain
	orderSeen := map[string]full{} // id@version -> first read of that version (destroy resets: versions restart)
	ids := []string{"x", "y"}

	var (
		heldObjs []resource.Resource // everything the caller ever passed in or got back
		trace    []string
	)

	aliasKinds := map[string]map[string]bool{}
	note := func(id, kindName string) {
		if aliasKinds[id] == nil {
			aliasKinds[id] = map[string]bool{}
		}

		aliasKinds[id][kindName] = true
	}

	fail := func(sig string, detail map[string]any) {
		detail["path"] = path
		detail["trace"] = trace
		c.Violation(sig, detail)
	}

	steps := 15 + rng.IntN(25)

	for s := 0; s < steps; s++ {
		id := ids[rng.IntN(len(ids))]
		ptr := resource.NewMetadata("ns", res.TypeA, id, resource.VersionUndefined)
		tok := fmt.Sprintf("t%d", s)

		mkSpec := func(r resource.Resource) {
			sp := res.SpecOf(r)
			sp.Token, sp.Val = tok, int64(s)
			sp.M = map[string]string{"k0": tok, "k1": "v"}
			sp.S = append(make([]string, 0, 8), tok, "s1") // spare capacity on purpose
			r.Metadata().Labels().Set("l0", tok)
			r.Metadata().Labels().Set("l1", "keep")
			r.Metadata().Annotations().Set("a0", tok)
		}

		switch op := rng.IntN(8); op {
		case 0, 1:
			r := res.NewA("ns", id)
			mkSpec(r)
			// 2-4 finalizers, not in sorted order
			for _, f := range [][]string{{"f0", "f1"}, {"f3", "f0", "f1"}, {"f1", "f4", "f0", "f3"}, {"f4", "f1"}}[rng.IntN(4)] {
				r.Metadata().Finalizers().Add(f)
			}

			err := st.Create(ctx, r)
			trace = append(trace, fmt.Sprintf("create %s err=%v", id, err != nil))

			if err == nil {
				shadow[id] = snapshot(r)
			}

			heldObjs = append(heldObjs, r)

			note(id, "passed-to-create")
		case 2:
			got, err := st.Get(ctx, ptr)
			trace = append(trace, fmt.Sprintf("get %s err=%v", id, err != nil))

			if err == nil {
				heldObjs = append(heldObjs, got)

				note(id, "returned-by-get")
			}
		case 3:
			// plain and selector-filtered lists (filtered reads take their own code path in caches and wrappers); the selectors match
			// everything or a subset - isolation must hold for whatever comes back
			var lopts []state.ListOption

			switch rng.IntN(4) {
			case 1:
				lopts = append(lopts, state.WithIDQuery(resource.IDRegexpMatch(regexp.MustCompile("."))))
			case 2:
				lopts = append(lopts, state.WithLabelQuery(resource.LabelExists("no-such-label", resource.NotMatches)))
			case 3:
				lopts = append(lopts, state.WithLabelQuery(resource.LabelExists("no-such-label", resource.NotMatches)), state.WithIDQuery(resource.IDRegexpMatch(regexp.MustCompile("^[a-z0-9]"))))
			}

			list, err := st.List(ctx, kind, lopts...)
			trace = append(trace, fmt.Sprintf("list(%d selector options) err=%v n=%d", len(lopts), err != nil, len(list.Items)))

			for _, it := range list.Items {
				heldObjs = append(heldObjs, it)

				note(it.Metadata().ID(), "returned-by-list")
			}
		case 4:
			// update built from a fresh read of the backing state (so that it succeeds), then kept and scribbled on
			cur, err := backing.Get(ctx, ptr)
			if err != nil {
				continue
			}

			mkSpec(cur)
			cur.Metadata().Finalizers().Remove("f1")
			cur.Metadata().Finalizers().Add("f2")

			err = st.Update(ctx, cur, state.WithUpdateOwner(cur.Metadata().Owner()), state.WithExpectedPhaseAny())
			trace = append(trace, fmt.Sprintf("update %s err=%v", id, err != nil))

			if err == nil {
				shadow[id] = snapshot(cur)
			}

			heldObjs = append(heldObjs, cur)

			note(id, "passed-to-update")
		case 5:
			var inner resource.Resource

			out, err := st.ModifyWithResult(ctx, res.NewA("ns", id), func(r resource.Resource) error {
				mkSpec(r)
				inner = r

				return nil
			}, state.WithExpectedPhaseAny())
			trace = append(trace, fmt.Sprintf("modify %s err=%v", id, err != nil))

			if err == nil {
				shadow[id] = snapshot(out)
				heldObjs = append(heldObjs, out)
			}

			if inner != nil {
				heldObjs = append(heldObjs, inner)
			}

			note(id, "passed-to-modify")
		case 6:
			var inner resource.Resource

			out, err := st.UpdateWithConflicts(ctx, ptr, func(r resource.Resource) error {
				mkSpec(r)
				inner = r

				return nil
			}, state.WithExpectedPhaseAny())
			trace = append(trace, fmt.Sprintf("uwc %s err=%v", id, err != nil))

			if err == nil {
				shadow[id] = snapshot(out)
				heldObjs = append(heldObjs, out)
			}

			if inner != nil {
				heldObjs = append(heldObjs, inner)
			}
		case 7:
			cur, err := backing.Get(ctx, ptr)
			if err == nil && len(*cur.Metadata().Finalizers()) > 0 {
				_ = backing.(state.CoreState) //nolint:gosimple
				_, err = state.WrapCore(backing).UpdateWithConflicts(ctx, ptr, func(r resource.Resource) error {
					r.Metadata().Finalizers().Set(nil)

					return nil
				}, state.WithExpectedPhaseAny(), state.WithUpdateOwner(cur.Metadata().Owner()))
				if err == nil {
					if got, gerr := backing.Get(ctx, ptr); gerr == nil {
						shadow[id] = snapshot(got)
					}
				}
			}

			if err := st.Destroy(ctx, ptr); err == nil {
				delete(shadow, id)

				for vkey := range orderSeen {
					if strings.HasPrefix(vkey, id+"@") {
						delete(orderSeen, vkey)
					}
				}

				trace = append(trace, "destroy "+id)
			}
		}

		// objects delivered by watches are "returned by the state" too: every few steps a short-lived watch (single-resource: its
		// initial event; kind: bootstrap contents, then whatever arrives; through the path under test) hands its event objects
		// (Resource and Old) to the scribbler
		if s%3 == 2 {
			wctx, wcancel := context.WithCancel(ctx)
			wch := make(chan state.Event, 256)

			var werr error

			if rng.IntN(2) == 0 {
				werr = st.Watch(wctx, ptr, wch)
			} else {
				werr = st.WatchKind(wctx, kind, wch, state.WithBootstrapContents(true))
			}

			if werr == nil {
				settle()

				for more := true; more; {
					select {
					case ev := <-wch:
						for _, r := range []resource.Resource{ev.Resource, ev.Old} {
							if r != nil && !resource.IsTombstone(r) {
								heldObjs = append(heldObjs, r)
								c.Count("watch_event_objects_held", 1)
							}
						}
					default:
						more = false
					}
				}
			}

			wcancel()
		}

		settle()

		// collect replica events (held, never mutated by us)
		for more := true; more; {
			select {
			case ev := <-replicaCh:
				if ev.Resource != nil && !resource.IsTombstone(ev.Resource) {
					replica = append(replica, held{ev.Resource, snapshot(ev.Resource)})
				}

				if ev.Old != nil && !resource.IsTombstone(ev.Old) {
					replica = append(replica, held{ev.Old, snapshot(ev.Old)})
				}
			default:
				more = false
			}
		}

		// the caller compares / prints what it holds: reading must not change anything, neither the object nor (below) the store
		for oi, o := range heldObjs {
			if rng.IntN(3) == 0 {
				before := snapshot(o)

				var what string

				p, _ := vk.Try(func() { what = readOnly(rng, o) })
				if p != nil {
					fail("metadata-api-panicked", map[string]any{"panic": fmt.Sprint(p), "api": "Equal/String/MarshalYAML"})

					return
				}

				if now := snapshot(o); what != "" || !now.exact(before) {
					fail("object-changed-by-read-only-api", map[string]any{"held_object": oi, "before": before, "now": now, "note": what})

					return
				}

				c.Count("read_only_api_uses", 1)
			}
		}

		// the caller scribbles on everything it holds
		var did []string

		for _, o := range heldObjs {
			if rng.IntN(3) != 0 {
				p, _ := vk.Try(func() { did = append(did, scribble(rng, o)) })
				if p != nil {
					fail("metadata-api-panicked", map[string]any{"panic": fmt.Sprint(p)})

					return
				}

				c.Count("scribbles", 1)
			}
		}

		trace = append(trace, fmt.Sprintf("  scribbled %d held objects (%v)", len(did), did[:min(4, len(did))]))

		settle()

		// fresh reads must still show the shadow
		for _, id := range ids {
			got, err := st.Get(ctx, resource.NewMetadata("ns", res.TypeA, id, resource.VersionUndefined))
			want, exists := shadow[id]

			c.Count("store_comparisons", 1)

			switch {
			case err != nil && exists:
				fail("store-lost-resource", map[string]any{"id": id, "err": err.Error()})

				return
			case err == nil && !exists:
				fail("store-has-unexpected-resource", map[string]any{"id": id})

				return
			case err == nil && !snapshot(got).equal(want):
				fail("store-changed-by-caller-mutation", map[string]any{"id": id, "read": "Get", "store_now": snapshot(got), "expected": want})

				return
			case err == nil:
				// one version of a stored resource always reads the same, finalizer order included
				now := snapshot(got)
				vkey := id + "@" + now.Ver

				if first, seen := orderSeen[vkey]; seen && !now.exact(first) {
					fail("store-changed-by-caller-mutation", map[string]any{"id": id, "read": "Get", "store_now": now, "same_version_read_earlier": first, "note": "finalizer order of one stored version changed"})

					return
				}

				orderSeen[vkey] = now
			}
		}

		list, err := st.List(ctx, kind)
		if err == nil {
			if len(list.Items) != len(shadow) {
				fail("store-changed-by-caller-mutation", map[string]any{"read": "List", "items": len(list.Items), "expected": len(shadow)})

				return
			}

			for _, it := range list.Items {
				if want, ok := shadow[it.Metadata().ID()]; !ok || !snapshot(it).equal(want) {
					fail("store-changed-by-caller-mutation", map[string]any{"id": it.Metadata().ID(), "read": "List", "store_now": snapshot(it), "expected": want})

					return
				}
			}
		}

		for i, h := range replica {
			c.Count("replica_comparisons", 1)

			if !snapshot(h.r).exact(h.snap) {
				fail("watcher-object-changed-by-caller-mutation", map[string]any{"event_object": i, "now": snapshot(h.r), "at_delivery": h.snap})

				return
			}
		}
	}

	rich := false

	for _, ks := range aliasKinds {
		if len(ks) >= 3 {
			rich = true
		}
	}

	c.Count("steps", steps)
	c.Case(vk.Hash(path, trace), rich)

	if k < 4 {
		c.Sample(map[string]any{"path": path, "trace": trace[:min(12, len(trace))]})
	}
}

// ---- metadata copy families -------------------------------------------------------------------------------------------

type mdModel struct {
	labels, annot map[string]string
	fins          []string
}

func copies(c *vk.C, rng *rand.Rand, k int) {
	base := resource.NewMetadata("ns", res.TypeA, "x", resource.VersionUndefined)
	base.Labels().Set("l0", "v0")
	base.Labels().Set("l1", "v1")
	base.Annotations().Set("a0", "w0")

	for _, f := range []string{"f0", "f1", "f2"} {
		base.Finalizers().Add(f)
	}

	mds := []*resource.Metadata{&base}
	models := []*mdModel{{labels: map[string]string{"l0": "v0", "l1": "v1"}, annot: map[string]string{"a0": "w0"}, fins: []string{"f0", "f1", "f2"}}}

	var trace []string

	for s := 0; s < 30+rng.IntN(30); s++ {
		i := rng.IntN(len(mds))
		md, m := mds[i], models[i]
		x := fmt.Sprintf("x%d", s)

		c.Count("metadata_copy_ops", 1)

		switch rng.IntN(10) {
		case 0:
			if len(mds) < 6 {
				cp := md.Copy() // struct copy: shares maps and the finalizer backing array until written
				mds = append(mds, &cp)
				models = append(models, &mdModel{labels: maps.Clone(m.labels), annot: maps.Clone(m.annot), fins: slices.Clone(m.fins)})
				trace = append(trace, fmt.Sprintf("copy %d -> %d", i, len(mds)-1))
			}
		case 1:
			if len(m.fins) > 0 {
				f := m.fins[rng.IntN(len(m.fins))]
				md.Finalizers().Remove(f)
				m.fins = slices.DeleteFunc(m.fins, func(g string) bool { return g == f })
				trace = append(trace, fmt.Sprintf("%d: fins.Remove(%s)", i, f))
			}
		case 2:
			md.Finalizers().Add(x)

			if !slices.Contains(m.fins, x) {
				m.fins = append(m.fins, x)
			}

			trace = append(trace, fmt.Sprintf("%d: fins.Add(%s)", i, x))
		case 3:
			k := fmt.Sprintf("l%d", rng.IntN(3))
			md.Labels().Set(k, x)
			m.labels[k] = x
			trace = append(trace, fmt.Sprintf("%d: labels.Set(%s)", i, k))
		case 4:
			k := fmt.Sprintf("l%d", rng.IntN(3))
			md.Labels().Delete(k)
			delete(m.labels, k)
			trace = append(trace, fmt.Sprintf("%d: labels.Delete(%s)", i, k))
		case 5:
			md.Labels().Do(func(t kvutils.TempKV) {
				t.Delete("l0")
				t.Set("l2", x)
			})

			delete(m.labels, "l0")
			m.labels["l2"] = x
			trace = append(trace, fmt.Sprintf("%d: labels.Do", i))
		case 6:
			md.Annotations().Set("a1", x)
			m.annot["a1"] = x
			trace = append(trace, fmt.Sprintf("%d: annotations.Set", i))
		case 7:
			md.Annotations().Delete("a0")
			delete(m.annot, "a0")
			trace = append(trace, fmt.Sprintf("%d: annotations.Delete", i))
		case 8:
			md.Annotations().Do(func(t kvutils.TempKV) { t.Set("a2", x) })
			m.annot["a2"] = x
			trace = append(trace, fmt.Sprintf("%d: annotations.Do", i))
		case 9:
			md.Finalizers().Set(resource.Finalizers{x})
			m.fins = []string{x}
			trace = append(trace, fmt.Sprintf("%d: fins.Set", i))
		}

		// every copy must equal its own model
		for j := range mds {
			got := mdModel{labels: mds[j].Labels().Raw(), annot: mds[j].Annotations().Raw(), fins: []string(*mds[j].Finalizers())}
			fa, fb := slices.Clone(got.fins), slices.Clone(models[j].fins)
			sort.Strings(fa)
			sort.Strings(fb)

			if !eqMap(got.labels, models[j].labels) || !eqMap(got.annot, models[j].annot) || !slices.Equal(fa, fb) {
				c.Violation("metadata-copies-not-independent", map[string]any{"copy": j, "after": trace[len(trace)-1], "labels": got.labels, "want_labels": models[j].labels,
					"annotations": got.annot, "want_annotations": models[j].annot, "finalizers": got.fins, "want_finalizers": models[j].fins, "trace": trace})

				return
			}
		}
	}

	c.Case(vk.Hash("copies", trace), len(mds) >= 3)
}

func eqMap(a, b map[string]string) bool {
	if len(a) == 0 && len(b) == 0 {
		return true
	}

	return maps.Equal(a, b)
}

// concurrentCopies: readers of one metadata copy while other copies are mutated (any shared write is a data race -> the child dies).
func concurrentCopies(c *vk.C) {
	rounds := c.N(200, 5000)

	for r := 0; r < rounds; r++ {
		base := resource.NewMetadata("ns", res.TypeA, "x", resource.VersionUndefined)
		base.Labels().Set("l0", "v0")
		base.Annotations().Set("a0", "w0")

		f := make(resource.Finalizers, 0, 8)
		f = append(f, "f0", "f1", "f2")
		base.Finalizers().Set(f)

		reader := base.Copy()
		writers := []resource.Metadata{base.Copy(), base.Copy()}

		var wg sync.WaitGroup

		wg.Add(1)

		go func() {
			defer wg.Done()

			for i := 0; i < 50; i++ {
				_ = reader.Finalizers().Has("f1")
				_, _ = reader.Labels().Get("l0")
				_ = len(reader.Annotations().Raw())
				_ = reader.String()
			}
		}()

		for wi := range writers {
			wg.Add(1)

			go func() {
				defer wg.Done()

				w := &writers[wi]

				for i := 0; i < 20; i++ {
					w.Finalizers().Remove("f1")
					w.Finalizers().Add(fmt.Sprintf("g%d", i))
					w.Labels().Set("l0", fmt.Sprint(i))
					w.Labels().Delete("l0")
					w.Annotations().Do(func(t kvutils.TempKV) { t.Set("a0", fmt.Sprint(i)) })
				}
			}()
		}

		wg.Wait()

		if got, _ := reader.Labels().Get("l0"); got != "v0" || !slices.Equal([]string(*reader.Finalizers()), []string{"f0", "f1", "f2"}) {
			c.Violation("metadata-copies-not-independent", map[string]any{"mode": "concurrent", "reader_labels": reader.Labels().Raw(), "reader_finalizers": []string(*reader.Finalizers())})
		}

		c.Count("concurrent_copy_rounds", 1)
	}
}
