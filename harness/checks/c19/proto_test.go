//go:build verif

package c19

import (
	"context"
	"fmt"
	"math/rand/v2"

	"google.golang.org/protobuf/encoding/prototext"

	"github.com/cosi-project/runtime/api/v1alpha1"
	"github.com/cosi-project/runtime/pkg/resource"
	"github.com/cosi-project/runtime/pkg/resource/meta"
	"github.com/cosi-project/runtime/pkg/resource/protobuf"
	"github.com/cosi-project/runtime/pkg/resource/typed"
	"github.com/cosi-project/runtime/pkg/state"
	"github.com/cosi-project/runtime/pkg/state/impl/inmem"
	"github.com/cosi-project/runtime/pkg/state/impl/namespaced"

	"verif/harness/vk"
)

// A resource kind whose spec is a protobuf message wrapped in protobuf.ResourceSpec (the way protobuf-backed resources are declared):
// specs that are nil-valued, set but empty (all defaults), and filled.
type pSpec = protobuf.ResourceSpec[v1alpha1.Metadata, *v1alpha1.Metadata]

type pExt struct{}

func (pExt) ResourceDefinition() meta.ResourceDefinitionSpec {
	return meta.ResourceDefinitionSpec{Type: "Ps.verif.cosi.dev", DefaultNamespace: "ns"}
}

type pRes = typed.Resource[pSpec, pExt]

func newP(id string, shape int, tok string) *pRes {
	var v *v1alpha1.Metadata

	switch shape % 3 {
	case 0:
		v = &v1alpha1.Metadata{} // set, all defaults
	case 1:
		v = &v1alpha1.Metadata{Namespace: tok, Labels: map[string]string{"k": tok}, Finalizers: []string{tok, "f"}}
	case 2:
		v = &v1alpha1.Metadata{Labels: map[string]string{}, Finalizers: []string{}} // set, empty containers
	}

	return typed.NewResource[pSpec, pExt](resource.NewMetadata("ns", "Ps.verif.cosi.dev", id, resource.VersionUndefined), pSpec{Value: v})
}

func renderP(r resource.Resource) string {
	p, ok := r.(*pRes)
	if !ok || p.TypedSpec().Value == nil {
		return fmt.Sprintf("%T <no value>", r)
	}

	return prototext.MarshalOptions{Multiline: false}.Format(p.TypedSpec().Value) + " v" + r.Metadata().Version().String()
}

// scribbleP changes the message a caller holds, in place.
func scribbleP(r resource.Resource, x string) {
	p, ok := r.(*pRes)
	if !ok || p.TypedSpec().Value == nil {
		return
	}

	v := p.TypedSpec().Value
	v.Namespace, v.Owner = x, x

	if v.Labels == nil {
		v.Labels = map[string]string{}
	}

	v.Labels["scribbled"] = x
	v.Finalizers = append(v.Finalizers, x)

	if len(v.Finalizers) > 1 {
		v.Finalizers[0] = x
	}
}

func protoSpecs(c *vk.C) {
	ctx := context.Background()

	for k := 0; k < c.N(150, 6000); k++ {
		rng := rand.New(rand.NewPCG(uint64(c.Seed), uint64(60_000+k)))

		var st state.CoreState = inmem.NewState("ns")
		if k%2 == 1 {
			st = namespaced.NewState(inmem.Build)
		}

		wch := make(chan state.Event, 256)
		wctx, wcancel := context.WithCancel(ctx)

		if err := st.WatchKind(wctx, resource.NewMetadata("ns", "Ps.verif.cosi.dev", "", resource.VersionUndefined), wch); err != nil {
			wcancel()
			c.Violation("watch-failed", err.Error())

			return
		}

		var (
			held    []resource.Resource
			watched [][2]any // event object, its rendering at delivery
			trace   []string
			shadow  = map[string]string{}
		)

		fail := func(sig string, d map[string]any) {
			d["trace"] = trace
			d["path"] = map[bool]string{false: "inmem (protobuf spec)", true: "namespaced (protobuf spec)"}[k%2 == 1]
			c.Violation(sig, d)
		}

		ok := true

		for s := 0; s < 12 && ok; s++ {
			id := []string{"p", "q"}[rng.IntN(2)]
			ptr := resource.NewMetadata("ns", "Ps.verif.cosi.dev", id, resource.VersionUndefined)
			shape, tok := rng.IntN(3), fmt.Sprintf("t%d", s)

			switch rng.IntN(4) {
			case 0, 1:
				r := newP(id, shape, tok)
				if err := st.Create(ctx, r); err == nil {
					shadow[id] = renderP(r.DeepCopy())
					trace = append(trace, fmt.Sprintf("create %s shape%d", id, shape))
				}

				held = append(held, r)
			case 2:
				cur, err := st.Get(ctx, ptr)
				if err != nil {
					continue
				}

				nr := newP(id, shape, tok)
				nr.Metadata().SetVersion(cur.Metadata().Version())

				if err := st.Update(ctx, nr); err == nil {
					shadow[id] = renderP(nr.DeepCopy())
					trace = append(trace, fmt.Sprintf("update %s shape%d", id, shape))
				}

				held = append(held, nr, cur)
			case 3:
				if err := st.Destroy(ctx, ptr); err == nil {
					delete(shadow, id)
					trace = append(trace, "destroy "+id)
				}
			}

			// what reads and watchers hand out is held too
			for _, x := range []string{"p", "q"} {
				if got, err := st.Get(ctx, resource.NewMetadata("ns", "Ps.verif.cosi.dev", x, resource.VersionUndefined)); err == nil {
					held = append(held, got)
				}
			}

			if l, err := st.List(ctx, resource.NewMetadata("ns", "Ps.verif.cosi.dev", "", resource.VersionUndefined)); err == nil {
				held = append(held, l.Items...)
			}

			// (live watch event objects are read-only for their receiver - the statement isolates what is passed to Create/Update/Modify
			// and returned by Get/List -, so they are drained, compared at the end of the step, and not scribbled on)
			for more := true; more; {
				select {
				case ev := <-wch:
					if ev.Resource != nil && !resource.IsTombstone(ev.Resource) {
						watched = append(watched, [2]any{ev.Resource, renderP(ev.Resource)})
					}
				default:
					more = false
				}
			}

			// the caller changes everything it holds; copies of copies first, then the objects themselves
			for i, h := range held {
				if rng.IntN(2) == 0 {
					cp := h.DeepCopy()
					before := renderP(h)

					scribbleP(cp, fmt.Sprintf("copy%d", i))

					if now := renderP(h); now != before {
						fail("deepcopy-shares-spec", map[string]any{"before": before, "after_scribbling_on_the_copy": now})

						ok = false

						break
					}
				}

				scribbleP(h, fmt.Sprintf("s%d-%d", s, i))
				c.Count("proto_spec_scribbles", 1)
			}

			for _, we := range watched {
				if now := renderP(we[0].(resource.Resource)); now != we[1].(string) { //nolint:forcetypeassert
					fail("watcher-object-changed-by-caller-mutation", map[string]any{"now": now, "at_delivery": we[1]})

					ok = false
				}
			}

			for _, x := range []string{"p", "q"} {
				got, err := st.Get(ctx, resource.NewMetadata("ns", "Ps.verif.cosi.dev", x, resource.VersionUndefined))
				want, exists := shadow[x]

				c.Count("store_comparisons", 1)

				switch {
				case err != nil && exists:
					fail("store-lost-resource", map[string]any{"id": x, "err": err.Error()})

					ok = false
				case err == nil && !exists:
					fail("store-has-unexpected-resource", map[string]any{"id": x})

					ok = false
				case err == nil && renderP(got) != want:
					fail("store-changed-by-caller-mutation", map[string]any{"id": x, "store_now": renderP(got), "expected": want})

					ok = false
				}
			}
		}

		wcancel()
		c.Case(vk.Hash("proto-spec", k, trace), len(trace) > 3)
	}

}
