//go:build verif

// C12: bookmarks resume exactly; stale/foreign bookmarks rejected; tails exact.
package c12

import (
	"context"
	"encoding/binary"
	"encoding/hex"
	"fmt"
	"math/rand/v2"
	"os"
	"os/exec"
	"regexp"
	"strings"
	"sync"
	"testing"
	"testing/synctest"

	"github.com/cosi-project/runtime/pkg/resource"
	"github.com/cosi-project/runtime/pkg/state"
	"github.com/cosi-project/runtime/pkg/state/impl/inmem"

	"github.com/cosi-project/runtime/pkg/state/protobuf/client"
	"github.com/cosi-project/runtime/pkg/state/protobuf/server"

	"verif/harness/lb"
	"verif/harness/res"
	"verif/harness/vk"
	"verif/harness/wl"
)

var configs = []wl.Cfg{{2, 2, 0}, {2, 8, 1}, {3, 7, 1}, {4, 16, 2}, {8, 8, 3}, {5, 64, 2}, {100, 100, 5}, {6, 6, 0}}

func TestMain(m *testing.M) {
	res.Register()

	if os.Getenv("VERIF_CHILD") == "mint" {
		mint()

		return
	}

	os.Exit(m.Run())
}

// mint prints bookmarks produced by this (other) process incarnation.
func mint() {
	ctx, cancel := context.WithCancel(context.Background())
	defer cancel()

	st := inmem.NewState("ns")
	w := wl.NewWorld(st, "ns", res.TypeA, "m")
	ch := make(chan state.Event, 16)

	if err := st.WatchKind(ctx, resource.NewMetadata("ns", res.TypeA, "", resource.VersionUndefined), ch); err != nil {
		panic(err)
	}

	for i := 0; i < 6; i++ {
		if _, err := w.Write(ctx, wl.OpCreate, fmt.Sprintf("m%d", i), nil); err != nil {
			panic(err)
		}

		ev := <-ch
		fmt.Println("BOOKMARK", hex.EncodeToString(ev.Bookmark))
	}
}

func foreignBookmarks(c *vk.C) []state.Bookmark {
	var out []state.Bookmark

	for i := 0; i < 2; i++ {
		cmd := exec.Command(os.Args[0], "-test.run", "^$")
		cmd.Env = append(os.Environ(), "VERIF_CHILD=mint")

		b, err := cmd.Output()
		if err != nil {
			c.Inconclusive("mint child failed: " + err.Error())

			return out
		}

		for _, line := range strings.Split(string(b), "\n") {
			if rest, ok := strings.CutPrefix(line, "BOOKMARK "); ok {
				if bm, err := hex.DecodeString(strings.TrimSpace(rest)); err == nil {
					out = append(out, bm)
				}
			}
		}
	}

	return out
}

func TestC12(t *testing.T) {
	vk.Run(t, "C12", "exploration", func(c *vk.C) {
		c.Rule("seeded scripts in a synctest bubble over small ring configurations (gap < initial <= max): every step may restart a watch (single/kind/aggregated) " +
			"from the bookmark of a delivered event chosen around the acceptance boundaries, request a tail of N events (N around initial-gap / max-gap), or present a " +
			"malformed / truncated / extended / bit-flipped / other-process / ahead-of-log bookmark. distinct = (config, script trace) hash; non-trivial = at least one resume " +
			"was judged in the must-accept window and one bookmark was rejected after the ring wrapped or grew")
		c.Assume("acceptance is only required for the most recent (initial-gap) events and only forbidden for malformed/foreign/ahead bookmarks; in between: accepted => exact continuation")
		c.Assume("an ahead-of-log bookmark is obtained without knowing the encoding: a bookmark of another kind of the same state whose log is longer")
		c.Require("resumes_accepted", "resumes_rejected", "resumes_in_must_accept_window", "tails_checked", "garbage_rejected", "foreign_process_bookmarks", "resumed_events_checked", "remote_scripts")

		foreign := foreignBookmarks(c)
		c.Count("foreign_process_bookmarks", len(foreign))

		perCfg := c.N(60, 3000)

		var wg sync.WaitGroup

		sem := make(chan struct{}, 16)

		for ci, cfg := range configs {
			for k := 0; k < perCfg; k++ {
				wg.Add(1)
				sem <- struct{}{}

				go func() {
					defer wg.Done()
					defer func() { <-sem }()

					rng := rand.New(rand.NewPCG(uint64(c.Seed), uint64(ci*1_000_003+k)))

					var r *wl.Result

					opts := wl.ScriptOpts{Steps: 40 + rng.IntN(50), Bookmarks: true, Foreign: foreign}

					// a quarter of the scripts go through the gRPC client adapter -> loopback transport -> real server handlers
					remote := k%4 == 3
					if remote {
						opts.WrapState = func(st state.CoreState) state.CoreState {
							return client.NewAdapter(lb.New(server.NewState(st)), client.WithDisableWatchRetry())
						}
					}

					synctest.Test(t, func(*testing.T) {
						r = wl.RunScript(rng, cfg, opts)
					})

					if remote {
						c.Count("remote_scripts", 1)
					}

					resumed := 0

					for _, rec := range r.Recs {
						if rec.FromIdx >= -1 || rec.Tail > 0 {
							for _, e := range rec.Events {
								if e.Idx >= 0 {
									resumed++
								}
							}
						}
					}

					c.Case(vk.Hash(cfg, r.Trace), r.ResumeMustAccept > 0 && r.ResumeRejected+r.GarbageRejected > 0 && (r.Wraps > 0 || r.Growths > 0))
					c.Count("resumes_accepted", r.ResumeAccepted)
					c.Count("bootstrap_bookmarks_of_replaying_watches_resumed", r.NoopBookmarksResumed)
					c.Count("resumes_rejected", r.ResumeRejected)
					c.Count("resumes_in_must_accept_window", r.ResumeMustAccept)
					c.Count("tails_checked", r.TailChecked)
					c.Count("garbage_rejected", r.GarbageRejected)
					c.Count("bitflipped_accepted_checked_contiguous", r.ForgedAccepted)
					c.Count("resumed_events_checked", resumed)
					c.Count("bookmark_byte_variants_info", r.BookmarkVariants)
					c.Count("writes_committed", r.Writes)

					if k == 0 {
						c.Sample(map[string]any{"config": cfg.String(), "script": head(r.Trace, 30)})
					}

					for _, p := range r.Problems {
						c.Violation(p.Sig, map[string]any{"config": cfg, "script_index": k, "problem": p, "trace": r.Trace, "log": r.Log, "recs": r.Recs})
					}
				}()
			}
		}

		wg.Wait()

		// selector-filtered kind watches: the events such a watch delivers (incl. the Created / Destroyed it synthesises when an update moves a
		// resource into / out of the selector) carry bookmarks too, and resuming the same filtered watch from the bookmark of event i yields
		// exactly the events that followed it in the original stream
		for k := 0; k < c.N(120, 6000); k++ {
			wg.Add(1)
			sem <- struct{}{}

			go func() {
				defer wg.Done()
				defer func() { <-sem }()

				rng := rand.New(rand.NewPCG(uint64(c.Seed)+12, uint64(k)))
				synctest.Test(t, func(*testing.T) { filteredResume(c, rng, k) })
				synctest.Test(t, func(*testing.T) { forgedBeforeStart(c, rand.New(rand.NewPCG(uint64(c.Seed)+13, uint64(k))), k) })
			}()
		}

		wg.Wait()
	})
}

// forgedBeforeStart: on a young log (far fewer events than the history holds) bookmarks with the valid cookie and a position before
// the start of the log are presented to every watch kind: below -1 they are malformed for everybody; -1 ("before the first event", what a
// bootstrap bookmark over an empty log carries) is below the first position a single-resource watch can resume from, and for kind
// watches it may only be accepted as "everything from the first event".
func forgedBeforeStart(c *vk.C, rng *rand.Rand, k int) {
	ctx, cancel := context.WithCancel(context.Background())
	defer func() {
		cancel()
		synctest.Wait()
	}()

	st := inmem.NewStateWithOptions(inmem.WithHistoryInitialCapacity(100), inmem.WithHistoryMaxCapacity(100), inmem.WithHistoryGap(5))("ns")
	kind := resource.NewMetadata("ns", res.TypeA, "", resource.VersionUndefined)

	// a bookmark with the right cookie: the bootstrap bookmark of the (still empty) log, or the bookmark of a delivered event
	var valid state.Bookmark

	writes := rng.IntN(12)
	fromEmpty := k%2 == 0

	grab := func() {
		wctx, wcancel := context.WithCancel(ctx)
		defer wcancel()

		ch := make(chan state.Event, 64)
		if err := st.WatchKind(wctx, kind, ch, state.WithBootstrapContents(true)); err != nil {
			return
		}

		synctest.Wait()

		for more := true; more; {
			select {
			case ev := <-ch:
				if len(ev.Bookmark) > 0 {
					valid = append(state.Bookmark(nil), ev.Bookmark...)
				}
			default:
				more = false
			}
		}
	}

	if fromEmpty {
		grab()
	}

	r := res.New("ns", res.TypeA, "x")

	for i := 0; i < writes; i++ {
		if i == 0 {
			_ = st.Create(ctx, r)
		} else {
			res.SpecOf(r).Token = fmt.Sprint("y", i)
			_ = st.Update(ctx, r)
		}
	}

	if !fromEmpty || valid == nil {
		grab()
	}

	if len(valid) < 8 {
		return
	}

	try := func(mode string, bm state.Bookmark) (int, error) {
		wctx, wcancel := context.WithCancel(ctx)
		defer wcancel()

		var (
			ch  = make(chan state.Event, 256)
			agg = make(chan []state.Event, 256)
			err error
		)

		switch mode {
		case "single":
			err = st.Watch(wctx, r.Metadata(), ch, state.WithStartFromBookmark(bm))
		case "kind":
			err = st.WatchKind(wctx, kind, ch, state.WithKindStartFromBookmark(bm))
		default:
			err = st.WatchKindAggregated(wctx, kind, agg, state.WithKindStartFromBookmark(bm))
		}

		if err != nil {
			return 0, err
		}

		synctest.Wait()

		n := 0

		for more := true; more; {
			select {
			case <-ch:
				n++
			case evs := <-agg:
				n += len(evs)
			default:
				more = false
			}
		}

		return n, nil
	}

	// the unmodified bootstrap bookmark of an empty log is such a position too (it is -1 by meaning): single-resource watches cannot start there
	positions := []int64{-1, -2, -3, -10, -50, -88}

	for _, pos := range positions {
		bm := append(state.Bookmark(nil), valid...)
		binary.BigEndian.PutUint64(bm[len(bm)-8:], uint64(pos))

		for _, mode := range []string{"single", "kind", "agg"} {
			var (
				n   int
				err error
			)

			p, stack := vk.Try(func() { n, err = try(mode, bm) })

			c.Count("forged_before_start_bookmarks", 1)

			detail := map[string]any{"mode": "forged-before-start", "watch": mode, "position": pos, "events_in_log": writes, "delivered": n, "err": fmt.Sprint(err)}

			switch {
			case p != nil:
				detail["panic"], detail["stack"] = fmt.Sprint(p), stack
				c.Violation("watch-panicked-on-forged-bookmark", detail)

				return
			case err != nil && !state.IsInvalidWatchBookmarkError(err):
				c.Violation("bookmark-reject-wrong-class", detail)

				return
			case err == nil && (pos < -1 || mode == "single"):
				c.Violation("garbage-bookmark-accepted", detail)

				return
			case err == nil && n != writes:
				c.Violation("stream-gap", detail) // accepted as "from the beginning" but not everything came

				return
			}
		}
	}

	c.Case(vk.Hash("forged", k, writes, fromEmpty), true)
}

type fev struct {
	Type, ID string
	Ver      uint64
	BM       string
}

func filteredResume(c *vk.C, rng *rand.Rand, k int) {
	ctx, cancel := context.WithCancel(context.Background())
	defer func() {
		cancel()
		synctest.Wait()
	}()

	st := inmem.NewStateWithOptions(inmem.WithHistoryInitialCapacity(64), inmem.WithHistoryMaxCapacity(64), inmem.WithHistoryGap(4))("ns")
	kind := resource.NewMetadata("ns", res.TypeA, "", resource.VersionUndefined)
	agg := k%2 == 1

	var sel []state.WatchKindOption

	what := ""

	switch k % 3 {
	case 0:
		sel, what = []state.WatchKindOption{state.WatchWithLabelQuery(resource.LabelEqual("in", "yes"))}, "label in=yes"
	case 1:
		sel, what = []state.WatchKindOption{state.WatchWithLabelQuery(resource.LabelExists("in", resource.NotMatches))}, "label !in"
	default:
		sel, what = []state.WatchKindOption{state.WatchWithIDQuery(resource.IDRegexpMatch(regexp.MustCompile("^[ab]"))), state.WatchWithLabelQuery(resource.LabelExists("in"))}, "id ^[ab] and label in"
	}

	collect := func(opts []state.WatchKindOption) ([]fev, error) {
		wctx, wcancel := context.WithCancel(ctx)
		defer wcancel()

		var out []fev

		add := func(ev state.Event) {
			if ev.Type == state.Created || ev.Type == state.Updated || ev.Type == state.Destroyed {
				out = append(out, fev{ev.Type.String(), ev.Resource.Metadata().ID(), ev.Resource.Metadata().Version().Value(), string(ev.Bookmark)})
			}
		}

		if agg {
			ch := make(chan []state.Event, 1024)
			if err := st.WatchKindAggregated(wctx, kind, ch, opts...); err != nil {
				return nil, err
			}

			synctest.Wait()

			for more := true; more; {
				select {
				case evs := <-ch:
					for _, ev := range evs {
						add(ev)
					}

					synctest.Wait()
				default:
					more = false
				}
			}
		} else {
			ch := make(chan state.Event, 1024)
			if err := st.WatchKind(wctx, kind, ch, opts...); err != nil {
				return nil, err
			}

			synctest.Wait()

			for more := true; more; {
				select {
				case ev := <-ch:
					add(ev)
					synctest.Wait()
				default:
					more = false
				}
			}
		}

		return out, nil
	}

	// history: creates, label flips (into / out of the selector), plain updates, destroys on four ids; the reference watch replays it
	// from the very beginning (tail larger than the history)
	ids := []string{"a", "b", "c", "ab"}

	var trace []string

	for i := 0; i < 10+rng.IntN(30); i++ {
		id := ids[rng.IntN(len(ids))]
		cur, err := st.Get(ctx, resource.NewMetadata("ns", res.TypeA, id, resource.VersionUndefined))

		switch {
		case err != nil:
			r := res.New("ns", res.TypeA, id)
			if rng.IntN(2) == 0 {
				r.Metadata().Labels().Set("in", "yes")
			}

			_ = st.Create(ctx, r)
			trace = append(trace, "create "+id)
		case rng.IntN(6) == 0:
			_ = st.Destroy(ctx, cur.Metadata())
			trace = append(trace, "destroy "+id)
		default:
			switch rng.IntN(3) {
			case 0:
				cur.Metadata().Labels().Set("in", "yes")
			case 1:
				cur.Metadata().Labels().Delete("in")
			default:
				cur.Metadata().Labels().Set("in", []string{"yes", "no"}[rng.IntN(2)])
			}

			res.SpecOf(cur).Token = fmt.Sprint("f", i)
			_ = st.Update(ctx, cur)
			trace = append(trace, fmt.Sprintf("update %s labels=%v", id, cur.Metadata().Labels().Raw()))
		}
	}

	full, err := collect(append([]state.WatchKindOption{state.WithKindTailEvents(60)}, sel...))
	if err != nil {
		c.Violation("watch-establish-failed", map[string]any{"err": err.Error(), "mode": "filtered-resume"})

		return
	}

	detail := func(m map[string]any) map[string]any {
		m["mode"], m["selector"], m["aggregated"], m["writes"], m["stream"] = "filtered-resume", what, agg, trace, full

		return m
	}

	for i, e := range full {
		if e.BM == "" {
			c.Violation("event-without-bookmark", detail(map[string]any{"event_index": i, "event": e}))

			return
		}
	}

	// resume from a few positions
	for n := 0; n < 4 && len(full) > 0; n++ {
		i := rng.IntN(len(full))

		rest, rerr := collect(append([]state.WatchKindOption{state.WithKindStartFromBookmark(state.Bookmark(full[i].BM))}, sel...))
		if rerr != nil {
			c.Violation("recent-bookmark-rejected", detail(map[string]any{"event_index": i, "err": rerr.Error()}))

			return
		}

		c.Count("filtered_resumes_checked", 1)

		want := full[i+1:]
		if len(rest) != len(want) {
			c.Violation("filtered-resume-differs", detail(map[string]any{"resumed_after_event": i, "got": rest, "want": want}))

			return
		}

		for j := range want {
			if rest[j].Type != want[j].Type || rest[j].ID != want[j].ID || rest[j].Ver != want[j].Ver {
				c.Violation("filtered-resume-differs", detail(map[string]any{"resumed_after_event": i, "got": rest, "want": want}))

				return
			}
		}
	}

	c.Count("filtered_streams_checked", 1)
	c.Count("filtered_events_checked", len(full))
	c.Case(vk.Hash("filtered", k, trace), len(full) > 0)
}

func head(s []string, n int) []string {
	if len(s) > n {
		return s[:n]
	}

	return s
}
