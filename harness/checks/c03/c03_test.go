//go:build verif

// C03: finalizers gate destruction; blocking lifecycle helpers never miss or jump.
package c03

import (
	"math/rand/v2"
	"os"
	"sync"
	"testing"
	"testing/synctest"

	"verif/harness/lc"
	"verif/harness/res"
	"verif/harness/vk"
)

func TestMain(m *testing.M) {
	res.Register() // the remote scenarios unmarshal typed resources
	os.Exit(m.Run())
}

func TestC03(t *testing.T) {
	vk.Run(t, "C03", "exploration", func(c *vk.C) {
		c.Rule("seeded scenarios: 2-6 actors x 6-14 steps on 1-2 resources (create, add/remove finalizer, Teardown, TeardownAndDestroy, raw Destroy, WatchFor with 5 condition shapes, " +
			"ContextWithTeardown, raw updates, strip-all-finalizers) through state.WrapCore over a gate+recording proxy that delays every store operation and watch delivery by 0-3 virtual ticks " +
			"inside a synctest bubble; judged over the global commit log at quiescence. distinct = distinct store-operation order (hash of the actor:op trace); " +
			"non-trivial = at least one Destroy committed and one blocking helper (TeardownAndDestroy/WatchFor) involved")
		c.Assume("interleavings are explored at the granularity of store operations and watch deliveries (the property's quantifier); the proxy serialises writes, which the store does per kind anyway")
		c.Assume("liveness is judged as bounded progress: 30 virtual minutes after the last actor step with nothing runnable")
		c.Require("destroys", "teardown_ready", "tad_ok", "watchfor_ok", "ctx_cancelled", "ctx_live")
		c.Want("window_fin_removed_between_mark_and_watch", "window_third_party_destroy", "window_pending_finalizer_at_destroy")

		n := c.N(8000, 300000)

		var wg sync.WaitGroup

		sem := make(chan struct{}, 16)

		for k := 0; k < n; k++ {
			wg.Add(1)
			sem <- struct{}{}

			go func() {
				defer wg.Done()
				defer func() { <-sem }()

				rng := rand.New(rand.NewPCG(uint64(c.Seed), uint64(k)))
				opts := lc.Opts{Mix: "c03", Actors: 2 + rng.IntN(5), Steps: 6 + rng.IntN(9), IDs: 1 + rng.IntN(2), MaxDelay: 3}

				// every fourth scenario runs the helpers through the gRPC client adapter (loopback transport, real server handlers), against
				// servers with and without the native lifecycle RPCs
				remote := ""
				if k%4 == 3 {
					remote = lc.RemoteVariants[(k/4)%len(lc.RemoteVariants)]
					opts.Wrap = lc.RemoteWrap(remote)

					c.Count("remote_scenarios_"+remote, 1)
				}

				opts.ThirdPartyAtWatch = k%5 == 2 || k%8 == 7 // (the second term: together with the remote scenarios)

				var o *lc.Outcome

				synctest.Test(t, func(*testing.T) { o = lc.Run(rng, opts) })

				ps, cov := lc.CheckC03(o)
				blocking := cov.TadOK+cov.TadErr+cov.TadBlocked+cov.WatchForOK+cov.WatchForBlocked > 0

				c.Case(o.OpsHash, cov.Destroys > 0 && blocking)
				c.Count("commits", cov.Commits)
				c.Count("destroys", cov.Destroys)
				c.Count("teardown_ready", cov.TeardownReady)
				c.Count("teardown_not_ready", cov.TeardownNotReady)
				c.Count("tad_ok", cov.TadOK)
				c.Count("tad_err", cov.TadErr)
				c.Count("tad_blocked_at_quiescence_legit", cov.TadBlocked)
				c.Count("watchfor_ok", cov.WatchForOK)
				c.Count("watchfor_blocked_legit", cov.WatchForBlocked)
				c.Count("ctx_cancelled", cov.CtxCancelled)
				c.Count("ctx_live", cov.CtxLive)
				c.Count("ctx_ambiguous_skipped", cov.CtxAmbiguous)
				c.Count("window_fin_removed_between_mark_and_watch", cov.WinFinRemovedBetweenMarkAndWatch)
				c.Count("window_third_party_destroy", cov.WinThirdPartyDestroy)
				c.Count("window_pending_finalizer_at_destroy", cov.WinPendingAtDestroy)
				c.Count("helper_conflict_retries", o.Retries)
				c.Count("third_party_destroys_at_helper_watch", o.ThirdPartyDestroys)

				if k < 2 {
					c.Sample(map[string]any{"opts": opts, "calls": head(o.Calls, 12), "commits": len(o.Log)})
				}

				for _, p := range ps {
					c.Violation(p.Sig, map[string]any{"scenario": k, "opts": opts, "problem": p, "calls": o.Calls, "log": o.Log, "watches": o.Watches})
				}
			}()
		}

		wg.Wait()
	})
}

func head[T any](s []T, n int) []T {
	if len(s) > n {
		return s[:n]
	}

	return s
}
