//go:build verif

// C14: selector-filtered lists/watches are exact views; one selector semantics everywhere.
package c14

import (
	"context"
	"fmt"
	"math/rand/v2"
	"os"
	"regexp"
	"slices"
	"sort"
	"strconv"
	"strings"
	"sync"
	"testing"
	"testing/synctest"
	"time"

	"go.uber.org/zap"
	"google.golang.org/grpc/codes"

	"github.com/cosi-project/runtime/pkg/controller/runtime"
	"github.com/cosi-project/runtime/pkg/controller/runtime/options"
	"github.com/cosi-project/runtime/pkg/resource"
	"github.com/cosi-project/runtime/pkg/state"
	"github.com/cosi-project/runtime/pkg/state/impl/inmem"
	"github.com/cosi-project/runtime/pkg/state/protobuf/client"
	"github.com/cosi-project/runtime/pkg/state/protobuf/server"

	"verif/harness/lb"
	"verif/harness/res"
	"verif/harness/vk"
	"verif/harness/wl"
)

func TestMain(m *testing.M) {
	res.Register()
	os.Exit(m.Run())
}

// ---- reference evaluator, written from the documented semantics --------------------------------------------------------

var units = map[string]int64{"": 1, "k": 1e3, "m": 1e6, "g": 1e9, "t": 1e12, "p": 1e15, "ki": 1 << 10, "mi": 1 << 20, "gi": 1 << 30, "ti": 1 << 40, "pi": 1 << 50}

var numRe = regexp.MustCompile(`^\s*(-?[0-9]+)\s*([a-zA-Z]*)\s*$`)

func refNumber(s string) (int64, bool) {
	m := numRe.FindStringSubmatch(s)
	if m == nil {
		return 0, false
	}

	n, err := strconv.ParseInt(m[1], 10, 64)
	if err != nil {
		return 0, false
	}

	mult, ok := units[strings.ToLower(m[2])]
	if !ok {
		return 0, false
	}

	return n * mult, true
}

// refTerm returns (result, defined).
func refTerm(t resource.LabelTerm, labels map[string]string) bool {
	v, has := labels[t.Key]

	var (
		r       bool
		defined = true
	)

	switch t.Op {
	case resource.LabelOpExists:
		r = has
	case resource.LabelOpEqual:
		r = has && len(t.Value) > 0 && v == t.Value[0]
	case resource.LabelOpIn:
		r = has && slices.Contains(t.Value, v)
	case resource.LabelOpLT, resource.LabelOpLTE:
		switch {
		case !has:
			defined = false
		case len(t.Value) == 0:
			r = false
		case t.Op == resource.LabelOpLT:
			r = v < t.Value[0]
		default:
			r = v <= t.Value[0]
		}
	case resource.LabelOpLTNumeric, resource.LabelOpLTENumeric:
		switch {
		case !has:
			defined = false
		case len(t.Value) == 0:
			r = false
		default:
			a, okA := refNumber(v)
			b, okB := refNumber(t.Value[0])

			switch {
			case !okA || !okB:
				defined = false
			case t.Op == resource.LabelOpLTNumeric:
				r = a < b
			default:
				r = a <= b
			}
		}
	}

	if !defined {
		return false // an undefined comparison never matches, inverted or not
	}

	return r != t.Invert
}

func refQueries(qs resource.LabelQueries, labels map[string]string) bool {
	if len(qs) == 0 {
		return true
	}

	for _, q := range qs {
		all := true

		for _, t := range q.Terms {
			if !refTerm(t, labels) {
				all = false
			}
		}

		if all {
			return true
		}
	}

	return false
}

type selector struct {
	Queries resource.LabelQueries
	ID      *regexp.Regexp
}

func (s selector) String() string {
	var qs []string

	for _, q := range s.Queries {
		var ts []string
		for _, t := range q.Terms {
			ts = append(ts, fmt.Sprintf("%s op%d %q inv=%v", t.Key, t.Op, t.Value, t.Invert))
		}

		qs = append(qs, "("+strings.Join(ts, " AND ")+")")
	}

	id := ""
	if s.ID != nil {
		id = " id~" + s.ID.String()
	}

	return strings.Join(qs, " OR ") + id
}

func (s selector) ref(id string, labels map[string]string) bool {
	if s.ID != nil && !s.ID.MatchString(id) {
		return false
	}

	return refQueries(s.Queries, labels)
}

func (s selector) listOpts() []state.ListOption {
	var out []state.ListOption

	for _, q := range s.Queries {
		out = append(out, state.WithLabelQuery(resource.RawLabelQuery(q)))
	}

	if s.ID != nil {
		out = append(out, state.WithIDQuery(resource.IDRegexpMatch(s.ID)))
	}

	return out
}

func (s selector) watchOpts() []state.WatchKindOption {
	var out []state.WatchKindOption

	for _, q := range s.Queries {
		out = append(out, state.WatchWithLabelQuery(resource.RawLabelQuery(q)))
	}

	if s.ID != nil {
		out = append(out, state.WatchWithIDQuery(resource.IDRegexpMatch(s.ID)))
	}

	return out
}

// ---- generators -----------------------------------------------------------------------------------------------------------

var (
	keys   = []string{"a", "b", "c", "d"}
	values = []string{"", "0", "1", "5", "10", "-3", "1k", "1Ki", "2Ki", "1M", "1Mi", "3Mi", " 7 ", "007", "abc", "x1", "ü", "1000", "1024", "999", "1000000", "1048576", "1048575", "1G", "1Gi", "1073741824", "1000000000", "2T", "2Ti", "2199023255552", "1P", "1Pi", "1125899906842624", "-1k", "-1000"}
	// ids of the resources in every world: ids that contain one another, metacharacters, upper case
	worldIDs = []string{"x", "xy", "yx", "w", "w-1", "W.z"}
	idRes    = []*regexp.Regexp{nil, nil, regexp.MustCompile("^x"), regexp.MustCompile("[yz]$"), regexp.MustCompile(".*"), regexp.MustCompile("x|w")}
)

func genLabels(rng *rand.Rand) map[string]string {
	m := map[string]string{}

	for _, k := range keys {
		if rng.IntN(2) == 0 {
			m[k] = values[rng.IntN(len(values))]
		}
	}

	return m
}

func genTerm(rng *rand.Rand) resource.LabelTerm {
	t := resource.LabelTerm{Key: keys[rng.IntN(len(keys))], Op: resource.LabelOp(rng.IntN(7)), Invert: rng.IntN(3) == 0}

	switch rng.IntN(5) {
	case 0: // empty value list
	case 1, 2, 3:
		t.Value = []string{values[rng.IntN(len(values))]}
	case 4:
		for i := 2 + rng.IntN(3); i > 0; i-- {
			t.Value = append(t.Value, values[rng.IntN(len(values))])
		}
	}

	if t.Op == resource.LabelOpExists {
		t.Value = nil
	}

	return t
}

func genSelector(rng *rand.Rand) selector {
	var s selector

	for i := rng.IntN(4); i > 0; i-- {
		var q resource.LabelQuery

		for j := rng.IntN(4); j > 0; j-- {
			q.Terms = append(q.Terms, genTerm(rng))
		}

		s.Queries = append(s.Queries, q)
	}

	if rng.IntN(5) < 2 {
		s.ID = idRes[rng.IntN(len(idRes))]
	} else {
		s.ID = res.GenIDRegexp(rng, worldIDs)
	}

	return s
}

func toLabels(m map[string]string) resource.Labels {
	var l resource.Labels

	for k, v := range m {
		l.Set(k, v)
	}

	return l
}

func TestC14(t *testing.T) {
	vk.Run(t, "C14", "exploration", func(c *vk.C) {
		c.Rule("generators: label maps over 4 keys with values from {empty, ints, negative, unit-suffixed, padded, non-numeric, unicode}; terms = 7 operators x invert x value lists of length " +
			"0/1/n; 0-3 queries of 0-3 terms; id regexps from a pool. (a) term/query evaluation vs an independent reference evaluator; (b..e) seeded label-changing histories in a synctest " +
			"bubble: at every quiescent point inmem List, the runtime cache (kind cached), the gRPC path (client translation -> loopback -> server conversion) and the replay of " +
			"selector-filtered WatchKind / WatchKindAggregated streams (direct and remote, +-bootstrap) must all equal the brute-force filter of the ground-truth state; filtered streams must obey " +
			"view-log discipline. distinct = (labels, term) pair or (selector, history) hash; non-trivial = the term is inverted or a comparison with an undefined operand, or the history moved a " +
			"resource into and out of the selector")
		c.Assume("magnitudes overflowing int64 after the unit multiplier and unit suffixes with trailing garbage are not generated (unspecified)")
		c.Require("term_evaluations", "undefined_comparisons", "inverted_terms", "empty_value_terms", "list_comparisons", "cache_comparisons", "remote_comparisons", "view_events_checked", "moved_into_view", "moved_out_of_view", "remote_transport_faults_hit")

		// (a) term level
		rng := c.Rand(1)
		n := c.N(20000, 2000000)

		for i := 0; i < n; i++ {
			labels := genLabels(rng)
			term := genTerm(rng)
			want := refTerm(term, labels)

			var got bool

			if p, _ := vk.Try(func() { got = toLabels(labels).Matches(term) }); p != nil {
				c.Violation("label-term-evaluation-panicked", map[string]any{"labels": labels, "term": fmt.Sprintf("%+v", term), "panic": fmt.Sprint(p)})

				continue
			}

			_, has := labels[term.Key]
			undefined := !has && term.Op >= resource.LabelOpLT

			if has && len(term.Value) > 0 && (term.Op == resource.LabelOpLTNumeric || term.Op == resource.LabelOpLTENumeric) {
				_, okA := refNumber(labels[term.Key])
				_, okB := refNumber(term.Value[0])
				undefined = !okA || !okB
			}

			c.Case(vk.Hash(labels, term), term.Invert || undefined)
			c.Count("term_evaluations", 1)

			if undefined {
				c.Count("undefined_comparisons", 1)
			}

			if term.Invert {
				c.Count("inverted_terms", 1)
			}

			if len(term.Value) == 0 && term.Op != resource.LabelOpExists {
				c.Count("empty_value_terms", 1)
			}

			if got != want {
				c.Violation("label-term-semantics", map[string]any{"labels": labels, "term": fmt.Sprintf("%+v", term), "implementation": got, "reference": want})
			}

			if i%4 == 0 {
				sel := genSelector(rng)
				if gotQ := sel.Queries.Matches(toLabels(labels)); gotQ != refQueries(sel.Queries, labels) {
					c.Violation("label-query-semantics", map[string]any{"labels": labels, "selector": sel.String(), "implementation": gotQ})
				}
			}
		}

		// (b..e) histories
		m := c.N(300, 30000)

		var wg sync.WaitGroup

		sem := make(chan struct{}, 16)

		for k := 0; k < m; k++ {
			wg.Add(1)
			sem <- struct{}{}

			go func() {
				defer wg.Done()
				defer func() { <-sem }()

				hr := rand.New(rand.NewPCG(uint64(c.Seed), uint64(1000+k)))
				synctest.Test(t, func(*testing.T) { history(c, hr, k) })
			}()
		}

		wg.Wait()
	})
}

type view struct {
	name    string
	sel     selector
	ch      chan state.Event
	agg     chan []state.Event
	items   map[string]uint64 // id -> version
	boot    bool
	booted  bool
	dead    bool
	faulted bool
}

func history(c *vk.C, rng *rand.Rand, k int) {
	ctx, cancel := context.WithCancel(context.Background())

	inner := inmem.NewState("ns")
	w := wl.NewWorld(inner, "ns", res.TypeA, "a")
	kind := resource.NewMetadata("ns", res.TypeA, "", resource.VersionUndefined)

	rt, err := runtime.NewRuntime(state.WrapCore(inner), zap.NewNop(), options.WithCachedResource("ns", res.TypeA), options.WithMetrics(false))
	if err != nil {
		c.Violation("runtime-setup-failed", err.Error())

		return
	}

	runDone := make(chan struct{})

	go func() {
		defer close(runDone)

		_ = rt.Run(ctx)
	}()

	defer func() {
		cancel()
		<-runDone
		synctest.Wait()
	}()

	cached := rt.CachedState()
	cli := lb.New(server.NewState(inner))
	remote := client.NewAdapter(cli)

	ids := worldIDs
	sels := []selector{genSelector(rng), genSelector(rng), genSelector(rng), genSelector(rng)}

	var (
		views   []*view
		trace   []string
		faulted int
	)

	// labelsFor finds labels under which selector sel does / does not select id (nil if the sample holds none)
	labelsFor := func(sel selector, id string, want bool) map[string]string {
		for try := 0; try < 30; try++ {
			if l := genLabels(rng); sel.ref(id, l) == want {
				return l
			}
		}

		return nil
	}

	// a resource goes away and comes back on the other side of a selector, with updates of the same id right before and after and
	// nothing else of that kind in between (whatever a filtered view remembers per id has to be forgotten with the resource)
	recreateFlipped := func() {
		id, sel := ids[rng.IntN(len(ids))], sels[rng.IntN(len(sels))]
		before := rng.IntN(2) == 0
		lb, la := labelsFor(sel, id, before), labelsFor(sel, id, !before)

		if lb == nil || la == nil {
			return
		}

		steps := []struct {
			op     wl.OpKind
			labels map[string]string
		}{{wl.OpCreate, lb}, {wl.OpUpdate, lb}, {wl.OpDestroy, nil}, {wl.OpCreate, la}, {wl.OpUpdate, la}}

		if rng.IntN(2) == 0 {
			steps = append(steps, steps[4])
			steps[5].labels = lb // ... and back across the selector by a plain update
		}

		for _, st := range steps {
			if _, err := w.Write(ctx, st.op, id, st.labels); err != nil {
				c.Violation("write-failed", err.Error())
			}

			trace = append(trace, fmt.Sprintf("op%d %s %v (re-create across selector)", st.op, id, st.labels))
		}

		c.Count("recreated_across_selector", 1)
	}

	write := func(n int) {
		for i := 0; i < n; i++ {
			if rng.IntN(9) == 0 {
				recreateFlipped()

				continue
			}

			id := ids[rng.IntN(len(ids))]
			op := wl.OpUpdate

			switch {
			case !w.Exists(id):
				op = wl.OpCreate
			case rng.IntN(7) == 0:
				op = wl.OpDestroy
			}

			labels := genLabels(rng)
			if _, err := w.Write(ctx, op, id, labels); err != nil {
				c.Violation("write-failed", err.Error())
			}

			trace = append(trace, fmt.Sprintf("op%d %s %v", op, id, labels))
		}
	}

	startViews := func() {
		for si, sel := range sels {
			for _, flavour := range []string{"direct-kind", "direct-agg", "remote-kind", "remote-agg"} {
				if rng.IntN(3) == 0 {
					continue
				}

				v := &view{name: fmt.Sprintf("sel%d-%s", si, flavour), sel: sel, items: map[string]uint64{}, boot: rng.IntN(3) != 0}
				opts := append(sel.watchOpts(), state.WithBootstrapContents(v.boot))

				var (
					st  state.CoreState = inner
					err error
				)

				if strings.HasPrefix(flavour, "remote") {
					st = remote

					// half of the remote views lose their transport once, a few messages in, and must resume as the SAME filtered view
					if rng.IntN(2) == 0 {
						cli.FailRecv(cli.Streams(), 2+rng.IntN(5), codes.Unavailable)

						faulted++
						v.faulted = true
					}
				}

				if strings.HasSuffix(flavour, "agg") {
					v.agg = make(chan []state.Event, 1024)
					err = st.WatchKindAggregated(ctx, kind, v.agg, opts...)
				} else {
					v.ch = make(chan state.Event, 1024)
					err = st.WatchKind(ctx, kind, v.ch, opts...)
				}

				if err != nil {
					c.Violation("filtered-watch-establish-failed", map[string]any{"view": v.name, "selector": sel.String(), "err": err.Error()})

					continue
				}

				if !v.boot {
					// without bootstrap the view starts from the current filtered contents
					for id, val := range wl.StateAt(w.Log(), w.Len()) {
						if sel.ref(id, val.Labels) {
							v.items[id] = val.Ver
						}
					}

					v.booted = true
				}

				views = append(views, v)
			}
		}
	}

	movedIn, movedOut, viewEvents := 0, 0, 0

	apply := func(v *view, ev state.Event) {
		if v.dead {
			return
		}

		fail := func(sig, f string, a ...any) {
			v.dead = true

			c.Violation(sig, map[string]any{"view": v.name, "selector": v.sel.String(), "problem": fmt.Sprintf(f, a...), "event": ev.Type.String(), "trace": trace})
		}

		switch ev.Type {
		case state.Bootstrapped:
			v.booted = true
		case state.Noop:
		case state.Errored:
			if v.faulted {
				v.dead = true // a watch that lost its transport may legitimately end in Errored (no bookmark yet, ...): judged by C13

				return
			}

			fail("filtered-watch-errored", "%v", ev.Error)
		case state.Created:
			id := ev.Resource.Metadata().ID()
			viewEvents++

			if _, in := v.items[id]; in {
				fail("view-created-for-member", "Created for %s which is already in the view", id)

				return
			}

			if !v.sel.ref(id, ev.Resource.Metadata().Labels().Raw()) {
				fail("view-event-for-non-matching-resource", "Created %s with labels %v does not match the selector", id, ev.Resource.Metadata().Labels().Raw())

				return
			}

			if v.booted && ev.Resource.Metadata().Version().Value() > 1 {
				movedIn++
			}

			v.items[id] = ev.Resource.Metadata().Version().Value()
		case state.Updated:
			id := ev.Resource.Metadata().ID()
			viewEvents++

			if _, in := v.items[id]; !in {
				fail("view-updated-for-non-member", "Updated for %s which is not in the view", id)

				return
			}

			if !v.sel.ref(id, ev.Resource.Metadata().Labels().Raw()) {
				fail("view-event-for-non-matching-resource", "Updated %s with labels %v does not match the selector", id, ev.Resource.Metadata().Labels().Raw())

				return
			}

			v.items[id] = ev.Resource.Metadata().Version().Value()
		case state.Destroyed:
			id := ev.Resource.Metadata().ID()
			viewEvents++

			if _, in := v.items[id]; !in {
				fail("view-destroyed-for-non-member", "Destroyed for %s which is not in the view", id)

				return
			}

			if w.Exists(id) || true {
				// a resource leaving the selector by update is reported as Destroyed while it still exists
				if cur, ok := wl.StateAt(w.Log(), w.Len())[id]; ok && cur.Ver >= ev.Resource.Metadata().Version().Value() && ev.Resource.Metadata().Version().Value() > 0 {
					movedOut++
				}
			}

			delete(v.items, id)
		}
	}

	check := func(stage string) {
		synctest.Wait()
		time.Sleep(5 * time.Second) // long enough for a client-side watch retry (back-off 0.5 s and up)
		synctest.Wait()

		for _, v := range views {
			for more := true; more; {
				select {
				case ev := <-v.ch:
					apply(v, ev)
				case evs := <-v.agg:
					for _, ev := range evs {
						apply(v, ev)
					}
				default:
					more = false
				}
			}
		}

		truth := wl.StateAt(w.Log(), w.Len())

		for si, sel := range sels {
			want := map[string]uint64{}

			for id, val := range truth {
				if sel.ref(id, val.Labels) {
					want[id] = val.Ver
				}
			}

			cmp := func(what, sig string, got map[string]uint64) {
				if len(got) == len(want) {
					same := true

					for id, v := range want {
						if got[id] != v {
							same = false
						}
					}

					if same {
						return
					}
				}

				c.Violation(sig, map[string]any{"stage": stage, "selector": sel.String(), "what": what, "got": got, "brute_force": want, "state": fmt.Sprint(truth), "trace": trace})
			}

			listOf := func(st state.CoreState) (map[string]uint64, error) {
				list, err := st.List(ctx, kind, sel.listOpts()...)
				if err != nil {
					return nil, err
				}

				out := map[string]uint64{}
				for _, it := range list.Items {
					out[it.Metadata().ID()] = it.Metadata().Version().Value()
				}

				return out, nil
			}

			for _, tgt := range []struct {
				name, sig, counter string
				st                 state.CoreState
			}{
				{"inmem List", "filtered-list-differs-from-brute-force", "list_comparisons", inner},
				{"runtime cache List", "cached-filtered-list-differs", "cache_comparisons", cached},
				{"remote List", "remote-filtered-list-differs", "remote_comparisons", remote},
			} {
				got, err := listOf(tgt.st)
				if err != nil {
					c.Violation("filtered-list-failed", map[string]any{"what": tgt.name, "selector": sel.String(), "err": err.Error()})

					continue
				}

				c.Count(tgt.counter, 1)
				cmp(tgt.name, tgt.sig, got)
			}

			for _, v := range views {
				if !v.dead && v.booted && v.name[:4] == fmt.Sprintf("sel%d", si) {
					cmp("replay of "+v.name, "filtered-watch-replay-differs", v.items)
				}
			}
		}
	}

	write(3 + rng.IntN(5))
	startViews()

	for phase := 0; phase < 4; phase++ {
		write(4 + rng.IntN(10))
		check(fmt.Sprintf("phase-%d", phase))
	}

	for _, p := range cli.Panics() {
		c.Violation("server-handler-panicked", map[string]any{"method": p.Method, "panic": p.Value, "stack": p.Stack})
	}

	c.Count("remote_views_with_transport_fault", faulted)
	c.Count("remote_transport_faults_hit", len(cli.FailHits()))
	c.Count("view_events_checked", viewEvents)
	c.Count("moved_into_view", movedIn)
	c.Count("moved_out_of_view", movedOut)

	var ss []string
	for _, s := range sels {
		ss = append(ss, s.String())
	}

	sort.Strings(ss)
	c.Case(vk.Hash(ss, trace), movedIn > 0 && movedOut > 0)

	if k < 2 {
		c.Sample(map[string]any{"selectors": ss, "history": trace[:min(10, len(trace))], "views": len(views)})
	}
}
