//go:build verif

// C17: output exclusivity and dependency graph consistent for any registration history.
package c17

import (
	"context"
	"fmt"
	"math/rand/v2"
	"slices"
	"sort"
	"strings"
	"sync"
	"testing"
	"testing/synctest"
	"time"

	"github.com/siderolabs/gen/optional"

	"github.com/cosi-project/runtime/pkg/controller"
	cr "github.com/cosi-project/runtime/pkg/controller/runtime"

	"verif/harness/gp"
	"verif/harness/res"
	"verif/harness/rtp"
	"verif/harness/vk"
)

func TestC17(t *testing.T) {
	vk.Run(t, "C17", "exploration", func(c *vk.C) {
		c.Rule("black box: seeded sequences of 3-8 RegisterController / RegisterQController calls (before and after Run) with valid and invalid declarations (duplicate input keys, wrong input kind " +
			"for the flavour, exclusive/shared clashes within and across controllers, duplicate names, concurrency 0) plus UpdateInputs on a later wake, against a model of the accepted set; " +
			"after every call GetDependencyGraph() must equal the model, and after the sequence one write per (namespace,type,id) checks who wakes. white box (verif facade): random " +
			"Add/Delete input/output sequences on the dependency database vs a map model. distinct = declaration-sequence hash; non-trivial = at least one registration was rejected and at " +
			"least one later registration was accepted")
		c.Assume("expectations are three-valued: must-reject only what the statement names (second exclusive holder, exclusive/shared mix, duplicate input keys), must-accept when valid under every rule, otherwise the implementation's answer is taken")
		c.Require("registrations_accepted", "registrations_rejected", "must_reject_cases", "must_accept_cases", "graph_comparisons", "notification_probes", "rejected_then_event_delivered", "db_ops", "update_inputs_calls", "update_inputs_rejected", "update_inputs_resubmitted")

		n := c.N(500, 50000)

		var wg sync.WaitGroup

		sem := make(chan struct{}, 16)

		for k := 0; k < n; k++ {
			wg.Add(1)
			sem <- struct{}{}

			go func() {
				defer wg.Done()
				defer func() { <-sem }()

				rng := rand.New(rand.NewPCG(uint64(c.Seed), uint64(k)))
				synctest.Test(t, func(*testing.T) { blackbox(c, rng, k) })
				whitebox(c, rand.New(rand.NewPCG(uint64(c.Seed), uint64(7_000_000+k))), k)
			}()
		}

		wg.Wait()

		// dynamic input updates: histories of UpdateInputs calls (valid, conflicting, re-submitted) on running controllers
		for k := 0; k < c.N(150, 15000); k++ {
			wg.Add(1)
			sem <- struct{}{}

			go func() {
				defer wg.Done()
				defer func() { <-sem }()

				rng := rand.New(rand.NewPCG(uint64(c.Seed), uint64(13_000_000+k)))
				synctest.Test(t, func(*testing.T) { updateInputsHistory(c, rng, k) })
			}()
		}

		wg.Wait()
	})
}

// updateInputsHistory: two plain controllers, each with a permanent by-id "control" input through which the harness wakes it; on a wake
// the controller submits the input set the harness has prepared through UpdateInputs. Sets are valid (must be accepted), contain
// conflicting inputs of the same namespace/type/id (must be rejected), or re-submit exactly the last accepted set (often right after a
// rejected call). After every ACCEPTED call the exported graph lists exactly that set for the controller; at the end one write per key
// of the universe must wake exactly the controllers whose accepted set matches it.
func updateInputsHistory(c *vk.C, rng *rand.Rand, k int) {
	ctlKind := rtp.Kind{NS: "ctl", Type: res.TypeD}
	names := []string{"U0", "U1"}

	type request struct {
		set  []controller.Input
		done bool
		err  error
	}

	var (
		mu      sync.Mutex
		pending = map[string]*request{}
	)

	control := func(name string) controller.Input {
		return controller.Input{Namespace: ctlKind.NS, Type: ctlKind.Type, ID: optional.Some(name), Kind: controller.InputWeak}
	}

	cfg := rtp.Cfg{MaxDelay: rng.IntN(2)}

	for _, name := range names {
		cfg.Ctrls = append(cfg.Ctrls, rtp.CtrlCfg{Name: name, Inputs: []controller.Input{control(name)}, LateAt: -1,
			Script: func(_ context.Context, r controller.Runtime, _ int) {
				mu.Lock()
				req := pending[name]
				mu.Unlock()

				if req == nil || req.done {
					return
				}

				err := r.UpdateInputs(req.set)

				mu.Lock()
				req.err, req.done = err, true
				mu.Unlock()
			}})
	}

	w, err := rtp.NewWorld(rng, cfg)
	if err != nil {
		c.Violation("world-setup-failed", err.Error())

		return
	}

	ctx, cancel := context.WithCancel(context.Background())

	defer func() {
		cancel()
		w.WaitRun()
		synctest.Wait()
	}()

	w.Run(ctx)
	rtp.Quiesce(time.Minute)

	var trace []string

	fail := func(sig string, detail map[string]any) {
		detail["mode"], detail["scenario"], detail["sequence"] = "update-inputs", k, trace
		c.Violation(sig, detail)
	}

	poke := func(name string) {
		key := gp.Key{NS: ctlKind.NS, Type: ctlKind.Type, ID: name}
		op := rtp.WUpdate

		if w.Px.Shadow(key) == nil {
			op = rtp.WCreate
		}

		_ = w.Write(ctx, op, key, "")
		rtp.Quiesce(time.Minute)
	}

	show := func(set []controller.Input) string {
		var b strings.Builder

		for _, i := range set {
			fmt.Fprintf(&b, "%s/%s/%s:k%d ", i.Namespace, short(i.Type), i.ID.ValueOr("*"), i.Kind)
		}

		return b.String()
	}

	accepted := map[string][]controller.Input{}
	for _, name := range names {
		accepted[name] = []controller.Input{control(name)}
	}

	lastRejected := map[string]bool{}
	kinds := []controller.InputKind{controller.InputWeak, controller.InputStrong, controller.InputDestroyReady}

	steps := 6 + rng.IntN(8)

	for step := 0; step < steps+len(names); step++ {
		name := names[rng.IntN(len(names))]
		set := []controller.Input{control(name)}
		class := "valid"

		// a rejected UpdateInputs may leave the controller's inputs half-updated (the statement promises "no effect" for rejected
		// registrations only); the next accepted call must repair that, so every history ends with an accepted call per controller
		closing := step >= steps
		if closing {
			name = names[step-steps]

			if !lastRejected[name] {
				continue
			}
		}

		switch {
		case closing || (lastRejected[name] && rng.IntN(2) == 0) || rng.IntN(5) == 0:
			set, class = slices.Clone(accepted[name]), "resubmit-last-accepted"
		default:
			used := map[string]bool{}

			for j := rng.IntN(4); j > 0; j-- {
				kd := rtp.Kinds[rng.IntN(len(rtp.Kinds))]
				in := controller.Input{Namespace: kd.NS, Type: kd.Type, Kind: kinds[rng.IntN(len(kinds))]}

				if rng.IntN(2) == 0 {
					in.ID = optional.Some(rtp.IDs[rng.IntN(len(rtp.IDs))])
				}

				key := fmt.Sprintf("%s/%s/%s", in.Namespace, in.Type, in.ID.ValueOr("*"))
				if used[key] {
					continue
				}

				used[key] = true
				set = append(set, in)
			}

			if len(set) > 1 && rng.IntN(3) == 0 {
				// conflicting inputs of one controller: the same namespace/type/id twice (another kind, or the very same input)
				dup := set[1+rng.IntN(len(set)-1)]
				dup.Kind = kinds[rng.IntN(len(kinds))]
				set = append(set, dup)
				class = "conflicting"
			}
		}

		rng.Shuffle(len(set), func(i, j int) { set[i], set[j] = set[j], set[i] })

		req := &request{set: set}

		mu.Lock()
		pending[name] = req
		mu.Unlock()

		poke(name)

		mu.Lock()
		done, uerr := req.done, req.err
		mu.Unlock()

		trace = append(trace, fmt.Sprintf("%s UpdateInputs(%s) [%s] -> %v", name, show(set), class, uerr))
		c.Count("update_inputs_calls", 1)

		if !done {
			fail("controller-not-woken-by-control-input", map[string]any{"controller": name})

			return
		}

		switch {
		case class == "conflicting" && uerr == nil:
			fail("conflicting-inputs-accepted", map[string]any{"controller": name, "set": show(set)})

			return
		case class != "conflicting" && uerr != nil:
			fail("valid-input-update-rejected", map[string]any{"controller": name, "set": show(set), "class": class, "err": uerr.Error()})

			return
		}

		lastRejected[name] = uerr != nil
		if uerr != nil {
			c.Count("update_inputs_rejected", 1)

			continue
		}

		if class == "resubmit-last-accepted" {
			c.Count("update_inputs_resubmitted", 1)
		}

		accepted[name] = set

		g, gerr := w.RT.GetDependencyGraph()
		if gerr != nil {
			fail("graph-export-failed", map[string]any{"err": gerr.Error()})

			return
		}

		var got, want []string

		for _, e := range graphEdges(g) {
			if strings.HasPrefix(e, name+" <- ") {
				got = append(got, e)
			}
		}

		for _, in := range set {
			want = append(want, fmt.Sprintf("%s <- %s/%s/%s kind%d", name, in.Namespace, in.Type, in.ID.ValueOrZero(), in.Kind))
		}

		sort.Strings(want)
		c.Count("graph_comparisons", 1)

		if !slices.Equal(got, want) {
			fail("graph-differs-from-accepted-set", map[string]any{"controller": name, "graph": got, "model": want})

			return
		}
	}

	// who is woken by a write to each key of the universe?
	for _, kd := range rtp.Kinds {
		for _, id := range rtp.IDs {
			key := gp.Key{NS: kd.NS, Type: kd.Type, ID: id}
			before := len(w.Wakes())
			op := rtp.WCreate

			if w.Px.Shadow(key) != nil {
				op = rtp.WUpdate
			}

			_ = w.Write(ctx, op, key, "")
			rtp.Quiesce(time.Minute)

			woke := map[string]bool{}
			for _, wk := range w.Wakes()[before:] {
				woke[wk.Probe] = true
			}

			c.Count("notification_probes", 1)

			for _, name := range names {
				must, may := false, false

				for _, in := range accepted[name] {
					if in.Namespace != kd.NS || in.Type != kd.Type || (in.ID.IsPresent() && in.ID.ValueOrZero() != id) {
						continue
					}

					if in.Kind == controller.InputDestroyReady {
						may = true
					} else {
						must = true
					}
				}

				switch {
				case must && !woke[name]:
					fail("notification-not-delivered", map[string]any{"controller": name, "inputs": show(accepted[name]), "write": key.String(), "woke": woke})

					return
				case !must && !may && woke[name]:
					fail("notification-to-unrelated-controller", map[string]any{"controller": name, "inputs": show(accepted[name]), "write": key.String(), "woke": woke})

					return
				}
			}
		}
	}

	if w.RunReturned.Load() {
		fail("runtime-stopped", map[string]any{"err": fmt.Sprint(w.RunErr)})
	}

	c.Case(vk.Hash("ui", k, trace), true)
}

type decl struct {
	Name     string
	Q        bool
	Inputs   []controller.Input
	Outputs  []controller.Output
	Conc     int // -1 unset
	AfterRun bool
}

func (d decl) String() string {
	var b strings.Builder

	fmt.Fprintf(&b, "%s(q=%v conc=%d after_run=%v) in=[", d.Name, d.Q, d.Conc, d.AfterRun)

	for _, i := range d.Inputs {
		fmt.Fprintf(&b, "%s/%s/%s:k%d ", i.Namespace, short(i.Type), i.ID.ValueOr("*"), i.Kind)
	}

	b.WriteString("] out=[")

	for _, o := range d.Outputs {
		fmt.Fprintf(&b, "%s:%d ", short(o.Type), o.Kind)
	}

	b.WriteString("]")

	return b.String()
}

func short(t string) string { return t[:1] }

var outTypes = []string{res.TypeA, res.TypeB, res.TypeC, res.TypeD}

func genDecl(rng *rand.Rand, i int, names []string) decl {
	d := decl{Name: fmt.Sprintf("R%d", i), Q: rng.IntN(2) == 0, Conc: -1}

	if len(names) > 0 && rng.IntN(10) == 0 {
		d.Name = names[rng.IntN(len(names))]
	}

	validKinds := []controller.InputKind{controller.InputWeak, controller.InputStrong, controller.InputDestroyReady}
	if d.Q {
		validKinds = []controller.InputKind{controller.InputQPrimary, controller.InputQMapped, controller.InputQMappedDestroyReady}
	}

	nIn := rng.IntN(4)
	if d.Q {
		// a queue controller normally has exactly one primary input
		kd := rtp.Kinds[rng.IntN(len(rtp.Kinds))]
		d.Inputs = append(d.Inputs, controller.Input{Namespace: kd.NS, Type: kd.Type, Kind: controller.InputQPrimary})
	}

	for j := 0; j < nIn; j++ {
		kd := rtp.Kinds[rng.IntN(len(rtp.Kinds))]
		in := controller.Input{Namespace: kd.NS, Type: kd.Type, Kind: validKinds[rng.IntN(len(validKinds))]}

		if d.Q && in.Kind == controller.InputQPrimary {
			in.Kind = controller.InputQMapped
		}

		if rng.IntN(3) == 0 {
			in.ID = optional.Some(rtp.IDs[rng.IntN(len(rtp.IDs))])
		}

		if rng.IntN(12) == 0 { // wrong kind for the flavour
			in.Kind = controller.InputKind(rng.IntN(6))
		}

		d.Inputs = append(d.Inputs, in)

		if rng.IntN(10) == 0 { // duplicate key, maybe with another kind
			dup := in
			dup.Kind = validKinds[rng.IntN(len(validKinds))]
			d.Inputs = append(d.Inputs, dup)
		}
	}

	rng.Shuffle(len(d.Inputs), func(a, b int) { d.Inputs[a], d.Inputs[b] = d.Inputs[b], d.Inputs[a] })

	for j := rng.IntN(3); j > 0; j-- {
		d.Outputs = append(d.Outputs, controller.Output{Type: outTypes[rng.IntN(len(outTypes))], Kind: controller.OutputKind(rng.IntN(2))})
	}

	if d.Q && rng.IntN(8) == 0 {
		d.Conc = rng.IntN(3) // 0 is invalid
	}

	return d
}

type model struct {
	exclusive map[string]string
	shared    map[string]map[string]bool
	accepted  map[string]decl
}

func (m *model) edges() []string {
	var out []string

	for t, n := range m.exclusive {
		out = append(out, fmt.Sprintf("%s -> %s exclusive", n, t))
	}

	for t, set := range m.shared {
		for n := range set {
			out = append(out, fmt.Sprintf("%s -> %s shared", n, t))
		}
	}

	for n, d := range m.accepted {
		for _, in := range d.Inputs {
			out = append(out, fmt.Sprintf("%s <- %s/%s/%s kind%d", n, in.Namespace, in.Type, in.ID.ValueOrZero(), in.Kind))
		}
	}

	sort.Strings(out)

	return out
}

func graphEdges(g *controller.DependencyGraph) []string {
	var out []string

	for _, e := range g.Edges {
		switch e.EdgeType {
		case controller.EdgeOutputExclusive:
			out = append(out, fmt.Sprintf("%s -> %s exclusive", e.ControllerName, e.ResourceType))
		case controller.EdgeOutputShared:
			out = append(out, fmt.Sprintf("%s -> %s shared", e.ControllerName, e.ResourceType))
		default:
			kind := map[controller.DependencyEdgeType]controller.InputKind{
				controller.EdgeInputStrong: controller.InputStrong, controller.EdgeInputWeak: controller.InputWeak, controller.EdgeInputDestroyReady: controller.InputDestroyReady,
				controller.EdgeInputQPrimary: controller.InputQPrimary, controller.EdgeInputQMapped: controller.InputQMapped, controller.EdgeInputQMappedDestroyReady: controller.InputQMappedDestroyReady,
			}[e.EdgeType]
			out = append(out, fmt.Sprintf("%s <- %s/%s/%s kind%d", e.ControllerName, e.ResourceNamespace, e.ResourceType, e.ResourceID, kind))
		}
	}

	sort.Strings(out)

	return out
}

// classify returns "must-reject", "must-accept" or "free" for a declaration given the model.
func classify(m *model, d decl) (string, string) {
	// what the statement names
	seen := map[string]bool{}

	for _, in := range d.Inputs {
		k := fmt.Sprintf("%s|%s|%v|%s", in.Namespace, in.Type, in.ID.IsPresent(), in.ID.ValueOrZero())
		if seen[k] {
			return "must-reject", "conflicting (same namespace/type/id) inputs"
		}

		seen[k] = true
	}

	ex, sh := map[string]bool{}, map[string]bool{}

	for _, o := range d.Outputs {
		if o.Kind == controller.OutputExclusive {
			ex[o.Type] = true
		} else {
			sh[o.Type] = true
		}
	}

	for t := range ex {
		if sh[t] {
			return "must-reject", "exclusive and shared claim on one type in one declaration"
		}

		if holder, ok := m.exclusive[t]; ok && holder != d.Name {
			return "must-reject", "type already held exclusively by " + holder
		}

		if len(m.shared[t]) > 0 {
			return "must-reject", "exclusive claim on a type with shared holders"
		}
	}

	for t := range sh {
		if _, ok := m.exclusive[t]; ok {
			return "must-reject", "shared claim on a type held exclusively"
		}
	}

	// valid under every rule?
	valid := true

	if _, dup := m.accepted[d.Name]; dup {
		valid = false
	}

	outSeen := map[string]bool{}

	for _, o := range d.Outputs {
		if outSeen[o.Type] {
			valid = false
		}

		outSeen[o.Type] = true
	}

	prim := 0

	for _, in := range d.Inputs {
		q := in.Kind == controller.InputQPrimary || in.Kind == controller.InputQMapped || in.Kind == controller.InputQMappedDestroyReady
		if q != d.Q {
			valid = false
		}

		if in.Kind == controller.InputQPrimary {
			prim++

			if in.ID.IsPresent() {
				valid = false
			}
		}
	}

	if d.Q && (prim != 1 || d.Conc == 0) {
		valid = false
	}

	if valid {
		return "must-accept", ""
	}

	return "free", ""
}

func blackbox(c *vk.C, rng *rand.Rand, k int) {
	w, err := rtp.NewWorld(rng, rtp.Cfg{MaxDelay: rng.IntN(2)})
	if err != nil {
		c.Violation("world-setup-failed", err.Error())

		return
	}

	ctx, cancel := context.WithCancel(context.Background())
	started := false

	defer func() {
		cancel()

		if started {
			w.WaitRun()
		}

		synctest.Wait()
	}()

	m := &model{exclusive: map[string]string{}, shared: map[string]map[string]bool{}, accepted: map[string]decl{}}
	n := 3 + rng.IntN(6)
	runAt := rng.IntN(n + 1)

	var (
		trace               []string
		names               []string
		rejected            int
		accepted            int
		acceptedAfterReject bool
	)

	fail := func(sig string, detail map[string]any) {
		detail["scenario"] = k
		detail["sequence"] = trace
		c.Violation(sig, detail)
	}

	start := func() {
		if !started {
			started = true
			w.Run(ctx)
			rtp.Quiesce(time.Minute)
		}
	}

	for i := 0; i < n; i++ {
		if i == runAt {
			start()
		}

		d := genDecl(rng, i, names)
		d.AfterRun = started
		class, why := classify(m, d)

		var regErr error

		if d.Q {
			q := &rtp.QCfg{Name: d.Name, Inputs: d.Inputs, Outputs: d.Outputs}
			if d.Conc >= 0 {
				q.Concurrency = uint(d.Conc)
				q.ConcurrencySet = true
			}

			regErr = w.RegisterQ(q)
		} else {
			regErr = w.RegisterCtrl(&rtp.CtrlCfg{Name: d.Name, Inputs: d.Inputs, Outputs: d.Outputs, LateAt: -1})
		}

		trace = append(trace, fmt.Sprintf("%s => class=%s err=%v", d, class, regErr))

		switch class {
		case "must-reject":
			c.Count("must_reject_cases", 1)

			if regErr == nil {
				fail("invalid-registration-accepted", map[string]any{"decl": d.String(), "why": why})

				return
			}
		case "must-accept":
			c.Count("must_accept_cases", 1)

			if regErr != nil {
				fail("valid-registration-rejected", map[string]any{"decl": d.String(), "err": regErr.Error()})

				return
			}
		}

		if regErr == nil {
			accepted++

			if rejected > 0 {
				acceptedAfterReject = true
			}

			m.accepted[d.Name] = d
			names = append(names, d.Name)

			for _, o := range d.Outputs {
				if o.Kind == controller.OutputExclusive {
					m.exclusive[o.Type] = d.Name
				} else {
					if m.shared[o.Type] == nil {
						m.shared[o.Type] = map[string]bool{}
					}

					m.shared[o.Type][d.Name] = true
				}
			}
		} else {
			rejected++
		}

		g, err := w.RT.GetDependencyGraph()
		if err != nil {
			fail("graph-export-failed", map[string]any{"err": err.Error()})

			return
		}

		c.Count("graph_comparisons", 1)

		got, want := graphEdges(g), m.edges()
		if !slices.Equal(got, want) {
			sig := "graph-differs-from-accepted-set"
			if regErr != nil {
				sig = "rejected-registration-changed-graph"
			}

			fail(sig, map[string]any{"decl": d.String(), "reg_err": fmt.Sprint(regErr), "graph": got, "model": want})

			return
		}

		// invariants straight on the exported graph
		exHolders, shHolders := map[string][]string{}, map[string][]string{}

		for _, e := range g.Edges {
			if e.EdgeType == controller.EdgeOutputExclusive {
				exHolders[e.ResourceType] = append(exHolders[e.ResourceType], e.ControllerName)
			}

			if e.EdgeType == controller.EdgeOutputShared {
				shHolders[e.ResourceType] = append(shHolders[e.ResourceType], e.ControllerName)
			}
		}

		for t, hs := range exHolders {
			if len(hs) > 1 || len(shHolders[t]) > 0 {
				fail("output-exclusivity-broken", map[string]any{"type": t, "exclusive": hs, "shared": shHolders[t]})

				return
			}
		}
	}

	start()

	c.Count("registrations_accepted", accepted)
	c.Count("registrations_rejected", rejected)

	// notifications: one write per (namespace,type,id); who wakes?
	for _, kd := range rtp.Kinds {
		for _, id := range rtp.IDs {
			key := gp.Key{NS: kd.NS, Type: kd.Type, ID: id}

			rtp.Quiesce(time.Minute)

			before := len(w.Wakes())
			op := rtp.WCreate

			if w.Px.Shadow(key) != nil {
				op = rtp.WUpdate
			}

			if err := w.Write(ctx, op, key, ""); err != nil {
				fail("write-failed", map[string]any{"err": err.Error()})

				return
			}

			rtp.Quiesce(time.Minute)

			woke := map[string]bool{}

			for _, wk := range w.Wakes()[before:] {
				if wk.Kind == "hook" {
					continue
				}

				woke[wk.Probe] = true
			}

			c.Count("notification_probes", 1)

			if rejected > 0 {
				c.Count("rejected_then_event_delivered", 1)
			}

			for name, d := range m.accepted {
				must, may := false, false

				for _, in := range d.Inputs {
					if in.Namespace != kd.NS || in.Type != kd.Type {
						continue
					}

					if in.ID.IsPresent() && in.ID.ValueOrZero() != id {
						continue
					}

					if in.Kind == controller.InputDestroyReady || in.Kind == controller.InputQMappedDestroyReady {
						may = true
					} else {
						must = true
					}
				}

				switch {
				case must && !woke[name]:
					fail("notification-not-delivered", map[string]any{"controller": name, "decl": d.String(), "write": key.String(), "woke": woke})

					return
				case !must && !may && woke[name]:
					fail("notification-to-unrelated-controller", map[string]any{"controller": name, "decl": d.String(), "write": key.String(), "woke": woke})

					return
				}
			}

			for name := range woke {
				if _, ok := m.accepted[name]; !ok {
					fail("rejected-controller-was-notified", map[string]any{"controller": name, "write": key.String()})

					return
				}
			}
		}
	}

	if w.RunReturned.Load() {
		fail("runtime-stopped", map[string]any{"err": fmt.Sprint(w.RunErr)})
	}

	c.Case(vk.Hash(trace), rejected > 0 && acceptedAfterReject)

	if k < 3 {
		c.Sample(map[string]any{"mode": "blackbox", "sequence": trace})
	}
}

// ---- white box: dependency database vs model ----------------------------------------------------------------------------
func whitebox(c *vk.C, rng *rand.Rand, k int) {
	db, err := cr.VerifNewDatabase()
	if err != nil {
		c.Violation("db-create-failed", err.Error())

		return
	}

	type inKey struct {
		ns, typ, id string
		hasID       bool
	}

	inputs := map[string]map[inKey]controller.Input{} // controller -> key -> input
	exclusive := map[string]string{}
	shared := map[string]map[string]bool{}
	ctrls := []string{"a", "b", "c"}

	var trace []string

	fail := func(sig string, detail map[string]any) {
		detail["ops"] = trace
		detail["mode"] = "whitebox"
		c.Violation(sig, detail)
	}

	// answers handed out earlier stay what they were: event delivery iterates a dependents list after the database lock is
	// released, so a list that changes under a later mutation sends notifications to the wrong (or to a non-existent) controller
	type held struct {
		at        int
		got, copy []string
	}

	var answers []held

	for step := 0; step < 30+rng.IntN(40); step++ {
		for _, h := range answers {
			if !slices.Equal(h.got, h.copy) {
				fail("db-answer-changed-after-later-mutation", map[string]any{"answer_of_step": h.at, "was": h.copy, "now": h.got, "step": step})

				return
			}
		}

		name := ctrls[rng.IntN(len(ctrls))]
		kd := rtp.Kinds[rng.IntN(len(rtp.Kinds))]
		in := controller.Input{Namespace: kd.NS, Type: kd.Type, Kind: controller.InputKind(rng.IntN(6))}

		if rng.IntN(2) == 0 {
			in.ID = optional.Some(rtp.IDs[rng.IntN(len(rtp.IDs))])
		}

		ik := inKey{in.Namespace, in.Type, in.ID.ValueOrZero(), in.ID.IsPresent()}

		c.Count("db_ops", 1)

		switch rng.IntN(5) {
		case 0, 1:
			err := db.AddControllerInput(name, in)
			_, dup := inputs[name][ik]
			trace = append(trace, fmt.Sprintf("add-input %s %v -> %v", name, ik, err))

			if dup != (err != nil) {
				fail("db-add-input-wrong", map[string]any{"dup_in_model": dup, "err": fmt.Sprint(err)})

				return
			}

			if err == nil {
				if inputs[name] == nil {
					inputs[name] = map[inKey]controller.Input{}
				}

				inputs[name][ik] = in
			}
		case 2:
			// delete by key: kind may differ from the stored one (the +-1 neighbourhood case)
			err := db.DeleteControllerInput(name, in)
			_, had := inputs[name][ik]
			trace = append(trace, fmt.Sprintf("del-input %s %v -> %v", name, ik, err))

			if had != (err == nil) {
				fail("db-delete-input-wrong", map[string]any{"had_in_model": had, "err": fmt.Sprint(err)})

				return
			}

			delete(inputs[name], ik)
		case 3:
			out := controller.Output{Type: outTypes[rng.IntN(len(outTypes))], Kind: controller.OutputKind(rng.IntN(2))}
			err := db.AddControllerOutput(name, out)
			_, exHeld := exclusive[out.Type]
			want := !exHeld

			if out.Kind == controller.OutputExclusive && len(shared[out.Type]) > 0 {
				want = false
			}

			if out.Kind == controller.OutputShared && shared[out.Type][name] {
				want = false
			}

			trace = append(trace, fmt.Sprintf("add-output %s %s kind%d -> %v", name, short(out.Type), out.Kind, err))

			if want != (err == nil) {
				fail("db-add-output-wrong", map[string]any{"want_ok": want, "err": fmt.Sprint(err)})

				return
			}

			if err == nil {
				if out.Kind == controller.OutputExclusive {
					exclusive[out.Type] = name
				} else {
					if shared[out.Type] == nil {
						shared[out.Type] = map[string]bool{}
					}

					shared[out.Type][name] = true
				}
			}
		case 4:
			id := rtp.IDs[rng.IntN(len(rtp.IDs))]
			got, err := db.GetDependentControllers(controller.Input{Namespace: kd.NS, Type: kd.Type, ID: optional.Some(id)})
			if err != nil {
				fail("db-get-dependents-failed", map[string]any{"err": err.Error()})

				return
			}

			want := map[string]bool{}

			for n, ins := range inputs {
				for key := range ins {
					if key.ns == kd.NS && key.typ == kd.Type && (!key.hasID || key.id == id) {
						want[n] = true
					}
				}
			}

			answers = append(answers, held{at: step, got: got, copy: slices.Clone(got)})
			c.Count("db_answers_held_across_mutations", 1)

			gotSet := map[string]bool{}
			for _, g := range got {
				gotSet[g] = true
			}

			if len(gotSet) != len(want) {
				fail("db-dependents-wrong", map[string]any{"got": got, "want": want, "key": fmt.Sprintf("%v/%s", kd, id)})

				return
			}

			for n := range want {
				if !gotSet[n] {
					fail("db-dependents-wrong", map[string]any{"got": got, "want": want, "key": fmt.Sprintf("%v/%s", kd, id)})

					return
				}
			}
		}

		// per-controller input listing equals the model
		for _, n := range ctrls {
			got, _ := db.GetControllerInputs(n)
			if len(got) != len(inputs[n]) {
				fail("db-controller-inputs-wrong", map[string]any{"controller": n, "got": len(got), "want": len(inputs[n])})

				return
			}
		}
	}

	c.Case(vk.Hash("wb", trace), true)
}
