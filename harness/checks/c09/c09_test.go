//go:build verif

// C09: reconcile queue - per-item exclusion, coalescing, no loss, honoured backoff.
package c09

import (
	"context"
	"fmt"
	"math/rand/v2"
	"sort"
	"strings"
	"sync"
	"testing"
	"testing/synctest"
	"time"

	"github.com/cosi-project/runtime/pkg/controller"
	cr "github.com/cosi-project/runtime/pkg/controller/runtime"

	"verif/harness/gp"
	"verif/harness/rtp"
	"verif/harness/vk"
)

func TestC09(t *testing.T) {
	vk.Run(t, "C09", "exploration", func(c *vk.C) {
		c.Rule("white box (verif facade over the internal queue, synctest bubble): seeded sequences of Put / Get-by-worker / Release / Requeue(after d) / double release / clock advance over <= 4 keys and " +
			"<= 4 workers, quiescing after every step, against a per-key model (idle | pending(value, readyAt) | held(+parked value)); full stack: probe QController with outcome scripts " +
			"(ok, error, requeue with/without error, skip, panic), concurrency 1-4, writes landing during processing and during back-off. distinct = step-trace hash; non-trivial = the sequence " +
			"contained a Put on a held key, a Requeue overtaken by a fresh Put, and a delivery that had to wait for its ready time")
		c.Assume("order among several ready items is not judged (the statement gives none)")
		c.Require("puts_on_held_key", "requeues", "requeue_overtaken_by_put", "deliveries", "deliveries_after_wait", "len_checks", "fullstack_scenarios", "fullstack_requeue_gaps_checked", "fullstack_put_during_processing", "backoff_streaks_checked")

		n := c.N(3000, 300000)

		var wg sync.WaitGroup

		sem := make(chan struct{}, 16)

		for k := 0; k < n; k++ {
			wg.Add(1)
			sem <- struct{}{}

			go func() {
				defer wg.Done()
				defer func() { <-sem }()

				rng := rand.New(rand.NewPCG(uint64(c.Seed), uint64(k)))
				synctest.Test(t, func(*testing.T) { whitebox(c, rng, k) })
			}()
		}

		wg.Wait()

		m := c.N(300, 20000)

		for k := 0; k < m; k++ {
			wg.Add(1)
			sem <- struct{}{}

			go func() {
				defer wg.Done()
				defer func() { <-sem }()

				rng := rand.New(rand.NewPCG(uint64(c.Seed), uint64(5_000_000+k)))
				synctest.Test(t, func(*testing.T) { fullstack(c, rng, k) })
			}()
		}

		wg.Wait()

		// back-off streaks: growth over 8 consecutive failures, reset by every kind of successful reconcile
		for k := 0; k < c.N(90, 6000); k++ {
			wg.Add(1)
			sem <- struct{}{}

			go func() {
				defer wg.Done()
				defer func() { <-sem }()

				rng := rand.New(rand.NewPCG(uint64(c.Seed), uint64(9_000_000+k)))
				synctest.Test(t, func(*testing.T) { backoffStreak(c, rng, k) })
			}()
		}

		wg.Wait()
	})
}

// backoffStreak: item x fails 8 times in a row (error / panic; an explicit requeue interval would replace the back-off), then one successful reconcile of a seeded kind
// (plain ok, skip, or ok-with-requeue-request), then fails again. Constant-free judgement: every retry gap of the streak is > 0, the 8th
// is more than twice the 1st (growth), and the retry gap after the post-success failure is less than half the 8th (reset on success).
func backoffStreak(c *vk.C, rng *rand.Rand, k int) {
	kA := rtp.Kinds[0]
	x := gp.Key{NS: kA.NS, Type: kA.Type, ID: "x"}

	var outcomes []string

	// every sixth scenario the streak is long (45 failures, about 40 virtual minutes): the delay must stay up for as long as the
	// item keeps failing
	streakLen := 8
	if k%6 == 5 {
		streakLen = 45
	}

	for i := 0; i < streakLen; i++ {
		outcomes = append(outcomes, []string{"err", "err", "panic"}[rng.IntN(3)])
	}

	reqMS := 50 + rng.IntN(1500)
	success := []string{"ok", "skip", fmt.Sprintf("requeue:%d", reqMS)}[k%3]
	outcomes = append(outcomes, success, "err", "ok", "ok")

	cfg := rtp.Cfg{MaxDelay: rng.IntN(3), QCtrls: []rtp.QCfg{{
		Name: "Q", Inputs: []controller.Input{{Namespace: kA.NS, Type: kA.Type, Kind: controller.InputQPrimary}},
		Concurrency: uint(1 + rng.IntN(3)), Outcomes: map[string][]string{"x": outcomes},
	}}}

	w, err := rtp.NewWorld(rng, cfg)
	if err != nil {
		c.Violation("world-setup-failed", err.Error())

		return
	}

	ctx, cancel := context.WithCancel(context.Background())

	_ = w.Write(ctx, rtp.WCreate, x, "")
	w.Run(ctx)

	// other items keep the queue busy meanwhile
	for i := 0; i < 4; i++ {
		_ = w.Write(ctx, rtp.WCreate, gp.Key{NS: kA.NS, Type: kA.Type, ID: []string{"y", "z"}[i%2] + fmt.Sprint(i)}, "")
		rtp.Quiesce(time.Duration(rng.IntN(3000)) * time.Millisecond)
	}

	rtp.Quiesce(time.Duration(streakLen) * 2 * time.Minute) // the streak and (for ok-with-requeue) the requested re-run are over

	recs := func() []*rtp.Wake {
		var out []*rtp.Wake

		for _, wk := range w.Wakes() {
			if wk.Kind == "reconcile" && wk.Target == x {
				out = append(out, wk)
			}
		}

		return out
	}

	// plain ok / skip schedule nothing: the next reconcile needs a fresh notification
	for i := 0; i < 4 && len(recs()) < len(outcomes); i++ {
		_ = w.Write(ctx, rtp.WUpdate, x, "")
		rtp.Quiesce(10 * time.Minute)
	}

	rs := recs()

	cancel()
	w.WaitRun()
	synctest.Wait()

	if len(rs) < streakLen+3 {
		c.Violation("failed-or-requeued-item-never-retried", map[string]any{"mode": "backoff-streak", "outcomes": outcomes, "reconciles": len(rs)})

		return
	}

	var gaps []float64

	for i := 0; i < streakLen; i++ {
		gaps = append(gaps, rs[i+1].AtMS-rs[i].EndMS)
	}

	after := rs[streakLen+2].AtMS - rs[streakLen+1].EndMS // retry of the failure that follows the successful reconcile
	detail := map[string]any{"mode": "backoff-streak", "outcomes": outcomes, "gaps_ms": gaps, "gap_after_success_then_failure_ms": after, "success_kind": success}

	c.Count("backoff_streaks_checked", 1)
	c.Count("backoff_reset_after_"+strings.SplitN(success, ":", 2)[0], 1)
	c.Case(vk.Hash("bo", k, outcomes), true)

	for i, g := range gaps {
		if g <= 0 {
			detail["index"] = i
			c.Violation("retry-without-backoff", detail)

			return
		}
	}

	// nothing succeeded inside the streak, so the delay may not collapse (a factor of 8 leaves room for any jitter)
	for i := 0; i+1 < len(gaps); i++ {
		if gaps[i+1] < gaps[i]/8 {
			detail["index"] = i + 1
			c.Violation("backoff-reset-without-success", detail)

			return
		}
	}

	if streakLen > 8 {
		c.Count("backoff_long_streaks_checked", 1)
	}

	switch {
	case gaps[7] <= 2*gaps[0]:
		c.Violation("backoff-not-growing", detail)
	case after >= gaps[len(gaps)-1]/2:
		c.Violation("backoff-not-reset-on-success", detail)
	case after <= 0:
		c.Violation("retry-without-backoff", detail)
	}
}

type kstate struct {
	pending   bool
	value     int
	readyAt   time.Time
	held      bool
	parked    bool
	parkedVal int
	heldVal   int
}

func whitebox(c *vk.C, rng *rand.Rand, k int) {
	ctx, cancel := context.WithCancel(context.Background())
	defer func() {
		cancel()
		synctest.Wait()
	}()

	q := cr.VerifNewQueue[string, int]()

	go q.Run(ctx)
	synctest.Wait()

	keys := []string{"a", "b", "c", "d"}[:1+rng.IntN(4)]
	workers := 1 + rng.IntN(4)
	model := map[string]*kstate{}

	for _, key := range keys {
		model[key] = &kstate{}
	}

	held := map[string]*cr.VerifQueueItem[string, int]{}
	released := []*cr.VerifQueueItem[string, int]{}

	var trace []string

	seq := 0
	putsOnHeld, requeues, overtaken, deliveries, waited := 0, 0, 0, 0, 0

	bad := func(sig, f string, a ...any) {
		c.Violation(sig, map[string]any{"mode": "whitebox", "scenario": k, "problem": fmt.Sprintf(f, a...), "trace": trace})
	}

	checkLen := func() bool {
		want := 0

		for _, st := range model {
			if st.pending {
				want++
			}

			if st.parked {
				want++
			}
		}

		c.Count("len_checks", 1)
		synctest.Wait() // the queue adjusts its length right after handing an item over: read it at a quiescent point

		if got := q.Len(); got != int64(want) {
			bad("queue-length-wrong", "Len() = %d, model has %d pending + parked items", got, want)

			return false
		}

		return true
	}

	steps := 20 + rng.IntN(60)

	for s := 0; s < steps; s++ {
		now := time.Now()

		switch p := rng.IntN(100); {
		case p < 30: // put
			key := keys[rng.IntN(len(keys))]
			seq++
			trace = append(trace, fmt.Sprintf("put %s=%d", key, seq))
			q.Put(key, seq)
			synctest.Wait()

			st := model[key]

			switch {
			case st.held:
				st.parked, st.parkedVal = true, seq
				putsOnHeld++
			case st.pending:
				if st.readyAt.After(now) {
					overtaken++
				}

				st.value = seq
				if now.Before(st.readyAt) {
					st.readyAt = now
				}
			default:
				st.pending, st.value, st.readyAt = true, seq, now
			}
		case p < 60: // get
			if len(held) >= workers {
				continue
			}

			synctest.Wait()

			var item *cr.VerifQueueItem[string, int]

			select {
			case item = <-q.Get():
			default:
			}

			var ready []string

			for key, st := range model {
				if st.pending && !st.readyAt.After(now) {
					ready = append(ready, key)
				}
			}

			sort.Strings(ready)

			if item == nil {
				trace = append(trace, "get -> nothing")

				if len(ready) > 0 {
					bad("ready-item-not-delivered", "a worker is free and %v is ready but Get delivered nothing", ready)

					return
				}

				continue
			}

			key, val := item.Get()
			trace = append(trace, fmt.Sprintf("get -> %s=%d", key, val))
			st := model[key]

			switch {
			case st == nil:
				bad("unknown-key-delivered", "delivered %s", key)

				return
			case st.held:
				bad("item-handed-to-two-workers", "key %s delivered while another worker still holds it", key)

				return
			case !st.pending:
				bad("delivery-without-notification", "key %s delivered though nothing is pending for it", key)

				return
			case st.readyAt.After(now):
				bad("delivered-before-requested-time", "key %s delivered %s before its requeue time without a fresh notification", key, st.readyAt.Sub(now))

				return
			case val != st.value:
				bad("delivery-carries-stale-value", "key %s delivered with value %d, latest put value is %d", key, val, st.value)

				return
			}

			if st.readyAt.After(c0(now, st)) {
				waited++
			}

			st.pending, st.held, st.heldVal = false, true, val
			held[key] = item
			deliveries++
		case p < 75: // release
			for key, item := range held {
				trace = append(trace, "release "+key)
				item.Release()
				synctest.Wait()

				st := model[key]
				st.held = false

				if st.parked {
					st.parked, st.pending, st.value, st.readyAt = false, true, st.parkedVal, time.Now()
				}

				delete(held, key)
				released = append(released, item)

				break
			}
		case p < 88: // requeue after d
			for key, item := range held {
				d := time.Duration(1+rng.IntN(5000)) * time.Millisecond
				if rng.IntN(8) == 0 {
					d = -time.Duration(1+rng.IntN(50)) * time.Millisecond // a requeue time in the past: ready at once
				}

				trace = append(trace, fmt.Sprintf("requeue %s after %s", key, d))
				item.Requeue(time.Now().Add(d))
				synctest.Wait()

				st := model[key]
				st.held, st.pending, st.value, st.readyAt = false, true, st.heldVal, time.Now().Add(d)
				requeues++

				if st.parked {
					st.parked, st.value = false, st.parkedVal
					if time.Now().Before(st.readyAt) {
						st.readyAt = time.Now()
					}

					overtaken++
				}

				delete(held, key)
				released = append(released, item)

				break
			}
		case p < 92: // releasing an item twice must be a no-op
			if len(released) > 0 {
				it := released[rng.IntN(len(released))]
				trace = append(trace, "double-release "+it.Key())
				it.Release()
				synctest.Wait()
			}
		default:
			d := time.Duration(1+rng.IntN(3000)) * time.Millisecond
			trace = append(trace, "advance "+d.String())
			time.Sleep(d)
			synctest.Wait()
		}

		if !checkLen() {
			return
		}
	}

	// drain: after a long sleep every pending item must come out, with the latest value
	for key, item := range held {
		item.Release()
		synctest.Wait()

		st := model[key]
		st.held = false

		if st.parked {
			st.parked, st.pending, st.value = false, true, st.parkedVal
		}
	}

	time.Sleep(time.Hour)
	synctest.Wait()

	for {
		var item *cr.VerifQueueItem[string, int]

		select {
		case item = <-q.Get():
		default:
		}

		if item == nil {
			break
		}

		key, val := item.Get()
		st := model[key]

		if st == nil || !st.pending || st.value != val {
			bad("drain-delivery-wrong", "drain delivered %s=%d, model %+v", key, val, st)

			return
		}

		st.pending = false

		item.Release()
		synctest.Wait()
	}

	for key, st := range model {
		if st.pending {
			bad("notification-lost", "key %s (value %d) was never delivered although workers are free and an hour passed", key, st.value)

			return
		}
	}

	c.Count("puts_on_held_key", putsOnHeld)
	c.Count("requeues", requeues)
	c.Count("requeue_overtaken_by_put", overtaken)
	c.Count("deliveries", deliveries)
	c.Count("deliveries_after_wait", waited)
	c.Case(vk.Hash(trace), putsOnHeld > 0 && overtaken > 0 && requeues > 0)

	if k < 3 {
		c.Sample(map[string]any{"mode": "whitebox", "keys": keys, "workers": workers, "trace": trace})
	}
}

// c0 is a helper returning the time an item became pending if known (zero: counts as waited when readyAt was in the future at put time).
func c0(now time.Time, st *kstate) time.Time { return now.Add(-time.Millisecond) }

// ---- full stack ------------------------------------------------------------------------------------------------------
func fullstack(c *vk.C, rng *rand.Rand, k int) {
	kA := rtp.Kinds[0]
	ids := []string{"x", "y", "z"}[:1+rng.IntN(3)]
	outcomes := map[string][]string{}

	for _, id := range ids {
		var o []string

		for i := 4 + rng.IntN(8); i > 0; i-- {
			d := 100 + rng.IntN(3000)
			o = append(o, []string{"ok", "ok", "err", "panic", fmt.Sprintf("requeue:%d", d), fmt.Sprintf("requeueerr:%d", d), "skip"}[rng.IntN(7)])
		}

		outcomes[id] = o
	}

	cfg := rtp.Cfg{MaxDelay: rng.IntN(3), QCtrls: []rtp.QCfg{{
		Name: "Q", Inputs: []controller.Input{{Namespace: kA.NS, Type: kA.Type, Kind: controller.InputQPrimary}},
		Concurrency: uint(1 + rng.IntN(4)), Busy: []int{rng.IntN(20), rng.IntN(5), 0}, Outcomes: outcomes,
	}}}

	if rng.IntN(3) == 0 {
		cfg.Cached = []rtp.Kind{kA}
	}

	w, err := rtp.NewWorld(rng, cfg)
	if err != nil {
		c.Violation("world-setup-failed", err.Error())

		return
	}

	ctx, cancel := context.WithCancel(context.Background())
	s := &rtp.Scenario{W: w, Rng: rng, Ctx: ctx, Cancel: cancel}

	w.Run(ctx)

	write := func() {
		id := ids[rng.IntN(len(ids))]
		key := gp.Key{NS: kA.NS, Type: kA.Type, ID: id}
		op := rtp.WUpdate

		if w.Px.Shadow(key) == nil {
			op = rtp.WCreate
		} else if rng.IntN(8) == 0 {
			op = rtp.WDestroy
		}

		_ = w.Write(ctx, op, key, "")
	}

	for i := 10 + rng.IntN(30); i > 0; i-- {
		write()

		switch rng.IntN(4) {
		case 0:
			time.Sleep(time.Duration(rng.IntN(25)) * time.Millisecond) // lands while the item is being processed
		case 1:
			time.Sleep(time.Duration(rng.IntN(2500)) * time.Millisecond) // lands during a back-off / requeue interval
		case 2:
			rtp.Quiesce(2 * time.Minute)
		}
	}

	rtp.Quiesce(2 * time.Hour)

	_ = s

	q := w.QProbes()["Q"]
	if n := q.Overlaps.Load(); n > 0 {
		c.Violation("item-handed-to-two-workers", map[string]any{"mode": "fullstack", "overlapping_invocations": n, "config": cfg})
	}

	log := w.Px.Log()
	wakes := w.Wakes()
	byID := map[string][]*rtp.Wake{}

	for _, wk := range wakes {
		if wk.Kind == "reconcile" {
			byID[wk.Target.ID] = append(byID[wk.Target.ID], wk)
		}
	}

	putDuring := 0
	deliveries := w.Px.Deliveries()

	for id, recs := range byID {
		for i, wk := range recs {
			// writes that committed while this invocation ran
			for _, cm := range log {
				if cm.Key.ID == id && cm.Actor == "writer" {
					at := float64(time.Unix(0, cm.At).Sub(w.Start).Microseconds()) / 1000
					if at > wk.AtMS && at < wk.EndMS {
						putDuring++
					}
				}
			}

			if !strings.HasPrefix(wk.Fault, "requeue") || i+1 >= len(recs) {
				continue
			}

			var ms int

			_, _ = fmt.Sscanf(wk.Fault[strings.Index(wk.Fault, ":")+1:], "%d", &ms)

			next := recs[i+1]
			gap := next.AtMS - wk.EndMS

			c.Count("fullstack_requeue_gaps_checked", 1)

			if gap+0.001 >= float64(ms) {
				continue
			}

			// earlier than requested: a fresh notification must have arrived - an event for this id handed to the runtime's
			// watch channel between the hand-out of this invocation and the next one (events at the very instant of the hand-out
			// are counted as fresh: lenient, never a false alarm)
			fresh := false

			for _, dl := range deliveries {
				if dl.Key.ID == id {
					at := float64(time.Unix(0, dl.At).Sub(w.Start).Microseconds()) / 1000
					if at >= wk.AtMS && at <= next.AtMS {
						fresh = true
					}
				}
			}

			if !fresh {
				c.Violation("delivered-before-requested-time", map[string]any{"mode": "fullstack", "id": id, "requested_ms": ms, "gap_ms": gap, "invocation": wk.N, "config": cfg})
			}
		}

		last := recs[len(recs)-1]
		if last.Fault == "err" || last.Fault == "panic" || strings.HasPrefix(last.Fault, "requeue") {
			c.Violation("failed-or-requeued-item-never-retried", map[string]any{"mode": "fullstack", "id": id, "last_outcome": last.Fault, "n": last.N, "at_ms": last.AtMS, "config": cfg})
		}
	}

	for _, p := range rtp.CheckWakeups(w, nil) {
		c.Violation("notification-lost-"+p.Sig, map[string]any{"mode": "fullstack", "problem": p, "config": cfg})
	}

	cancel()
	w.WaitRun()
	synctest.Wait()

	c.Count("fullstack_scenarios", 1)
	c.Count("fullstack_put_during_processing", putDuring)
	c.Count("fullstack_reconciles", len(wakes))
	c.Case(vk.Hash("fs", k, outcomes), putDuring > 0)

	if k < 2 {
		c.Sample(map[string]any{"mode": "fullstack", "outcomes": outcomes, "concurrency": cfg.QCtrls[0].Concurrency, "reconciles": len(wakes)})
	}
}
