//go:build verif

// C05: no lost wake-ups - every input change reaches every dependent controller.
package c05

import (
	"context"
	"math/rand/v2"
	"runtime"
	"sync"
	"sync/atomic"
	"syscall"
	"testing"
	"testing/synctest"
	"time"

	"github.com/cosi-project/runtime/pkg/controller"

	"verif/harness/gp"
	"verif/harness/res"

	"verif/harness/rtp"
	"verif/harness/vk"
)

func TestC05(t *testing.T) {
	vk.Run(t, "C05", "exploration", func(c *vk.C) {
		c.Rule("seeded scenarios: the real controller runtime over namespaced(inmem) behind the gate proxy (0-3 virtual ticks per store op / watch batch) with 1-5 probe controllers " +
			"(Controller: weak/strong/destroy-ready inputs by kind or by id, inputs added later via UpdateInputs; QController: primary + mapped + mapped-destroy-ready inputs, concurrency 1-3), " +
			"registered before or after Run, kinds cached or not; writers issue create/update/finalizer/teardown/destroy bursts (several in one instant) before Run and in 3 phases; " +
			"at each quiescent point (30 virtual minutes with nothing runnable) every probe's last observation must equal the store. distinct = (config, write trace) hash; " +
			"non-trivial = some probe was woken while busy (a wake-up within its busy window) and >= 1 write landed in the same instant as another")
		c.Assume("probes never write and the runtime has no periodic resync, so every wake-up is caused by an event or the documented initial trigger")
		c.Require("quiescent_points", "wakes", "reconciles", "map_calls", "late_registered", "late_inputs_added", "cached_kinds", "same_instant_writes", "woken_while_busy", "slow_watch_establishments_held")

		n := c.N(2000, 150000)

		var wg sync.WaitGroup

		sem := make(chan struct{}, 16)

		for k := 0; k < n; k++ {
			wg.Add(1)
			sem <- struct{}{}

			go func() {
				defer wg.Done()
				defer func() { <-sem }()

				rng := rand.New(rand.NewPCG(uint64(c.Seed), uint64(k)))
				synctest.Test(t, func(*testing.T) { scenario(c, rng, k) })
			}()
		}

		wg.Wait()

		// directed family: inputs of a not yet watched kind are added (UpdateInputs / late registration) by several controllers in
		// the same instant while the watch establishment for that kind is slow, and a write to that kind lands meanwhile
		for k := 0; k < c.N(150, 6000); k++ {
			wg.Add(1)
			sem <- struct{}{}

			go func() {
				defer wg.Done()
				defer func() { <-sem }()

				rng := rand.New(rand.NewPCG(uint64(c.Seed)+7, uint64(k)))
				synctest.Test(t, func(*testing.T) { slowWatchScenario(c, rng, k) })

				if k%2 == 0 {
					synctest.Test(t, func(*testing.T) { lateRegistrationScenario(c, rand.New(rand.NewPCG(uint64(c.Seed)+8, uint64(k))), k) })
				}
			}()
		}

		wg.Wait()
	})
}

// slowWatchScenario: 2-3 probe controllers start with a weak input on kind K0 and add a (weak or strong) input on the so far unwatched
// kind KL on their first wake-up, all woken by the same K0 write; the first watch establishment on KL is held (real-time yields, no virtual
// sleep) until the harness has committed a write to KL. Whatever the runtime does with the concurrent UpdateInputs calls, at quiescence
// every probe's last observation of KL must include that write.
func slowWatchScenario(c *vk.C, rng *rand.Rand, k int) {
	k0, kl := rtp.Kinds[0], rtp.Kinds[2]
	n := 2 + rng.IntN(2)
	cfg := rtp.Cfg{MaxDelay: 0, NoGateOnReads: true}

	for i := 0; i < n; i++ {
		late := controller.Input{Namespace: kl.NS, Type: kl.Type, Kind: []controller.InputKind{controller.InputWeak, controller.InputStrong}[rng.IntN(2)]}
		cfg.Ctrls = append(cfg.Ctrls, rtp.CtrlCfg{
			Name:   vk.Sprint("S", i),
			Inputs: []controller.Input{{Namespace: k0.NS, Type: k0.Type, Kind: controller.InputWeak}}, LateInputs: []controller.Input{late}, LateAt: 0,
		})
	}

	w, err := rtp.NewWorld(rng, cfg)
	if err != nil {
		c.Violation("world-setup-failed", err.Error())

		return
	}

	var holding, released, first atomic.Bool

	yields := 200 + rng.IntN(3000)

	w.Px.HoldWatch = func(_ string, key gp.Key) {
		if key.NS != kl.NS || key.Type != kl.Type || !first.CompareAndSwap(false, true) {
			return
		}

		holding.Store(true)

		for i := 0; i < 50_000 && !released.Load(); i++ { // bounded (~1 s): the runtime may serialise the callers behind this one
			realPause(20)
		}
	}

	ctx, cancel := context.WithCancel(context.Background())
	defer cancel()

	s := &rtp.Scenario{W: w, Rng: rng, Ctx: ctx, Cancel: cancel}

	// the writer: as soon as the establishment is being held, let the other controllers run for a while, write to KL, release
	// (the probes add their late input on their first wake-up, which is the start-up trigger)
	done := make(chan struct{})

	go func() {
		defer close(done)

		for i := 0; i < 100_000 && !holding.Load(); i++ {
			realPause(20)
		}

		realPause(yields)

		_ = w.Write(gp.WithNoGate(ctx), rtp.WCreate, gp.Key{NS: kl.NS, Type: kl.Type, ID: "x"}, "")

		// every other scenario: changes of the kind that is watched already land in the same moment, before and after the release - they
		// are in flight (not yet handed to the controllers) when the new watch delivers its first, content-free batches
		if k%2 == 1 {
			for i, id := range []string{"a", "b", "c", "a"} {
				if i == 2 {
					released.Store(true)
				}

				op := rtp.WUpdate
				if w.Px.Shadow(gp.Key{NS: k0.NS, Type: k0.Type, ID: id}) == nil {
					op = rtp.WCreate
				}

				_ = w.Write(gp.WithNoGate(ctx), op, gp.Key{NS: k0.NS, Type: k0.Type, ID: id}, "")

				realPause(rng.IntN(60))
			}

			c.Count("slow_watch_with_changes_in_flight", 1)
		}

		released.Store(true)
	}()

	w.Run(ctx)

	<-done // (no further write: a later wake-up of the probes would re-read KL and mask a lost notification)

	rtp.Quiesce(30 * time.Minute)

	problems := rtp.CheckWakeups(w, func(string) bool { return false })

	if holding.Load() {
		c.Count("slow_watch_establishments_held", 1)
	}

	c.Count("quiescent_points", 1)
	c.Count("late_inputs_added", n)
	c.Case(vk.Hash("slowwatch", k, n, yields), holding.Load())

	cancel()
	w.WaitRun()
	synctest.Wait()

	_ = s
	_ = res.TypeA

	for _, p := range problems {
		c.Violation(p.Sig, map[string]any{"scenario": "slow-watch", "k": k, "config": cfg, "problem": p, "wakes": w.Wakes(), "log": w.Px.Log()})
	}
}

// lateRegistrationScenario: a queue controller is running on primary kind K0; a second controller with inputs on kinds nobody watches
// yet is registered after the start and its registration is held for a (real-time) moment inside its Inputs() call. Meanwhile primary
// inputs are created, so their notifications are in flight - taken in by the runtime, not yet handed to the controller - when the
// registration goes on and every new watch delivers its first, content-free batch (a bookmark). Then nothing more happens: at
// quiescence every primary must have been reconciled on its current value.
func lateRegistrationScenario(c *vk.C, rng *rand.Rand, k int) {
	k0 := rtp.Kinds[0]

	var entered, release atomic.Bool

	late := rtp.CtrlCfg{Name: "L", Late: true, LateAt: -1, InputsHook: func() {
		if entered.CompareAndSwap(false, true) {
			for i := 0; i < 100_000 && !release.Load(); i++ {
				realPause(20)
			}
		}
	}}

	for _, kd := range rtp.Kinds[1:] {
		late.Inputs = append(late.Inputs, controller.Input{Namespace: kd.NS, Type: kd.Type, Kind: controller.InputWeak})
	}

	cfg := rtp.Cfg{MaxDelay: 0, NoGateOnReads: true, Ctrls: []rtp.CtrlCfg{late},
		QCtrls: []rtp.QCfg{{Name: "Q", Inputs: []controller.Input{{Namespace: k0.NS, Type: k0.Type, Kind: controller.InputQPrimary}}, Concurrency: uint(1 + rng.IntN(2)), Busy: []int{rng.IntN(3)}}}}

	w, err := rtp.NewWorld(rng, cfg)
	if err != nil {
		c.Violation("world-setup-failed", err.Error())

		return
	}

	ctx, cancel := context.WithCancel(context.Background())
	defer cancel()

	w.Run(ctx)
	rtp.Quiesce(time.Second)

	regDone := make(chan struct{})

	go func() {
		defer close(regDone)

		w.RegisterLate()
	}()

	for i := 0; i < 100_000 && !entered.Load(); i++ {
		realPause(20)
	}

	ids := []string{"a", "b", "c", "d"}[:2+rng.IntN(3)]
	for _, id := range ids {
		_ = w.Write(gp.WithNoGate(ctx), rtp.WCreate, gp.Key{NS: k0.NS, Type: k0.Type, ID: id}, "")

		realPause(rng.IntN(200))
	}

	realPause(200 + rng.IntN(3000)) // the notifications reach the runtime

	release.Store(true)
	<-regDone

	rtp.Quiesce(30 * time.Minute)

	problems := rtp.CheckWakeups(w, func(string) bool { return false })

	c.Count("late_registrations_with_changes_in_flight", 1)
	c.Count("quiescent_points", 1)
	c.Case(vk.Hash("late-registration", k, len(ids)), entered.Load())

	cancel()
	w.WaitRun()
	synctest.Wait()

	for _, p := range problems {
		c.Violation(p.Sig, map[string]any{"scenario": "late-registration", "k": k, "problem": p, "wakes": w.Wakes(), "log": w.Px.Log()})
	}
}

func scenario(c *vk.C, rng *rand.Rand, k int) {
	cfg := rtp.GenCfg(rng, rtp.GenOpts{MaxCtrls: 3, MaxQ: 2, CachedProb: 0.4, AllowFilterShadow: k%3 == 0})
	cfg.MergeBatches = k%2 == 1 // re-batched aggregated events (bootstrap batch continuing with live events, ...)

	w, err := rtp.NewWorld(rng, cfg)
	if err != nil {
		c.Violation("world-setup-failed", err.Error())

		return
	}

	ctx, cancel := context.WithCancel(context.Background())
	s := &rtp.Scenario{W: w, Rng: rng, Ctx: ctx, Cancel: cancel}

	for name, e := range w.RegErrs {
		if e != nil {
			c.Violation("valid-registration-rejected", map[string]any{"name": name, "err": e.Error(), "cfg": cfg})
		}
	}

	s.Burst(3+rng.IntN(6), 1) // pre-existing resources
	w.Run(ctx)

	var problems []rtp.Problem

	for phase := 0; phase < 3 && len(problems) == 0; phase++ {
		if phase == 1 {
			w.RegisterLate()

			for name, e := range w.RegErrs {
				if e != nil {
					c.Violation("valid-registration-rejected", map[string]any{"name": name, "err": e.Error(), "cfg": cfg})
				}
			}
		}

		s.Burst(4+rng.IntN(16), 1+rng.IntN(3))
		rtp.Quiesce(30 * time.Minute)

		lateNotYet := func(name string) bool {
			for _, cc := range cfg.Ctrls {
				if cc.Name == name && cc.Late && phase < 1 {
					return true
				}
			}

			for _, q := range cfg.QCtrls {
				if q.Name == name && q.Late && phase < 1 {
					return true
				}
			}

			return false
		}

		problems = append(problems, rtp.CheckWakeups(w, lateNotYet)...)
		c.Count("quiescent_points", 1)
	}

	if w.RunReturned.Load() {
		problems = append(problems, rtp.Problem{Sig: "runtime-stopped", Detail: vk.Sprint("Run returned early: ", w.RunErr)})
	}

	cancel()
	w.WaitRun()
	synctest.Wait()

	// coverage
	wakes := w.Wakes()
	busyWoken, sameInstant := 0, 0
	lastEnd := map[string]float64{}

	for _, wk := range wakes {
		switch wk.Kind {
		case "run":
			c.Count("wakes", 1)
		case "reconcile":
			c.Count("reconciles", 1)
		case "map":
			c.Count("map_calls", 1)
		}

		if wk.Kind == "run" {
			if e, ok := lastEnd[wk.Probe]; ok && wk.AtMS-e < 0.001 {
				busyWoken++ // woke again immediately after finishing: the event arrived while it was busy
			}

			lastEnd[wk.Probe] = wk.EndMS
		}
	}

	log := w.Px.Log()
	for i := 1; i < len(log); i++ {
		if log[i].At == log[i-1].At {
			sameInstant++
		}
	}

	for _, cc := range cfg.Ctrls {
		if cc.Late {
			c.Count("late_registered", 1)
		}

		if cc.LateAt >= 0 {
			c.Count("late_inputs_added", 1)
		}
	}

	for _, q := range cfg.QCtrls {
		if q.Late {
			c.Count("late_registered", 1)
		}
	}

	c.Count("cached_kinds", len(cfg.Cached))
	c.Count("same_instant_writes", sameInstant)
	c.Count("woken_while_busy", busyWoken)
	c.Count("commits", len(log))
	c.Case(vk.Hash(cfg, s.Trace), busyWoken > 0 && sameInstant > 0)

	if k < 2 {
		c.Sample(map[string]any{"config": cfg, "writes": head(s.Trace, 15), "wakes": len(wakes)})
	}

	for _, p := range problems {
		c.Violation(p.Sig, map[string]any{"scenario": k, "config": cfg, "problem": p, "trace": s.Trace, "wakes": wakes, "log": log})
	}
}

// realPause blocks the calling thread for us microseconds of REAL time (a raw nanosleep is not virtualised by synctest, and a
// goroutine inside a system call is not idle for it, so the virtual clock stands still meanwhile).
func realPause(us int) {
	ts := syscall.NsecToTimespec(int64(us) * 1000)
	_ = syscall.Nanosleep(&ts, nil)
	runtime.Gosched()
}

func head[T any](s []T, n int) []T {
	if len(s) > n {
		return s[:n]
	}

	return s
}
