//go:build verif

// C01: store operations are linearizable w.r.t. the sequential resource-store spec.
package c01

import (
	"context"
	"fmt"
	"math/rand/v2"
	"net"
	"os"
	"path/filepath"
	"slices"
	"sort"
	"strings"
	"sync"
	"sync/atomic"
	"testing"
	"time"

	"github.com/anishathalye/porcupine"
	"go.etcd.io/bbolt"
	"go.uber.org/zap"
	"google.golang.org/grpc"
	"google.golang.org/grpc/credentials/insecure"

	"github.com/cosi-project/runtime/api/v1alpha1"
	"github.com/cosi-project/runtime/pkg/controller/runtime"
	"github.com/cosi-project/runtime/pkg/controller/runtime/metrics"
	"github.com/cosi-project/runtime/pkg/resource"
	"github.com/cosi-project/runtime/pkg/state"
	"github.com/cosi-project/runtime/pkg/state/impl/inmem"
	"github.com/cosi-project/runtime/pkg/state/impl/namespaced"
	"github.com/cosi-project/runtime/pkg/state/impl/store"
	"github.com/cosi-project/runtime/pkg/state/impl/store/bolt"
	"github.com/cosi-project/runtime/pkg/state/protobuf/client"
	"github.com/cosi-project/runtime/pkg/state/protobuf/server"

	"verif/harness/gp"
	"verif/harness/res"
	"verif/harness/vk"
)

func TestMain(m *testing.M) {
	res.Register()
	os.Exit(m.Run())
}

// ---- model -----------------------------------------------------------------------------------------------------------

type st struct {
	Present bool
	Ver     uint64
	Owner   string
	Phase   string
	Fins    string // sorted, comma separated
	Token   string
	Created int64
}

type in struct {
	Kind     string // create | update | destroy | read
	Key      string
	Owner    string // owner option
	ObjOwner string // owner carried by the object (update)
	Ver      uint64 // version carried by the object (update); 0 = undefined
	ExpPhase string // "running" | "tearingDown" | "any"
	Phase    string // phase carried by the object
	Fins     string
	Token    string
}

type out struct {
	Class string // "" ok | notfound | exists | owner | phase | conflict | other:<msg>
	Val   st     // read result / created / updated value (Present=false for not-found reads)
}

func finsOf(md *resource.Metadata) string {
	f := slices.Clone([]string(*md.Finalizers()))
	sort.Strings(f)

	return strings.Join(f, ",")
}

func snap(r resource.Resource) st {
	md := r.Metadata()

	return st{Present: true, Ver: md.Version().Value(), Owner: md.Owner(), Phase: md.Phase().String(), Fins: finsOf(md), Token: res.Token(r), Created: md.Created().UnixNano()}
}

const unknownCreated = -1

// step is the sequential specification written from the property statement.
func step(sAny, iAny, oAny any) (bool, any) {
	s, i, o := sAny.(st), iAny.(in), oAny.(out) //nolint:forcetypeassert

	switch i.Kind {
	case "read":
		if !s.Present {
			return o.Class == "notfound", s
		}

		if o.Class != "" {
			return false, s
		}

		// the creation time is fixed by the store at Create; the first read reveals it, later reads must agree
		if s.Created == unknownCreated {
			s.Created = o.Val.Created
		}

		return o.Val == s, s
	case "create":
		if s.Present {
			return o.Class == "exists", s
		}

		if o.Class != "" {
			return false, s
		}

		ns := st{Present: true, Ver: 1, Owner: i.Owner, Phase: i.Phase, Fins: i.Fins, Token: i.Token, Created: unknownCreated}

		return o.Val.Ver == 1 && o.Val.Owner == i.Owner, ns
	case "update":
		// a failing call may report any of the reasons that hold
		reasons := map[string]bool{}

		if !s.Present {
			reasons["notfound"] = true
		} else {
			if s.Owner != i.Owner {
				reasons["owner"] = true
			}

			if s.Ver != i.Ver {
				reasons["conflict"] = true
			}

			if i.ExpPhase != "any" && s.Phase != i.ExpPhase {
				reasons["phase"] = true
			}
		}

		if len(reasons) > 0 {
			return reasons[o.Class], s
		}

		if o.Class != "" {
			return false, s
		}

		ns := st{Present: true, Ver: s.Ver + 1, Owner: i.ObjOwner, Phase: i.Phase, Fins: i.Fins, Token: i.Token, Created: s.Created}

		return o.Val.Ver == s.Ver+1, ns
	case "destroy":
		reasons := map[string]bool{}

		if !s.Present {
			reasons["notfound"] = true
		} else {
			if s.Owner != i.Owner {
				reasons["owner"] = true
			}

			if s.Fins != "" {
				reasons["conflict"] = true
			}
		}

		if len(reasons) > 0 {
			return reasons[o.Class], s
		}

		return o.Class == "", st{}
	}

	return false, s
}

var model = porcupine.Model{
	Partition: func(h []porcupine.Operation) [][]porcupine.Operation {
		m := map[string][]porcupine.Operation{}
		for _, op := range h {
			k := op.Input.(in).Key //nolint:forcetypeassert
			m[k] = append(m[k], op)
		}

		keys := make([]string, 0, len(m))
		for k := range m {
			keys = append(keys, k)
		}

		sort.Strings(keys)

		out := make([][]porcupine.Operation, 0, len(m))
		for _, k := range keys {
			out = append(out, m[k])
		}

		return out
	},
	Init:              func() any { return st{} },
	Step:              step,
	DescribeOperation: func(i, o any) string { return fmt.Sprintf("%+v -> %+v", i, o) },
	DescribeState:     func(s any) string { return fmt.Sprintf("%+v", s) },
}

// ---- error classification ---------------------------------------------------------------------------------------------

type classRec struct {
	Class  string
	Vector map[string]bool
	Panic  string
}

// classify runs every predicate (with and without qualifiers) inside recover and derives the class.
func classify(err error, ns, typ string) classRec {
	rec := classRec{Vector: map[string]bool{}}

	if err == nil {
		return rec
	}

	preds := map[string]func() bool{
		"notfound":         func() bool { return state.IsNotFoundError(err) },
		"conflict":         func() bool { return state.IsConflictError(err) },
		"owner":            func() bool { return state.IsOwnerConflictError(err) },
		"phase":            func() bool { return state.IsPhaseConflictError(err) },
		"conflict+type":    func() bool { return state.IsConflictError(err, state.WithResourceType(typ)) },
		"conflict+othtype": func() bool { return state.IsConflictError(err, state.WithResourceType("other-type")) },
		"conflict+ns":      func() bool { return state.IsConflictError(err, state.WithResourceNamespace(ns)) },
		"conflict+othns":   func() bool { return state.IsConflictError(err, state.WithResourceNamespace("other-ns")) },
		"conflict+both": func() bool {
			return state.IsConflictError(err, state.WithResourceNamespace(ns), state.WithResourceType(typ))
		},
	}

	for name, f := range preds {
		if p, _ := vk.Try(func() { rec.Vector[name] = f() }); p != nil {
			rec.Panic = fmt.Sprintf("predicate %s panicked: %v", name, p)
		}
	}

	switch {
	case rec.Vector["notfound"]:
		rec.Class = "notfound"
	case rec.Vector["owner"]:
		rec.Class = "owner"
	case rec.Vector["phase"]:
		rec.Class = "phase"
	case rec.Vector["conflict"]:
		rec.Class = "conflict"
	default:
		rec.Class = "other:" + err.Error()
	}

	return rec
}

// vectorProblem checks the predicate vector against the class.
func vectorProblem(rec classRec) string {
	if rec.Panic != "" {
		return rec.Panic
	}

	v := rec.Vector
	isConf := rec.Class == "conflict" || rec.Class == "owner" || rec.Class == "phase"

	switch {
	case rec.Class == "notfound" && (v["conflict"] || v["owner"] || v["phase"]):
		return "not-found error also classified as a conflict"
	case isConf && !v["conflict"]:
		return rec.Class + " error is not classified as a conflict"
	case isConf && !(v["conflict+type"] && v["conflict+ns"] && v["conflict+both"]):
		return "conflict error does not match its own namespace/type qualifiers"
	case isConf && (v["conflict+othtype"] || v["conflict+othns"]):
		return "conflict error matches foreign namespace/type qualifiers"
	case rec.Class == "conflict" && (v["owner"] || v["phase"]):
		return "plain conflict also classified as owner/phase conflict"
	}

	return ""
}

// ---- targets ------------------------------------------------------------------------------------------------------------

type target struct {
	name string
	mk   func(dir string) (state.CoreState, func())
}

func targets() []target {
	noop := func() {}

	return []target{
		{"inmem", func(string) (state.CoreState, func()) { return inmem.NewState("ns"), noop }},
		{"namespaced", func(string) (state.CoreState, func()) {
			return namespaced.NewState(inmem.Build), noop
		}},
		{"bolt", func(dir string) (state.CoreState, func()) {
			bs, err := bolt.NewBackingStore(func() (*bbolt.DB, error) {
				return bbolt.Open(filepath.Join(dir, "c01.db"), 0o600, &bbolt.Options{NoSync: true})
			}, store.ProtobufMarshaler{})
			if err != nil {
				panic(err)
			}

			return inmem.NewStateWithOptions(inmem.WithBackingStore(bs.WithNamespace("ns")))("ns"), func() { _ = bs.Close() }
		}},
		{"slowstore", func(string) (state.CoreState, func()) {
			// a backing store that takes real time: whatever a collection does around its store calls is exposed to the other clients
			return inmem.NewStateWithOptions(inmem.WithBackingStore(&gp.SlowStore{Micros: 40}))("ns"), noop
		}},
		{"filter", func(string) (state.CoreState, func()) {
			return state.Filter(inmem.NewState("ns"), func(context.Context, state.Access) error { return nil }), noop
		}},
		{"metrics", func(string) (state.CoreState, func()) {
			return metrics.WrapState("c01", state.WrapCore(inmem.NewState("ns"))), noop
		}},
		{"cachewrap", func(string) (state.CoreState, func()) {
			rt, err := runtime.NewRuntime(state.WrapCore(inmem.NewState("ns")), zap.NewNop())
			if err != nil {
				panic(err)
			}

			return rt.CachedState(), noop
		}},
		{"remote", func(dir string) (state.CoreState, func()) {
			sock := filepath.Join(dir, "c01.sock")

			l, err := net.Listen("unix", sock)
			if err != nil {
				panic(err)
			}

			srv := grpc.NewServer()
			v1alpha1.RegisterStateServer(srv, server.NewState(inmem.NewState("ns")))

			go srv.Serve(l) //nolint:errcheck

			conn, err := grpc.NewClient("unix://"+sock, grpc.WithTransportCredentials(insecure.NewCredentials()))
			if err != nil {
				panic(err)
			}

			return client.NewAdapter(v1alpha1.NewStateClient(conn)), func() {
				_ = conn.Close()
				srv.Stop()
			}
		}},
	}
}

// ---- workload -----------------------------------------------------------------------------------------------------------

var (
	types  = []string{res.TypeA, res.TypeB}
	owners = []string{"", "", "A", "B"}
	clock  atomic.Int64
)

type recorder struct {
	mu  sync.Mutex
	ops []porcupine.Operation
}

func (r *recorder) add(op porcupine.Operation) {
	r.mu.Lock()
	r.ops = append(r.ops, op)
	r.mu.Unlock()
}

type worker struct {
	c      *vk.C
	st     state.CoreState
	rng    *rand.Rand
	id     int
	keys   [][2]string // (type, id)
	rec    *recorder
	last   map[string]resource.Resource
	target string
	writes *[2]atomic.Int64
	fails  *atomic.Int64
	seq    *atomic.Int64
}

func keyOf(typ, id string) string { return typ[:1] + "/" + id }

func (w *worker) observe(err error, typ string) out {
	rec := classify(err, "ns", typ)

	if err != nil {
		w.fails.Add(1)

		if p := vectorProblem(rec); p != "" {
			sig := "error-classification-inconsistent"
			if rec.Panic != "" {
				sig = "error-predicate-panics"
			}

			w.c.Violation(sig, map[string]any{"target": w.target, "error": err.Error(), "class": rec.Class, "vector": rec.Vector, "problem": p})
		}
	}

	return out{Class: rec.Class}
}

func (w *worker) do() {
	k := w.keys[w.rng.IntN(len(w.keys))]
	typ, id := k[0], k[1]
	key := keyOf(typ, id)
	ptr := resource.NewMetadata("ns", typ, id, resource.VersionUndefined)
	ctx := context.Background()
	tok := fmt.Sprintf("c%d-%d", w.id, w.seq.Add(1))
	typIdx := slices.Index(types, typ)

	switch p := w.rng.IntN(100); {
	case p < 22:
		call := clock.Add(1)
		got, err := w.st.Get(ctx, ptr)
		ret := clock.Add(1)
		o := w.observe(err, typ)

		if err == nil {
			o.Val = snap(got)
			w.last[key] = got
		}

		w.rec.add(porcupine.Operation{ClientId: w.id, Input: in{Kind: "read", Key: key}, Output: o, Call: call, Return: ret})
	case p < 30:
		call := clock.Add(1)
		list, err := w.st.List(ctx, resource.NewMetadata("ns", typ, "", resource.VersionUndefined))
		ret := clock.Add(1)

		if err != nil {
			w.c.Violation("list-failed", map[string]any{"target": w.target, "err": err.Error()})

			return
		}

		seen := map[string]resource.Resource{}
		for _, it := range list.Items {
			seen[it.Metadata().ID()] = it
		}

		// a List is one atomic read of every key of the kind
		for _, kk := range w.keys {
			if kk[0] != typ {
				continue
			}

			o := out{Class: "notfound"}
			if it, ok := seen[kk[1]]; ok {
				o = out{Val: snap(it)}
			}

			w.rec.add(porcupine.Operation{ClientId: w.id, Input: in{Kind: "read", Key: keyOf(typ, kk[1])}, Output: o, Call: call, Return: ret})
		}
	case p < 48:
		i := in{Kind: "create", Key: key, Owner: owners[w.rng.IntN(len(owners))], Phase: "running", Token: tok}
		r := res.New("ns", typ, id)

		// every third create re-submits an object the client still holds from an earlier incarnation (its version, owner,
		// timestamps, phase and finalizers are whatever they were): Create stores version 1 under the requested owner all the same
		if l, ok := w.last[key]; ok && w.rng.IntN(3) == 0 {
			r = l.DeepCopy()
			i.Phase, i.Fins = r.Metadata().Phase().String(), finsOf(r.Metadata())
			i.Owner = r.Metadata().Owner() // (an object that already names another owner than the requested one is refused as invalid input: not judged)
		}

		res.SpecOf(r).Token = tok

		if i.Fins == "" && w.rng.IntN(4) == 0 {
			r.Metadata().Finalizers().Add("f0")
			i.Fins = "f0"
		}

		call := clock.Add(1)
		err := w.st.Create(ctx, r, state.WithCreateOwner(i.Owner))
		ret := clock.Add(1)
		o := w.observe(err, typ)

		if err == nil {
			o.Val = snap(r)
			w.last[key] = r.DeepCopy()
			w.writes[typIdx].Add(1)
		} else if o.Class == "conflict" {
			o.Class = "exists"
		}

		w.rec.add(porcupine.Operation{ClientId: w.id, Input: i, Output: o, Call: call, Return: ret})
	case p < 84:
		var r resource.Resource

		handBuiltOwner := false

		switch l, ok := w.last[key]; {
		case ok && w.rng.IntN(8) == 0:
			// a hand-built object: only the version (and the owner) are taken from what was read, everything else - including the
			// creation time the constructor stamps - is new; the store keeps its own creation time
			r = res.New("ns", typ, id)
			r.Metadata().SetVersion(l.Metadata().Version())

			if w.rng.IntN(2) == 0 {
				_ = r.Metadata().SetOwner(l.Metadata().Owner())
			} else {
				handBuiltOwner = true // the object will name the owner the caller claims (below): the STORED owner decides, not the object's
			}
		case ok && w.rng.IntN(8) != 0:
			r = l.DeepCopy()
		default:
			r = res.New("ns", typ, id) // never seen: undefined version
		}

		switch w.rng.IntN(10) {
		case 0: // stale
			if v := r.Metadata().Version().Value(); v > 1 {
				ver, _ := resource.ParseVersion(fmt.Sprint(v - 1))
				r.Metadata().SetVersion(ver)
			}
		case 1: // bogus
			ver, _ := resource.ParseVersion(fmt.Sprint(1000 + w.rng.IntN(5)))
			r.Metadata().SetVersion(ver)
		}

		res.SpecOf(r).Token = tok

		switch w.rng.IntN(6) {
		case 0:
			r.Metadata().SetPhase(resource.PhaseTearingDown)
		case 1:
			r.Metadata().Finalizers().Add(fmt.Sprintf("f%d", w.rng.IntN(2)))
		case 2:
			r.Metadata().Finalizers().Remove(fmt.Sprintf("f%d", w.rng.IntN(2)))
		}

		i := in{Kind: "update", Key: key, Owner: owners[w.rng.IntN(len(owners))], ObjOwner: r.Metadata().Owner(), Ver: r.Metadata().Version().Value(),
			Phase: r.Metadata().Phase().String(), Fins: finsOf(r.Metadata()), Token: tok}

		if w.rng.IntN(3) != 0 && !handBuiltOwner {
			i.Owner = r.Metadata().Owner() // usually the matching owner
		}

		if handBuiltOwner {
			_ = r.Metadata().SetOwner(i.Owner)
			i.ObjOwner = i.Owner
		}

		opts := []state.UpdateOption{state.WithUpdateOwner(i.Owner)}

		switch w.rng.IntN(4) {
		case 0:
			i.ExpPhase = "any"
			opts = append(opts, state.WithExpectedPhaseAny())
		case 1:
			i.ExpPhase = "tearingDown"
			opts = append(opts, state.WithExpectedPhase(resource.PhaseTearingDown))
		default:
			i.ExpPhase = "running"
		}

		call := clock.Add(1)
		err := w.st.Update(ctx, r, opts...)
		ret := clock.Add(1)
		o := w.observe(err, typ)

		if err == nil {
			o.Val = snap(r)
			w.last[key] = r.DeepCopy()
			w.writes[typIdx].Add(1)
		}

		w.rec.add(porcupine.Operation{ClientId: w.id, Input: i, Output: o, Call: call, Return: ret})
	default:
		i := in{Kind: "destroy", Key: key, Owner: owners[w.rng.IntN(len(owners))]}
		if l, ok := w.last[key]; ok && w.rng.IntN(3) != 0 {
			i.Owner = l.Metadata().Owner()
		}

		call := clock.Add(1)
		err := w.st.Destroy(ctx, ptr, state.WithDestroyOwner(i.Owner))
		ret := clock.Add(1)
		o := w.observe(err, typ)

		if err == nil {
			w.writes[typIdx].Add(1)
		}

		w.rec.add(porcupine.Operation{ClientId: w.id, Input: i, Output: o, Call: call, Return: ret})
	}
}

func history(c *vk.C, tg target, k int, dir string) {
	rng := rand.New(rand.NewPCG(uint64(c.Seed), uint64(k)))
	s, cleanup := tg.mk(dir)

	defer func() { cleanup() }()

	nClients := 2 + rng.IntN(7)
	nIDs := 1 + rng.IntN(3)
	nTypes := 1 + rng.IntN(2)

	var keys [][2]string

	for _, typ := range types[:nTypes] {
		for i := 0; i < nIDs; i++ {
			keys = append(keys, [2]string{typ, fmt.Sprintf("r%d", i)})
		}
	}

	// cold-start histories (every third): nothing touches the state before the clients do - no watch, all clients released
	// from a barrier - so the very first accesses (lazy creation of namespaces / collections, lazy load of a non-empty backing
	// store) race with each other. For the persistent target the file is first populated through another instance; those
	// operations are part of the recorded history (the state is the file).
	cold := k%3 == 2

	rec := &recorder{}

	var (
		writes [2]atomic.Int64
		fails  atomic.Int64
		seq    atomic.Int64
		wg     sync.WaitGroup
	)

	if cold {
		c.Count("histories_cold_start", 1)
	}

	if cold && tg.name == "bolt" {
		pre := &worker{c: c, st: s, rng: rand.New(rand.NewPCG(rng.Uint64(), 99)), id: 99, keys: keys, rec: rec, last: map[string]resource.Resource{},
			target: tg.name, writes: &writes, fails: &fails, seq: &seq}

		for j := 0; j < 4+rng.IntN(6); j++ {
			pre.do()
		}

		cleanup()

		s, cleanup = tg.mk(dir)

		c.Count("histories_cold_start_on_populated_store", 1)
	}

	// an unfiltered watch per kind counts the commits
	ctx, cancel := context.WithCancel(context.Background())
	defer cancel()

	var (
		events  [2]atomic.Int64
		errored [2]atomic.Bool
	)

	watchTypes := types[:nTypes]
	if cold {
		watchTypes = nil
	}

	for ti, typ := range watchTypes {
		ch := make(chan state.Event, 1024)

		if err := s.WatchKind(ctx, resource.NewMetadata("ns", typ, "", resource.VersionUndefined), ch); err != nil {
			c.Violation("watch-establish-failed", map[string]any{"target": tg.name, "err": err.Error()})

			return
		}

		go func() {
			for {
				select {
				case <-ctx.Done():
					return
				case ev := <-ch:
					switch ev.Type {
					case state.Created, state.Updated, state.Destroyed:
						events[ti].Add(1)
					case state.Errored:
						errored[ti].Store(true)
					case state.Bootstrapped, state.Noop:
					}
				}
			}
		}()
	}

	opsPer := max(3, 40/nClients+rng.IntN(4))
	start := make(chan struct{})

	for i := 0; i < nClients; i++ {
		w := &worker{c: c, st: s, rng: rand.New(rand.NewPCG(rng.Uint64(), uint64(i))), id: i, keys: keys, rec: rec, last: map[string]resource.Resource{},
			target: tg.name, writes: &writes, fails: &fails, seq: &seq}

		wg.Add(1)

		go func() {
			defer wg.Done()

			<-start

			for j := 0; j < opsPer; j++ {
				w.do()
			}
		}()
	}

	close(start)
	wg.Wait()

	// commits published == successful writes
	deadline := time.Now().Add(5 * time.Second)

	for ti := range watchTypes {
		for events[ti].Load() < writes[ti].Load() && !errored[ti].Load() && time.Now().Before(deadline) {
			time.Sleep(time.Millisecond)
		}

		time.Sleep(2 * time.Millisecond)

		switch {
		case errored[ti].Load():
		case events[ti].Load() > writes[ti].Load():
			c.Violation("events-differ-from-successful-writes", map[string]any{"target": tg.name, "type": types[ti], "events": events[ti].Load(), "successful_writes": writes[ti].Load(),
				"note": "more events published than successful writes: a failed call published something"})
		case events[ti].Load() < writes[ti].Load():
			// fewer events than writes after the (wall-clock) wait: the watcher may simply be slow on a loaded machine
			c.Inconclusive(fmt.Sprintf("%s: %d events for %d successful writes after 5 s", tg.name, events[ti].Load(), writes[ti].Load()))
		}
	}

	ops := rec.ops

	result, info := porcupine.CheckOperationsVerbose(model, ops, 60*time.Second)

	overlap := false

	sorted := slices.Clone(ops)
	sort.Slice(sorted, func(a, b int) bool { return sorted[a].Call < sorted[b].Call })

	for a := 1; a < len(sorted) && !overlap; a++ {
		for b := 0; b < a; b++ {
			if sorted[b].Return > sorted[a].Call && sorted[b].Input.(in).Key == sorted[a].Input.(in).Key && sorted[b].ClientId != sorted[a].ClientId { //nolint:forcetypeassert
				overlap = true

				break
			}
		}
	}

	c.Case(vk.Hash(tg.name, k, len(ops)), overlap && fails.Load() > 0)
	c.Count("histories_"+tg.name, 1)
	c.Count("operations", len(ops))
	c.Count("failed_calls_classified", int(fails.Load()))

	if overlap {
		c.Count("histories_with_overlap", 1)
	}

	switch result {
	case porcupine.Ok:
	case porcupine.Unknown:
		c.Inconclusive(fmt.Sprintf("porcupine timed out on history %d of %s (%d ops)", k, tg.name, len(ops)))
	case porcupine.Illegal:
		var hist []string
		for _, op := range sorted {
			hist = append(hist, fmt.Sprintf("[%d,%d] client %d: %+v -> %+v", op.Call, op.Return, op.ClientId, op.Input, op.Output))
		}

		path := filepath.Join(vk.OutRoot(), "artifacts", "C01", fmt.Sprintf("nonlinearizable-%s-seed%d-%d.html", tg.name, c.Seed, k))
		_ = os.MkdirAll(filepath.Dir(path), 0o755)
		_ = porcupine.VisualizePath(model, info, path)

		c.Violation("history-not-linearizable", map[string]any{"target": tg.name, "history_index": k, "clients": nClients, "history": hist, "visualization": path})
	}

	if k%97 == 0 {
		var hist []string
		for _, op := range sorted[:min(10, len(sorted))] {
			hist = append(hist, fmt.Sprintf("[%d,%d] client %d: %+v -> %+v", op.Call, op.Return, op.ClientId, op.Input, op.Output))
		}

		c.Sample(map[string]any{"target": tg.name, "clients": nClients, "keys": len(keys), "ops": len(ops), "first_ops": hist})
	}
}

// sequential differential mode: one client, every answer must be the model's answer.
func sequential(c *vk.C, tg target, steps int, dir string) {
	rng := rand.New(rand.NewPCG(uint64(c.Seed), 777))
	s, cleanup := tg.mk(dir)

	defer cleanup()

	rec := &recorder{}

	var (
		writes [2]atomic.Int64
		fails  atomic.Int64
		seq    atomic.Int64
	)

	keys := [][2]string{{res.TypeA, "r0"}, {res.TypeA, "r1"}, {res.TypeB, "r0"}}
	w := &worker{c: c, st: s, rng: rng, id: 0, keys: keys, rec: rec, last: map[string]resource.Resource{}, target: tg.name + "-seq", writes: &writes, fails: &fails, seq: &seq}
	states := map[string]st{}
	done := 0

	for i := 0; i < steps; i++ {
		w.do()

		for _, op := range rec.ops[done:] {
			key := op.Input.(in).Key //nolint:forcetypeassert

			ok, ns := step(states[key], op.Input, op.Output)
			if !ok {
				c.Violation("sequential-answer-differs-from-spec", map[string]any{"target": tg.name, "step": i, "state": fmt.Sprintf("%+v", states[key]), "input": fmt.Sprintf("%+v", op.Input), "output": fmt.Sprintf("%+v", op.Output)})

				return
			}

			states[key] = ns.(st) //nolint:forcetypeassert
		}

		done = len(rec.ops)
	}

	c.Count("sequential_steps", steps)
	c.Count("failed_calls_classified", int(fails.Load()))
}

func TestC01(t *testing.T) {
	vk.Run(t, "C01", "exploration", func(c *vk.C) {
		c.Rule("concurrent histories: 2-8 client goroutines x <= 40 operations over 1-3 ids x 1-2 types with mixed Create (owners ''/A/B, preset finalizers), Update (version last-seen / stale / " +
			"bogus / undefined; owner option; expected phase running / tearing-down / any; mutations of token, phase, finalizers), Destroy (owner option), Get and List against inmem, namespaced, " +
			"inmem+bbolt, state.Filter, metrics.WrapState, the runtime's cache wrapper (uncached kind) and the gRPC client adapter over a real unix-socket server; call/return stamped from one " +
			"atomic clock at the client boundary; checked per key with porcupine against a sequential model written from the statement; every returned error goes through all classification " +
			"predicates (with matching and foreign namespace/type qualifiers) under recover; commits counted by an unfiltered watch. Plus a sequential differential mode per target. " +
			"distinct = (target, history) ; non-trivial = history with >= 1 overlapping pair of operations by different clients on one key and >= 1 failing call")
		c.Assume("a failing call may report any one of the reasons that hold (the statement fixes no precedence)")
		c.Assume("List is decomposed into per-key reads sharing one call/return interval")
		c.Require("histories_with_overlap", "failed_calls_classified", "sequential_steps", "histories_remote", "histories_bolt")

		dir, err := os.MkdirTemp("", "c01")
		if err != nil {
			c.Inconclusive("no temp dir")

			return
		}

		defer os.RemoveAll(dir)

		tgs := targets()
		perTarget := c.N(300, 20000)
		remote := c.N(60, 2000)

		var wg sync.WaitGroup

		sem := make(chan struct{}, 6)

		for ti, tg := range tgs {
			n := perTarget
			if tg.name == "remote" || tg.name == "bolt" {
				n = remote
			}

			for k := 0; k < n; k++ {
				wg.Add(1)
				sem <- struct{}{}

				go func() {
					defer wg.Done()
					defer func() { <-sem }()

					d, _ := os.MkdirTemp(dir, "h")
					defer os.RemoveAll(d)

					history(c, tg, ti*10_000_000+k, d)
				}()
			}
		}

		wg.Wait()

		for _, tg := range tgs {
			steps := c.N(20000, 1000000)
			if tg.name == "remote" || tg.name == "bolt" {
				steps = c.N(3000, 100000)
			}

			d, _ := os.MkdirTemp(dir, "s")
			sequential(c, tg, steps, d)
		}
	})
}
