//go:build verif

package c15

import (
	"context"
	"fmt"
	"math/rand/v2"
	"runtime"
	"sync"
	"sync/atomic"
	"time"

	cosiruntime "github.com/cosi-project/runtime/pkg/controller/runtime"
	"github.com/cosi-project/runtime/pkg/controller/runtime/options"
	"github.com/cosi-project/runtime/pkg/resource"

	"verif/harness/res"
	"verif/harness/vk"
)

// whiteboxTeardownRaces (real threads, no bubble): rounds on the cache structure itself. In each round three resources are put
// (running), two callers keep asking for teardown-bound contexts on them, and the feeder tears each of them down or removes it exactly
// once - that update is the last one of the round for its id. Wherever it lands relative to a call (before its look-up, between its
// look-up and its registration, after it), every context obtained in the round must end up cancelled: the resource IS torn down or gone,
// at or after the call.
func whiteboxTeardownRaces(c *vk.C, rng *rand.Rand, k int) {
	const ns, typ = "n1", res.TypeA

	cache := cosiruntime.VerifNewResourceCache([]options.CachedResource{{Namespace: ns, Type: typ}})
	cache.MarkBootstrapped(ns, typ)

	ctx, cancel := context.WithCancel(context.Background())
	defer cancel()

	hot := []string{"a", "b", "z"}
	judged, missed := 0, 0

	for round := 0; round < 60; round++ {
		for i, id := range hot {
			r := res.New(ns, typ, id)
			res.SpecOf(r).Token = fmt.Sprintf("r%d-%d", round, i)
			cache.CachePut(r)
		}

		var (
			stop atomic.Bool
			wg   sync.WaitGroup
			mu   sync.Mutex
			got  []context.Context
		)

		for cl := 0; cl < 2; cl++ {
			wg.Add(1)

			go func() {
				defer wg.Done()

				for n := 0; !stop.Load() && n < 300; n++ {
					tctx, err := cache.ContextWithTeardown(ctx, resource.NewMetadata(ns, typ, hot[(n+cl)%len(hot)], resource.VersionUndefined))
					if err != nil {
						continue
					}

					mu.Lock()
					got = append(got, tctx)
					mu.Unlock()
				}
			}()
		}

		for _, i := range rng.Perm(len(hot)) {
			for spin := rng.IntN(200); spin > 0; spin-- {
				runtime.Gosched()
			}

			r := res.New(ns, typ, hot[i])

			if rng.IntN(2) == 0 {
				r.Metadata().SetPhase(resource.PhaseTearingDown)
				cache.CachePut(r)
			} else {
				cache.CacheRemove(r)
			}
		}

		stop.Store(true)
		wg.Wait()

		// the cache cancels from its own goroutines, which may be scheduled late on a loaded machine: no short deadline decides here. A
		// context counts as missed only if it is still live a full minute after the round's last update AND a goroutine started at that
		// point demonstrably got to run meanwhile (so the waiter, runnable for a minute, was not merely starved); after the first such
		// context the remaining ones get no further patience.
		for _, tctx := range got {
			judged++

			if tctx.Err() != nil {
				continue
			}

			patience := time.Minute
			if missed > 0 {
				patience = 100 * time.Millisecond
			}

			canary := make(chan struct{})

			go func() { close(canary) }()

			select {
			case <-tctx.Done():
			case <-time.After(patience):
				<-canary

				if tctx.Err() == nil {
					missed++
				}
			}
		}

		// leave the round with everything removed
		for _, id := range hot {
			cache.CacheRemove(res.New(ns, typ, id))
		}
	}

	c.Count("whitebox_teardown_race_contexts_judged", judged)

	if missed > 0 {
		c.Violation("cached-teardown-context-not-cancelled", map[string]any{"mode": "whitebox-teardown-races", "k": k,
			"contexts_still_live_although_their_resource_was_torn_down_or_removed_by_the_end_of_the_round": missed, "contexts": judged})
	}
}
