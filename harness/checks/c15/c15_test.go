//go:build verif

// C15: the runtime read cache is coherent with the state and with notifications.
package c15

import (
	"context"
	"fmt"
	"maps"
	"math/rand/v2"
	"regexp"
	"runtime"
	"slices"
	"sync"
	"sync/atomic"
	"testing"
	"testing/synctest"
	"time"

	"github.com/cosi-project/runtime/pkg/controller"
	cosiruntime "github.com/cosi-project/runtime/pkg/controller/runtime"
	"github.com/cosi-project/runtime/pkg/controller/runtime/options"
	"github.com/cosi-project/runtime/pkg/resource"
	"github.com/cosi-project/runtime/pkg/state"

	"verif/harness/gp"
	"verif/harness/res"
	"verif/harness/rtp"
	"verif/harness/vk"
)

func TestC15(t *testing.T) {
	vk.Run(t, "C15", "exploration", func(c *vk.C) {
		c.Rule("seeded scenarios as for C05 with most kinds cached: writes before and after Run, gate proxy delays on store ops and watch batches, probe controllers of both flavours reading " +
			"through the runtime (cached), harness readers through CachedState() started before Run (must block until bootstrap) and during bursts, cached ContextWithTeardown taken inside probes. " +
			"Every cached read is matched against the prefixes of the kind's commit log. distinct = (config, write trace) hash; non-trivial = a cached read was issued before the bootstrap completed " +
			"and at least one MapInput read was checked against its notification")
		c.Assume("a cached view may lag the store arbitrarily but must equal the state after some prefix of the kind's commit log, not older than the bootstrap snapshot and never ahead of the store")
		c.Require("cached_reads_checked", "map_reads_checked_against_notification", "early_readers_blocked_then_served", "quiescent_cache_comparisons", "teardown_contexts_cancelled", "teardown_contexts_live")

		n := c.N(1500, 100000)

		var wg sync.WaitGroup

		sem := make(chan struct{}, 16)

		for k := 0; k < n; k++ {
			wg.Add(1)
			sem <- struct{}{}

			go func() {
				defer wg.Done()
				defer func() { <-sem }()

				rng := rand.New(rand.NewPCG(uint64(c.Seed), uint64(k)))
				synctest.Test(t, func(*testing.T) { scenario(c, rng, k) })
			}()
		}

		wg.Wait()

		// white box (verif facade): the cache structure itself against a map model, fed the way the runtime feeds it, over an
		// adversarial id alphabet (prefixes of each other, empty-looking, non-ASCII, case variants)
		for k := 0; k < c.N(400, 40000); k++ {
			wg.Add(1)
			sem <- struct{}{}

			go func() {
				defer wg.Done()
				defer func() { <-sem }()

				synctest.Test(t, func(*testing.T) { whitebox(c, rand.New(rand.NewPCG(uint64(c.Seed)+15, uint64(k))), k) })

				if k%4 == 0 {
					whiteboxConcurrent(c, rand.New(rand.NewPCG(uint64(c.Seed)+16, uint64(k))), k)
				}

				if k%8 == 1 {
					whiteboxTeardownRaces(c, rand.New(rand.NewPCG(uint64(c.Seed)+17, uint64(k))), k)
				}
			}()
		}

		wg.Wait()
	})
}

// whiteboxConcurrent (real threads, no bubble): three readers keep listing a cached kind - plain, label-filtered, id-filtered - while the
// cache is fed puts and removes; every list must be well-formed (no nil item, ids strictly increasing, i.e. sorted and without duplicates)
// and the race detector watches the cache's shared slice meanwhile.
func whiteboxConcurrent(c *vk.C, rng *rand.Rand, k int) {
	const ns, typ = "n1", res.TypeA

	cache := cosiruntime.VerifNewResourceCache([]options.CachedResource{{Namespace: ns, Type: typ}})
	ctx, cancel := context.WithCancel(context.Background())

	defer cancel()

	mk := func(id string, seq int) resource.Resource {
		r := res.New(ns, typ, id)
		res.SpecOf(r).Token = fmt.Sprint("c", seq)
		r.Metadata().Labels().Set("odd", fmt.Sprint(seq%2))

		return r
	}

	ids := slices.Clone(wbIDs)
	slices.Sort(ids)

	for i, id := range ids[:len(ids)/2] {
		cache.CacheAppend(mk(id, i))
	}

	cache.MarkBootstrapped(ns, typ)

	var (
		wg    sync.WaitGroup
		stop  atomic.Bool
		fault atomic.Pointer[string]
		reads atomic.Int64
	)

	for rd := 0; rd < 3; rd++ {
		wg.Add(1)

		go func() {
			defer wg.Done()

			defer func() {
				if r := recover(); r != nil {
					msg := fmt.Sprintf("cached List panicked: %v", r)
					fault.Store(&msg)
				}
			}()

			opts := [][]state.ListOption{nil, {state.WithLabelQuery(resource.LabelEqual("odd", "1"))}, {state.WithIDQuery(resource.IDRegexpMatch(regexp.MustCompile("^[a-z0-9]")))}}[rd]

			for !stop.Load() {
				l, err := cache.List(ctx, resource.NewMetadata(ns, typ, "", resource.VersionUndefined), opts...)
				if err != nil {
					return
				}

				prev := ""

				for i, it := range l.Items {
					if it == nil {
						msg := fmt.Sprintf("cached List returned a nil item at %d", i)
						fault.Store(&msg)

						return
					}

					if id := it.Metadata().ID(); i > 0 && id <= prev {
						msg := fmt.Sprintf("cached List not strictly sorted / duplicate id: %q after %q (filter %d)", id, prev, rd)
						fault.Store(&msg)

						return
					}

					prev = it.Metadata().ID()
				}

				reads.Add(1)
			}
		}()
	}

	present := map[string]bool{}
	for _, id := range ids[:len(ids)/2] {
		present[id] = true
	}

	for step := 0; step < 400; step++ {
		id := wbIDs[rng.IntN(len(wbIDs))]

		if present[id] && rng.IntN(2) == 0 {
			cache.CacheRemove(mk(id, step))
			delete(present, id)
		} else {
			cache.CachePut(mk(id, step))
			present[id] = true
		}

		if step%16 == 0 {
			runtime.Gosched()
		}
	}

	stop.Store(true)
	wg.Wait()

	c.Count("whitebox_concurrent_list_reads", int(reads.Load()))
	c.Count("whitebox_concurrent_runs", 1)

	if msg := fault.Load(); msg != nil {
		c.Violation("cached-list-malformed-under-concurrent-update", map[string]any{"mode": "whitebox-concurrent", "k": k, "what": *msg})
	}
}

var wbIDs = []string{"a", "aa", "ab", "b", "A", "a-", "a.", "a0", "é", "z", "zz", "0", "10", "9", "~"}

// whitebox feeds one cached kind: bootstrap contents in the order a state delivers them (sorted by id), MarkBootstrapped, then puts
// (create/update, incl. tearing-down) and removes in seeded order; after every step Get of every id, the full List, two filtered Lists
// and Len must equal the model, early readers must have been blocked until MarkBootstrapped, and teardown-bound contexts must be
// cancelled exactly for ids that are torn down / removed / absent.
func whitebox(c *vk.C, rng *rand.Rand, k int) {
	const ns, typ = "n1", res.TypeA

	cache := cosiruntime.VerifNewResourceCache([]options.CachedResource{{Namespace: ns, Type: typ}})
	ctx, cancel := context.WithCancel(context.Background())

	defer cancel()

	model := map[string]resource.Resource{}
	seq := 0

	var trace []string

	fail := func(sig string, d map[string]any) {
		d["mode"], d["ops"], d["k"] = "whitebox", trace, k
		c.Violation(sig, d)
	}

	mk := func(id string, tearingDown bool) resource.Resource {
		seq++

		r := res.New(ns, typ, id)
		res.SpecOf(r).Token = fmt.Sprint("w", seq)
		r.Metadata().Labels().Set("odd", fmt.Sprint(seq%2))
		r.Metadata().SetVersion(resource.VersionUndefined.Next())

		if tearingDown {
			r.Metadata().SetPhase(resource.PhaseTearingDown)
		}

		return r
	}

	// an early reader must block until the bootstrap is complete and then see all of it
	early := make(chan int, 1)

	go func() {
		l, err := cache.List(ctx, resource.NewMetadata(ns, typ, "", resource.VersionUndefined))
		if err != nil {
			early <- -1

			return
		}

		early <- len(l.Items)
	}()

	boot := slices.Clone(wbIDs)
	rng.Shuffle(len(boot), func(i, j int) { boot[i], boot[j] = boot[j], boot[i] })
	boot = boot[:rng.IntN(len(boot))]
	slices.Sort(boot)

	for _, id := range boot {
		r := mk(id, false)
		model[id] = r
		cache.CacheAppend(r)

		select {
		case n := <-early:
			fail("cached-read-served-before-bootstrap-complete", map[string]any{"items": n, "appended_so_far": len(model)})

			return
		default:
		}
	}

	synctest.Wait() // the early reader is parked on the bootstrap

	select {
	case n := <-early:
		fail("cached-read-served-before-bootstrap-complete", map[string]any{"items": n, "appended_so_far": len(model)})

		return
	default:
	}

	cache.MarkBootstrapped(ns, typ)

	if n := <-early; n != len(boot) {
		fail("cached-read-partial-bootstrap-view", map[string]any{"items": n, "bootstrap_size": len(boot)})

		return
	}

	c.Count("whitebox_early_readers", 1)

	type tdw struct {
		id     string
		ctx    context.Context    //nolint:containedctx
		cancel context.CancelFunc // of the caller's own parent context
	}

	var waiters []tdw

	for step := 0; step < 20+rng.IntN(40); step++ {
		id := wbIDs[rng.IntN(len(wbIDs))]

		switch p := rng.IntN(10); {
		case p < 5:
			r := mk(id, rng.IntN(5) == 0)
			model[id] = r
			cache.CachePut(r)
			trace = append(trace, fmt.Sprintf("put %q td=%v", id, r.Metadata().Phase() == resource.PhaseTearingDown))
		case p < 8:
			if cur, ok := model[id]; ok {
				delete(model, id)
				cache.CacheRemove(cur)
				trace = append(trace, fmt.Sprintf("remove %q", id))
			} else {
				cache.CacheRemove(mk(id, false)) // a Destroyed event for something the cache never had
				trace = append(trace, fmt.Sprintf("remove-unknown %q", id))
			}
		default:
			// every caller has its own parent context; several callers may wait on the same id
			if len(waiters) > 0 && rng.IntN(2) == 0 {
				id = waiters[rng.IntN(len(waiters))].id
			}

			pctx, pcancel := context.WithCancel(ctx)

			tctx, err := cache.ContextWithTeardown(pctx, resource.NewMetadata(ns, typ, id, resource.VersionUndefined))
			if err != nil {
				pcancel()
				fail("cached-teardown-context-failed", map[string]any{"id": id, "err": err.Error()})

				return
			}

			waiters = append(waiters, tdw{id, tctx, pcancel})
			trace = append(trace, fmt.Sprintf("ctx-with-teardown %q", id))
		}

		// one of the callers goes away (its parent context ends): that is its own business, the others keep waiting
		if len(waiters) > 1 && rng.IntN(4) == 0 {
			i := rng.IntN(len(waiters))
			waiters[i].cancel()
			trace = append(trace, fmt.Sprintf("caller of ctx-with-teardown %q went away", waiters[i].id))
			waiters = slices.Delete(waiters, i, i+1)

			c.Count("whitebox_teardown_callers_gone", 1)
		}

		c.Count("whitebox_steps", 1)

		// reads == model
		for _, x := range wbIDs {
			got, err := cache.Get(ctx, resource.NewMetadata(ns, typ, x, resource.VersionUndefined))
			want, ok := model[x]

			switch {
			case ok && (err != nil || res.Token(got) != res.Token(want) || got.Metadata().Phase() != want.Metadata().Phase()):
				fail("cache-differs-from-model", map[string]any{"id": x, "read": "Get", "err": fmt.Sprint(err), "want_token": res.Token(want)})

				return
			case !ok && !state.IsNotFoundError(err):
				fail("cache-differs-from-model", map[string]any{"id": x, "read": "Get", "note": "absent in the model", "err": fmt.Sprint(err)})

				return
			}
		}

		idre := res.GenIDRegexp(rng, wbIDs)

		for fi, lo := range [][]state.ListOption{nil, {state.WithLabelQuery(resource.LabelEqual("odd", "1"))}, {state.WithIDQuery(resource.IDRegexpMatch(idre))},
			{state.WithIDQuery(resource.IDRegexpMatch(idre)), state.WithLabelQuery(resource.LabelEqual("odd", "1"))}} {
			l, err := cache.List(ctx, resource.NewMetadata(ns, typ, "", resource.VersionUndefined), lo...)
			if err != nil {
				fail("cache-differs-from-model", map[string]any{"read": "List", "err": err.Error()})

				return
			}

			want := map[string]string{}

			for x, r := range model {
				if (fi == 1 || fi == 3) && r.Metadata().Labels().Raw()["odd"] != "1" || fi >= 2 && !idre.MatchString(x) {
					continue
				}

				want[x] = res.Token(r)
			}

			got := map[string]string{}
			for _, it := range l.Items {
				if _, dup := got[it.Metadata().ID()]; dup {
					fail("cached-list-duplicate", map[string]any{"id": it.Metadata().ID(), "filter": fi})

					return
				}

				got[it.Metadata().ID()] = res.Token(it)
			}

			if !maps.Equal(got, want) {
				fail("cache-differs-from-model", map[string]any{"read": "List", "filter": fi, "id_regexp": idre.String(), "got": got, "want": want})

				return
			}
		}

		if n := cache.Len(ns, typ); n != len(model) {
			fail("cache-differs-from-model", map[string]any{"read": "Len", "got": n, "want": len(model)})

			return
		}

		// teardown-bound contexts: cancelled iff the id was absent / tearing down at the call, or was torn down / removed since
		// (the cancellation is carried out by a goroutine of the cache: let it run)
		synctest.Wait()

		keep := waiters[:0]

		for _, w := range waiters {
			cur, ok := model[w.id]
			gone := !ok || cur.Metadata().Phase() == resource.PhaseTearingDown

			switch {
			case w.ctx.Err() != nil:
				c.Count("whitebox_teardown_contexts_cancelled", 1) // (a cancelled context was legitimately cancelled at some point: ids only move towards gone-ness between checks)
			case gone:
				fail("cached-teardown-context-not-cancelled", map[string]any{"id": w.id})

				return
			default:
				keep = append(keep, w)
			}
		}

		waiters = keep
	}

	c.Case(vk.Hash("wb", k, len(trace)), true)
}

type tdRec struct {
	Probe  string
	Key    gp.Key
	Pre    rtp.Read
	Lo, Hi int
	Err    string
	ctx    context.Context //nolint:containedctx
}

func scenario(c *vk.C, rng *rand.Rand, k int) {
	cfg := rtp.GenCfg(rng, rtp.GenOpts{MaxCtrls: 3, MaxQ: 2, CachedProb: 0.85})
	cfg.MergeBatches = k%2 == 1 // re-batched aggregated events (bootstrap batch continuing with live events, ...)

	var (
		w    *rtp.World
		tdMu sync.Mutex
		tds  []*tdRec
	)

	cachedKind := func(ns, typ string) bool {
		for _, ck := range cfg.Cached {
			if ck.NS == ns && ck.Type == typ {
				return true
			}
		}

		return false
	}

	// probes take a teardown-bound context for a cached resource on some wakes
	for i := range cfg.Ctrls {
		cc := &cfg.Ctrls[i]
		prng := rand.New(rand.NewPCG(rng.Uint64(), uint64(i)))

		cc.Script = func(ctx context.Context, r controller.Runtime, n int) {
			if n > 4 || prng.IntN(2) == 0 {
				return
			}

			for _, in := range cc.Inputs {
				if !cachedKind(in.Namespace, in.Type) {
					continue
				}

				id := in.ID.ValueOr(rtp.IDs[prng.IntN(len(rtp.IDs))])
				key := gp.Key{NS: in.Namespace, Type: in.Type, ID: id}
				rec := &tdRec{Probe: cc.Name, Key: key}

				rec.Pre = rtp.Read{Key: key, Lo: w.Px.Len()}

				got, err := r.Get(ctx, rtp.Ptr(key))
				if err == nil {
					rec.Pre.Val = gp.SnapOf(got)
				} else if !state.IsNotFoundError(err) {
					return
				}

				rec.Pre.Hi = w.Px.Len()
				rec.Lo = w.Px.Len()

				tctx, err := r.ContextWithTeardown(ctx, rtp.Ptr(key))
				rec.Hi = w.Px.Len()

				if err != nil {
					rec.Err = err.Error()
				}

				rec.ctx = tctx

				tdMu.Lock()
				tds = append(tds, rec)
				tdMu.Unlock()

				return
			}
		}
	}

	var err error

	w, err = rtp.NewWorld(rng, cfg)
	if err != nil {
		c.Violation("world-setup-failed", err.Error())

		return
	}

	ctx, cancel := context.WithCancel(context.Background())
	s := &rtp.Scenario{W: w, Rng: rng, Ctx: ctx, Cancel: cancel}
	cs := w.RT.CachedState()

	var (
		extraMu sync.Mutex
		extra   []rtp.CachedRead
		readers sync.WaitGroup
		early   int
	)

	read := func(name string, kd rtp.Kind, id string) {
		rd := rtp.Read{Key: gp.Key{NS: kd.NS, Type: kd.Type, ID: id}, Lo: w.Px.Len()}

		if id == "" {
			rd.List = true

			list, err := cs.List(ctx, resource.NewMetadata(kd.NS, kd.Type, "", resource.VersionUndefined))
			if err != nil {
				return
			}

			rd.Items = map[string]*gp.Snap{}
			for _, it := range list.Items {
				rd.Items[it.Metadata().ID()] = gp.SnapOf(it)
			}
		} else {
			got, err := cs.Get(ctx, rtp.Ptr(rd.Key))

			switch {
			case err == nil:
				rd.Val = gp.SnapOf(got)
			case state.IsNotFoundError(err):
				rd.NotFound = true
			default:
				return
			}
		}

		rd.Hi = w.Px.Len()

		extraMu.Lock()
		extra = append(extra, rtp.CachedRead{Reader: name, Read: rd})
		extraMu.Unlock()
	}

	s.Burst(3+rng.IntN(6), 1)

	// readers that arrive before Run: they must block until the initial contents are complete
	startedBeforeRun := w.Px.Len()

	for i, kd := range cfg.Cached {
		readers.Add(1)
		early++

		id := ""
		if i%2 == 1 {
			id = rtp.IDs[rng.IntN(len(rtp.IDs))]
		}

		go func() {
			defer readers.Done()

			read(fmt.Sprintf("early-%d", i), kd, id)
		}()
	}

	synctest.Wait()

	extraMu.Lock()
	servedEarly := len(extra)
	extraMu.Unlock()

	if servedEarly > 0 {
		c.Violation("cached-read-served-before-run", map[string]any{"served": servedEarly, "note": "a cached read returned before the runtime was started, i.e. before any bootstrap could complete", "config": cfg})
	}

	_ = startedBeforeRun

	s.Burst(2, 1) // writes between reader arrival and Run
	w.Run(ctx)

	var problems []rtp.Problem

	for phase := 0; phase < 3 && len(problems) == 0; phase++ {
		if phase == 1 {
			w.RegisterLate()
		}

		// concurrent readers during the burst
		for i := 0; i < 3 && len(cfg.Cached) > 0; i++ {
			rr := rand.New(rand.NewPCG(rng.Uint64(), uint64(100+i)))

			readers.Add(1)

			go func() {
				defer readers.Done()

				for j := 0; j < 6; j++ {
					time.Sleep(time.Duration(rr.IntN(5)) * time.Millisecond)

					kd := cfg.Cached[rr.IntN(len(cfg.Cached))]
					id := ""

					if rr.IntN(2) == 0 {
						id = rtp.IDs[rr.IntN(len(rtp.IDs))]
					}

					read(fmt.Sprintf("reader-%d-%d", phase, i), kd, id)
				}
			}()
		}

		s.Burst(4+rng.IntN(16), 1+rng.IntN(3))
		rtp.Quiesce(30 * time.Minute)

		// at quiescence cached reads equal uncached reads
		cur := w.Px.ShadowAll()

		for _, kd := range cfg.Cached {
			list, err := cs.List(ctx, resource.NewMetadata(kd.NS, kd.Type, "", resource.VersionUndefined))
			if err != nil {
				problems = append(problems, rtp.Problem{Sig: "cached-list-failed", Detail: err.Error()})

				continue
			}

			got := map[string]*gp.Snap{}
			for _, it := range list.Items {
				got[it.Metadata().ID()] = gp.SnapOf(it)
			}

			want := map[string]*gp.Snap{}

			for key, v := range cur {
				if key.NS == kd.NS && key.Type == kd.Type {
					want[key.ID] = v
				}
			}

			c.Count("quiescent_cache_comparisons", 1)

			if len(got) != len(want) {
				problems = append(problems, rtp.Problem{Sig: "cache-differs-at-quiescence", Detail: fmt.Sprintf("%v: cached list has %d items, store has %d", kd, len(got), len(want))})

				continue
			}

			for id, v := range want {
				if !rtp.Eq(got[id], v) {
					problems = append(problems, rtp.Problem{Sig: "cache-differs-at-quiescence", Detail: fmt.Sprintf("%v/%s: cached %s, store %s", kd, id, rtp.Desc(got[id]), rtp.Desc(v))})
				}
			}

			// sorted by id?
			for i := 1; i < len(list.Items); i++ {
				if list.Items[i-1].Metadata().ID() >= list.Items[i].Metadata().ID() {
					c.Count("cached_list_unsorted_info", 1)
				}
			}
		}

		late := func(name string) bool {
			if phase >= 1 {
				return false
			}

			for _, cc := range cfg.Ctrls {
				if cc.Name == name && cc.Late {
					return true
				}
			}

			for _, q := range cfg.QCtrls {
				if q.Name == name && q.Late {
					return true
				}
			}

			return false
		}

		for _, p := range rtp.CheckWakeups(w, late) {
			if p.Sig != rtp.SigFilterShadow {
				p.Sig = "quiescent-" + p.Sig
				problems = append(problems, p)
			}
		}
	}

	readers.Wait()

	ps, checked, mapChecked := rtp.CheckCache(w, extra)
	problems = append(problems, ps...)

	// early readers were served after Run with a complete view (judged by CheckCache); count them
	extraMu.Lock()
	servedAfter := 0

	for _, e := range extra {
		if len(e.Reader) > 5 && e.Reader[:5] == "early" {
			servedAfter++
		}
	}
	extraMu.Unlock()

	if servedAfter != early {
		problems = append(problems, rtp.Problem{Sig: "early-cached-read-never-served", Detail: fmt.Sprintf("%d of %d cached reads issued before Run never returned", early-servedAfter, early)})
	}

	// teardown-bound contexts for cached resources
	log := w.Px.Log()
	tdCancelled, tdLive := 0, 0

	for _, rec := range tds {
		if rec.Err != "" || rec.ctx == nil {
			continue
		}

		kd := rtp.Kind{NS: rec.Key.NS, Type: rec.Key.Type}
		h := rtp.BuildHist(log, kd)
		cancelled := rec.ctx.Err() != nil
		gone := func(i int) bool { v := h.States[i][rec.Key.ID]; return v == nil || v.TearingDown() }

		if cancelled {
			tdCancelled++

			// never spuriously: from the cache view proven by the preceding cached Get on, some state is torn down / absent
			ms := h.MatchGet(rec.Key.ID, rec.Pre.Val, 0, len(h.States))
			if len(ms) == 0 {
				continue // judged by CheckCache
			}

			ok := false

			for i := ms[0]; i < len(h.States); i++ {
				if gone(i) {
					ok = true
				}
			}

			if !ok {
				problems = append(problems, rtp.Problem{Sig: "cached-teardown-context-cancelled-spuriously", Probe: rec.Probe,
					Detail: fmt.Sprintf("ContextWithTeardown(%v) is cancelled although the resource was present and running in every state since the reader's view (history index %d)", rec.Key, ms[0])})
			}
		} else {
			tdLive++

			for i := h.Idx(rec.Hi); i < len(h.States); i++ {
				if gone(i) {
					problems = append(problems, rtp.Problem{Sig: "cached-teardown-context-not-cancelled", Probe: rec.Probe,
						Detail: fmt.Sprintf("ContextWithTeardown(%v) still live at quiescence although the resource was torn down/absent in state %d (call returned at %d)", rec.Key, i, h.Idx(rec.Hi))})

					break
				}
			}
		}
	}

	cancel()
	w.WaitRun()
	synctest.Wait()

	c.Count("cached_reads_checked", checked)
	c.Count("map_reads_checked_against_notification", mapChecked)
	c.Count("early_readers_blocked_then_served", servedAfter)
	c.Count("teardown_contexts_cancelled", tdCancelled)
	c.Count("teardown_contexts_live", tdLive)
	c.Count("commits", len(log))
	c.Case(vk.Hash(cfg, s.Trace), early > 0 && mapChecked > 0)

	if k < 2 {
		c.Sample(map[string]any{"cached": cfg.Cached, "writes": len(log), "cached_reads": checked, "early_readers": early})
	}

	for _, p := range problems {
		c.Violation(p.Sig, map[string]any{"scenario": k, "config": cfg, "problem": p, "trace": s.Trace, "log": log})
	}
}
