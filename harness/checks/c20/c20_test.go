//go:build verif

// C20: key storage - the master key is recoverable through live slots only; tampering with the serialized form is
// detected on the next key retrieval.
package c20

import (
	"bytes"
	"crypto/hmac"
	"crypto/sha256"
	"encoding/base64"
	"encoding/hex"
	"fmt"
	"math/rand/v2"
	"sort"
	"strings"
	"sync"
	"testing"

	"github.com/ProtonMail/gopenpgp/v2/crypto"
	"github.com/ProtonMail/gopenpgp/v2/helper"
	"github.com/siderolabs/gen/xerrors"
	"google.golang.org/protobuf/encoding/protowire"

	"github.com/cosi-project/runtime/api/key_storage"
	"github.com/cosi-project/runtime/pkg/keystorage"

	"verif/harness/vk"
)

const (
	sigPanic         = "keystorage-panicked"
	sigPanicNilSlot  = "valueless-slot-entry-panics"
	sigRenameKnown   = "slot-renamed-behind-api-undetected"
	sigRenameReorder = "slot-renamed-reordered-undetected"
	sigBlob          = "corrupted-blob-accepted"
	sigAdd           = "slot-added-behind-api-undetected"
	sigAddEmpty      = "empty-slot-added-behind-api-undetected"
	sigRemove        = "slot-removed-behind-api-undetected"
	sigHMAC          = "hmac-tamper-undetected"
	sigShift         = "blob-boundary-shift-undetected"
	sigMulti         = "serialized-alteration-undetected"
	sigWrongKey      = "wrong-master-key-returned"
	sigNeverAdded    = "never-added-slot-recovers-key"
	sigDeleted       = "deleted-slot-recovers-key"
	sigWrongPriv     = "wrong-private-key-recovers-key"
	sigLiveLost      = "live-slot-cannot-recover-key"
	sigOverwritten   = "existing-slot-overwritten"
	sigLastDeleted   = "last-slot-deleted"
	sigSecondInit    = "second-initialize-accepted"
	sigFailedChanged = "failed-operation-changed-state"
	sigTamperOp      = "tampered-storage-accepted-by-add-or-delete"
	garbageKey       = "-----BEGIN PGP NOTHING-----\nnot a key\n-----END PGP NOTHING-----"
	poolSize         = 6
	idxEmpty         = -1
	idxGarbage       = -2
	idxAttacker      = -3
)

// ids used by the operation sequences (prefix relations and digits so that sorted order is not insertion order).
var universe = []string{"a", "ab", "b", "c", "slot-1"}

// ids probed after every step: the universe plus the empty id.
var probeIDs = append(append([]string{}, universe...), "", "never")

// ids used by the corruption part.
var universe2 = []string{"A", "a", "ab", "b", "c", "d", "m", "slot-1", "slot-10", "slot-2", "z", "~"}

type keyPair struct {
	Priv, Pub string
}

type cred struct {
	Name string
	Priv string
	Idx  int // >= 0 pool index, otherwise idxEmpty / idxGarbage / idxAttacker
}

type pool struct {
	keys     []keyPair
	attacker keyPair
}

func genKey(name string) (keyPair, error) {
	priv, err := helper.GenerateKey(name, name+"@verif.local", nil, "x25519", 0)
	if err != nil {
		return keyPair{}, err
	}

	k, err := crypto.NewKeyFromArmored(priv)
	if err != nil {
		return keyPair{}, err
	}

	pub, err := k.GetArmoredPublicKey()
	if err != nil {
		return keyPair{}, err
	}

	return keyPair{Priv: priv, Pub: pub}, nil
}

func newPool() (*pool, error) {
	p := &pool{}

	for i := 0; i < poolSize; i++ {
		kp, err := genKey(fmt.Sprintf("k%d", i))
		if err != nil {
			return nil, err
		}

		p.keys = append(p.keys, kp)
	}

	var err error

	p.attacker, err = genKey("attacker")

	return p, err
}

func (p *pool) pub(i int) string {
	switch {
	case i >= 0:
		return p.keys[i].Pub
	case i == idxGarbage:
		return garbageKey
	default:
		return ""
	}
}

// creds = all pool private keys, the empty string and a non-key; withAttacker adds the attacker's private key.
func (p *pool) creds(withAttacker bool) []cred {
	var out []cred

	for i, k := range p.keys {
		out = append(out, cred{Name: fmt.Sprintf("k%d", i), Priv: k.Priv, Idx: i})
	}

	out = append(out, cred{Name: "empty", Priv: "", Idx: idxEmpty}, cred{Name: "garbage", Priv: garbageKey, Idx: idxGarbage})

	if withAttacker {
		out = append(out, cred{Name: "attacker", Priv: p.attacker.Priv, Idx: idxAttacker})
	}

	return out
}

// ---- counters aggregated per task and flushed once ------------------------------------------------------------------------
type counters map[string]int

func (cn counters) flush(c *vk.C) {
	keys := make([]string, 0, len(cn))
	for k := range cn {
		keys = append(keys, k)
	}

	sort.Strings(keys)

	for _, k := range keys {
		c.Count(k, cn[k])
	}
}

// ---- guarded calls --------------------------------------------------------------------------------------------------------
type getResult struct {
	Key   []byte
	Err   error
	Panic any
	Stack string
}

func get(ks *keystorage.KeyStorage, id, priv string) getResult {
	var r getResult

	r.Panic, r.Stack = vk.Try(func() { r.Key, r.Err = ks.GetMasterKey(id, priv) })

	return r
}

func callErr(f func() error) (err error, p any, st string) {
	p, st = vk.Try(func() { err = f() })

	return err, p, st
}

func snapshot(ks *keystorage.KeyStorage) (st *key_storage.Storage, raw []byte, err error, p any, stack string) {
	p, stack = vk.Try(func() {
		raw, err = ks.MarshalBinary()
		if err != nil {
			return
		}

		st = &key_storage.Storage{}
		err = st.UnmarshalVT(raw)
	})

	return st, raw, err, p, stack
}

func errTag(err error) string {
	switch {
	case err == nil:
		return "none"
	case xerrors.TagIs[keystorage.NotInitializedTag](err):
		return "NotInitialized"
	case xerrors.TagIs[keystorage.AlreadyInitializedTag](err):
		return "AlreadyInitialized"
	case xerrors.TagIs[keystorage.SlotAlreadyExists](err):
		return "SlotAlreadyExists"
	case xerrors.TagIs[keystorage.SlotNotFoundTag](err):
		return "SlotNotFound"
	case xerrors.TagIs[keystorage.VersionMismatchTag](err):
		return "VersionMismatch"
	case xerrors.TagIs[keystorage.HMACMismatchTag](err):
		return "HMACMismatch"
	case xerrors.TagIs[keystorage.AlgorithmMismatchTag](err):
		return "AlgorithmMismatch"
	case xerrors.TagIs[keystorage.KeyDecryptionFailureTag](err):
		return "KeyDecryptionFailure"
	case xerrors.TagIs[keystorage.KeyEncryptionFailureTag](err):
		return "KeyEncryptionFailure"
	case xerrors.TagIs[keystorage.LastKeyTag](err):
		return "LastKey"
	default:
		return "untagged"
	}
}

func errStr(err error) string {
	if err == nil {
		return ""
	}

	s := err.Error()
	if len(s) > 200 {
		s = s[:200] + "..."
	}

	return s
}

func sortedKeys[V any](m map[string]V) []string {
	out := make([]string, 0, len(m))
	for k := range m {
		out = append(out, k)
	}

	sort.Strings(out)

	return out
}

func pick[T any](rng *rand.Rand, s []T) T { return s[rng.IntN(len(s))] }

func randBytes(rng *rand.Rand, n int) []byte {
	b := make([]byte, n)
	for i := range b {
		b[i] = byte(rng.UintN(256))
	}

	return b
}

func describeStorage(st *key_storage.Storage) map[string]any {
	if st == nil {
		return nil
	}

	slots := map[string]any{}

	for id, s := range st.GetKeySlots() {
		if s == nil {
			slots[id] = "<nil slot>"

			continue
		}

		slots[id] = map[string]any{"algorithm": int(s.Algorithm), "blob_len": len(s.EncryptedKey), "blob_sha256_8": vk.Hash(string(s.EncryptedKey))[:16]}
	}

	return map[string]any{"version": int(st.GetStorageVersion()), "hmac": hex.EncodeToString(st.GetKeysHmacHash()), "slots": slots}
}

func TestC20(t *testing.T) {
	vk.Run(t, "C20", "exploration", func(c *vk.C) {
		c.Rule("part 1 (model-based sequences): seeded scripts of 8-20 steps over the real keystorage.KeyStorage API with a pool of 6 x25519 PGP key pairs and the id universe " +
			"{a, ab, b, c, slot-1}: Initialize (valid; wrong-length master key, empty id, empty/garbage public key; a second Initialize with a different master key on an existing or a new id), " +
			"AddKeySlot (new id with the right credentials; an existing id with right or wrong credentials and another public key; new id with a wrong / empty / garbage old private key; unknown or " +
			"deleted old slot; empty new id or bad public key), DeleteKeySlot (the last slot with right or wrong key; right key; wrong key; missing slot; empty arguments), MarshalBinary -> fresh " +
			"KeyStorage.UnmarshalBinary (the script continues on the fresh object), also all of them before initialisation. A model {initialised, master key, live id -> key index, deleted ids} predicts " +
			"after EVERY step the full matrix (6 probe ids incl. the empty id) x (6 pool private keys + empty + non-key) of GetMasterKey: success with exactly the original master key iff the id is live " +
			"and the key is its own, an error otherwise (which error is only counted). Must-fail operations: second Initialize, AddKeySlot on a live id, DeleteKeySlot with one live slot; every " +
			"operation that returned an error must leave the marshalled storage structurally equal. Other argument errors are not demanded by the statement: the implementation's answer is taken " +
			"into the model and counted. distinct = hash of the step list with outcomes; non-trivial = the script contains at least one successful delete and at least one marshal/unmarshal round " +
			"trip of an initialised storage. part 2 (corruptions): seeded states with 1-3 live slots (ids from a 12-id universe, sometimes with a deleted slot in their history and a round trip) are " +
			"marshalled, decoded with the generated key_storage.Storage type, altered one field at a time and loaded into a fresh KeyStorage: byte flips (first/last/random/armor header), truncations, " +
			"extensions and replacement (attacker-encrypted blob, another slot's blob, last-wins duplicate map entry) of an EncryptedKey; swap of two blobs; slot added (copy of a blob, blob encrypted " +
			"to an attacker key, empty blob, map entry without value); slot removed; slot renamed with sorted order preserved and not preserved (incl. to the empty id); KeysHmacHash flipped, " +
			"truncated, emptied, extended, randomised, recomputed under another key; StorageVersion and Algorithm changes; benign duplicate map entries; raw single-byte flips of the serialized bytes " +
			"inside and outside the blobs (classified by decoding and diffing); and, beyond single-field, bytes moved across the boundary of two sorted-adjacent blobs. Oracle: a failing " +
			"UnmarshalBinary counts as detected; otherwise every originally-live (id, own key) retrieval must fail for alterations the statement lists (blob, slot set, integrity tag), no retrieval " +
			"over (all present + original + never-added ids) x (pool keys, attacker key, empty, non-key) may return anything but the original master key, and no pairing that was not live may recover " +
			"it. StorageVersion / Algorithm changes and benign duplicates are only counted. In a seeded third of the corruption cases (and twice on the unaltered bytes as a control) a fresh load " +
			"of the altered bytes first receives one AddKeySlot(new id, pool key) or DeleteKeySlot (when >= 2 slots) authenticated by an originally-live slot with its own key (preferably a slot " +
			"the alteration did not touch; for an injected attacker slot also authenticated by that slot) BEFORE any retrieval: since these operations retrieve the key to authenticate, they must be " +
			"refused for blob / slot-set / tag alterations, and afterwards - refused or not - the same retrieval oracle is applied, once directly and once after one more MarshalBinary -> " +
			"UnmarshalBinary round trip. For the alterations that leave the tag input unchanged (order-preserving rename, empty slot, boundary shift) an accepted operation is reported under the " +
			"signature of that class. Each corruption case is non-trivial by itself; distinct = (state, variant, with/without the operation)")
		c.Assume("PGP key generation and encryption use crypto/rand inside gopenpgp: the shape of every script / corruption (ops, ids, key indices, byte offsets) derives from the seed, the ciphertext bytes do not")
		c.Assume("argument validation beyond what the statement names (wrong-length master key, empty ids, wrong credentials for add/delete) is not demanded: the implementation's answer is taken and counted (counters free_op_accepted_*)")
		c.Assume("StorageVersion and Algorithm are not among the alterations the statement promises to detect: their detection is recorded as information only")
		c.Assume("the order of map entries produced by MarshalVT is not deterministic, so which field a raw byte flip at a seeded offset hits may differ between runs of one seed (the flip is classified by decoding)")
		c.Assume("a UnmarshalBinary that returns an error is counted as detection; retrievals after it are checked only for never returning a wrong key")
		c.Require("scripts", "matrix_cells_checked", "matrix_success_cells", "matrix_failure_cells", "deleted_slot_probes", "adds_ok", "deletes_ok", "roundtrips_initialised",
			"failed_ops_state_compared", "add_existing_slot_checked", "delete_last_slot_checked", "second_initialize_checked", "add_wrong_credentials_checked", "delete_wrong_key_checked",
			"corruption_states", "corruptions_checked", "renames_checked", "renames_order_preserved", "renames_order_changed", "corr_blob", "corr_swap", "corr_add", "corr_remove", "corr_hmac",
			"corr_raw_flips", "corr_live_retrievals_checked", "corr_then_add_checked", "corr_then_delete_checked", "corr_then_op_refused", "corr_then_op_with_untouched_authenticating_slot",
			"corr_then_add_control_ok", "corr_then_delete_control_ok", "corr_then_roundtrip_matrices", "corr_then_op_add", "corr_then_op_remove", "corr_then_op_blob", "concurrent_same_id_adds", "concurrent_delete_all")

		p, err := newPool()
		if err != nil {
			c.Inconclusive("key generation failed: " + err.Error())

			return
		}

		nScripts := c.N(300, 30000)
		nStates := c.N(60, 5000)

		// work queue: a task may submit sub-tasks (a corruption state fans its variants out in chunks); the capacity covers every task
		var wg sync.WaitGroup

		tasks := make(chan func(), nScripts+nStates*16+64)

		submit := func(f func()) {
			wg.Add(1)
			tasks <- f
		}

		for w := 0; w < 16; w++ {
			go func() {
				for f := range tasks {
					f()
					wg.Done()
				}
			}()
		}

		for k := 0; k < nScripts || k < nStates; k++ {
			if k < nStates {
				submit(func() {
					cn := counters{}
					defer cn.flush(c)

					corruptionState(c, p, rand.New(rand.NewPCG(uint64(c.Seed), uint64(9_000_000+k))), k, cn, submit)
				})
			}

			if k < nScripts {
				submit(func() {
					cn := counters{}
					defer cn.flush(c)

					script(c, p, rand.New(rand.NewPCG(uint64(c.Seed), uint64(k))), k, cn)
				})
			}
		}

		// part 3: concurrent use of one KeyStorage (the API is documented with a mutex: guards must hold under contention too)
		for k := 0; k < c.N(40, 3000); k++ {
			submit(func() {
				cn := counters{}
				defer cn.flush(c)

				concurrentOps(c, p, rand.New(rand.NewPCG(uint64(c.Seed), uint64(17_000_000+k))), k, cn)
			})
		}

		wg.Wait()
		close(tasks)
	})
}

// concurrentOps: several goroutines hit one initialised storage at the same time - AddKeySlot of the SAME new id with different
// public keys (at most one may win: an existing slot is never overwritten; the winner's key, and only it, recovers the master key
// through that slot), or DeleteKeySlot of every slot at once (at least one slot must survive, and every surviving slot still
// recovers the original master key). The race detector watches the storage's shared state meanwhile.
func concurrentOps(c *vk.C, p *pool, rng *rand.Rand, k int, cn counters) {
	master := make([]byte, 32)
	for i := range master {
		master[i] = byte(rng.IntN(256))
	}

	ks := &keystorage.KeyStorage{}

	if err := ks.Initialize(master, "s0", p.keys[0].Pub); err != nil {
		c.Violation("concurrent-setup-failed", map[string]any{"err": err.Error()})

		return
	}

	detail := func(m map[string]any) map[string]any { m["family"] = "concurrent"; m["k"] = k; return m }

	if k%2 == 0 {
		n := 2 + rng.IntN(3)
		errs := make([]error, n)

		var wg sync.WaitGroup

		start := make(chan struct{})

		for g := 0; g < n; g++ {
			wg.Add(1)

			go func() {
				defer wg.Done()

				<-start

				errs[g] = ks.AddKeySlot("contested", p.keys[1+g].Pub, "s0", p.keys[0].Priv)
			}()
		}

		close(start)
		wg.Wait()

		var winners []int

		for g, err := range errs {
			if err == nil {
				winners = append(winners, g)
			}
		}

		cn["concurrent_same_id_adds"]++

		if len(winners) != 1 {
			c.Violation("concurrent-adds-of-one-slot-id-both-succeeded", detail(map[string]any{"callers": n, "succeeded": winners, "errors": fmt.Sprint(errs)}))

			return
		}

		for g := 0; g < n; g++ {
			r := get(ks, "contested", p.keys[1+g].Priv)
			ok := r.Err == nil && r.Panic == nil && string(r.Key) == string(master)

			if ok != (g == winners[0]) {
				c.Violation("concurrent-add-slot-key-mismatch", detail(map[string]any{"winner": winners[0], "key_of_caller": g, "recovers_master_key": ok, "err": fmt.Sprint(r.Err)}))

				return
			}
		}

		cn["concurrent_matrix_cells"] += n
	} else {
		n := 2 + rng.IntN(3)

		for g := 1; g < n; g++ {
			if err := ks.AddKeySlot(fmt.Sprintf("s%d", g), p.keys[g].Pub, "s0", p.keys[0].Priv); err != nil {
				c.Violation("concurrent-setup-failed", map[string]any{"err": err.Error()})

				return
			}
		}

		errs := make([]error, n)

		var wg sync.WaitGroup

		start := make(chan struct{})

		for g := 0; g < n; g++ {
			wg.Add(1)

			go func() {
				defer wg.Done()

				<-start

				errs[g] = ks.DeleteKeySlot(fmt.Sprintf("s%d", g), p.keys[g].Priv)
			}()
		}

		close(start)
		wg.Wait()

		cn["concurrent_delete_all"]++

		live := 0

		for g := 0; g < n; g++ {
			r := get(ks, fmt.Sprintf("s%d", g), p.keys[g].Priv)

			switch {
			case r.Panic != nil:
				c.Violation("retrieval-panicked", detail(map[string]any{"panic": fmt.Sprint(r.Panic)}))

				return
			case r.Err == nil && string(r.Key) != string(master):
				c.Violation("wrong-master-key-returned", detail(map[string]any{"slot": g}))

				return
			case r.Err == nil:
				live++

				if errs[g] == nil {
					c.Violation("deleted-slot-still-recovers-key", detail(map[string]any{"slot": g}))

					return
				}
			}
		}

		if live == 0 {
			c.Violation("concurrent-deletes-removed-the-last-slot", detail(map[string]any{"slots": n, "errors": fmt.Sprint(errs)}))

			return
		}

		cn["concurrent_matrix_cells"] += n
	}
}

// ---- part 1: model-based sequences ----------------------------------------------------------------------------------------
type model struct {
	init    bool
	master  []byte
	slots   map[string]int // live id -> pool key index (negative: no pool key)
	deleted map[string]bool
}

func (m *model) describe() map[string]any {
	return map[string]any{"initialised": m.init, "master_hex": hex.EncodeToString(m.master), "live": m.slots, "deleted": sortedKeys(m.deleted)}
}

type op struct {
	Kind    string // init | add | delete | roundtrip
	Variant string
	Class   string // valid | free | must-fail
	Sig     string // for must-fail
	Master  []byte
	ID      string
	Pub     int
	OldID   string
	Cred    int // index into creds
}

type stepRec struct {
	I       int    `json:"i"`
	Op      string `json:"op"`
	Variant string `json:"variant"`
	Class   string `json:"class"`
	ID      string `json:"id,omitempty"`
	Pub     string `json:"pub,omitempty"`
	OldID   string `json:"old_id,omitempty"`
	Cred    string `json:"cred,omitempty"`
	MKLen   int    `json:"master_key_len,omitempty"`
	OK      bool   `json:"ok"`
	Tag     string `json:"err_tag,omitempty"`
	Err     string `json:"err,omitempty"`
}

func pubName(i int) string {
	switch {
	case i >= 0:
		return fmt.Sprintf("k%d", i)
	case i == idxGarbage:
		return "garbage"
	default:
		return "empty"
	}
}

// wrongCred picks a credential index that is not the pool key `right`.
func wrongCred(rng *rand.Rand, right int) int {
	switch x := rng.IntN(100); {
	case x < 70:
		i := rng.IntN(poolSize - 1)
		if i >= right && right >= 0 {
			i++
		}

		return i
	case x < 85:
		return poolSize // empty
	default:
		return poolSize + 1 // garbage
	}
}

func credFor(keyIdx int) int {
	if keyIdx >= 0 {
		return keyIdx
	}

	return poolSize + 1
}

func genOp(rng *rand.Rand, m *model) op {
	live := sortedKeys(m.slots)

	var free, liveU []string

	for _, id := range universe {
		if _, ok := m.slots[id]; ok {
			liveU = append(liveU, id)
		} else {
			free = append(free, id)
		}
	}

	notLive := func() string {
		// never-added, deleted or empty id
		del := sortedKeys(m.deleted)

		var cand []string

		for _, d := range del {
			if _, ok := m.slots[d]; !ok {
				cand = append(cand, d)
			}
		}

		cand = append(cand, free...)
		cand = append(cand, "", "never")

		return pick(rng, cand)
	}

	if !m.init {
		switch x := rng.IntN(100); {
		case x < 70:
			return op{Kind: "init", Variant: "valid", Class: "valid", Master: randBytes(rng, 32), ID: pick(rng, universe), Pub: rng.IntN(poolSize)}
		case x < 82:
			o := op{Kind: "init", Class: "free", Master: randBytes(rng, 32), ID: pick(rng, universe), Pub: rng.IntN(poolSize)}

			switch rng.IntN(4) {
			case 0:
				o.Variant = "wrong-length-master-key"
				o.Master = randBytes(rng, pick(rng, []int{0, 1, 16, 31, 33, 64}))
			case 1:
				o.Variant = "empty-id"
				o.ID = ""
			case 2:
				o.Variant = "empty-public-key"
				o.Pub = idxEmpty
			default:
				o.Variant = "garbage-public-key"
				o.Pub = idxGarbage
			}

			return o
		case x < 88:
			return op{Kind: "add", Variant: "uninitialised", Class: "free", ID: pick(rng, universe), Pub: rng.IntN(poolSize), OldID: pick(rng, universe), Cred: rng.IntN(poolSize)}
		case x < 94:
			return op{Kind: "delete", Variant: "uninitialised", Class: "free", ID: pick(rng, universe), Cred: rng.IntN(poolSize)}
		default:
			return op{Kind: "roundtrip", Variant: "uninitialised", Class: "free"}
		}
	}

	if len(live) == 0 { // only reachable through a "free" answer of the implementation
		return op{Kind: "roundtrip", Variant: "initialised", Class: "free"}
	}

	switch x := rng.IntN(100); {
	case x < 10:
		o := op{Kind: "init", Variant: "second", Class: "must-fail", Sig: sigSecondInit, Master: randBytes(rng, 32), Pub: rng.IntN(poolSize)}

		switch rng.IntN(4) {
		case 0:
			o.ID = pick(rng, live)
			o.Variant = "second-existing-id"
		case 1:
			o.ID = pick(rng, universe)
			o.Master = append([]byte{}, m.master...)
			o.Variant = "second-same-master-key"
		case 2:
			o.ID = pick(rng, universe)
			o.Master = randBytes(rng, pick(rng, []int{0, 16, 33}))
			o.Variant = "second-wrong-length"
		default:
			o.ID = pick(rng, universe)
			o.Variant = "second-any-id"
		}

		return o
	case x < 50:
		old := pick(rng, live)
		o := op{Kind: "add", OldID: old, Cred: credFor(m.slots[old]), Pub: rng.IntN(poolSize)}

		y := rng.IntN(100)
		if len(free) == 0 && y < 50 {
			y = 50
		}

		switch {
		case y < 50:
			o.Variant, o.Class, o.ID = "new-valid", "valid", pick(rng, free)
		case y < 70:
			o.Variant, o.Class, o.Sig, o.ID = "existing-id", "must-fail", sigOverwritten, pick(rng, liveU)

			if cur := m.slots[o.ID]; cur >= 0 { // another public key than the one the slot holds
				o.Pub = rng.IntN(poolSize - 1)
				if o.Pub >= cur {
					o.Pub++
				}
			}

			if rng.IntN(10) < 3 {
				o.Variant = "existing-id-wrong-credentials"
				o.Cred = wrongCred(rng, m.slots[old])
			}
		case y < 85:
			o.Variant, o.Class, o.ID = "new-wrong-credentials", "free", pick(rng, append(append([]string{}, free...), "never"))
			o.Cred = wrongCred(rng, m.slots[old])
		case y < 93:
			o.Variant, o.Class, o.ID = "new-unknown-old-slot", "free", pick(rng, append(append([]string{}, free...), "never"))
			o.OldID = notLive()
			o.Cred = rng.IntN(poolSize)
		default:
			o.Class = "free"

			switch rng.IntN(3) {
			case 0:
				o.Variant, o.ID = "new-empty-id", ""
			case 1:
				o.Variant, o.ID, o.Pub = "new-empty-public-key", pick(rng, append(append([]string{}, free...), "never")), idxEmpty
			default:
				o.Variant, o.ID, o.Pub = "new-garbage-public-key", pick(rng, append(append([]string{}, free...), "never")), idxGarbage
			}
		}

		return o
	case x < 80:
		id := pick(rng, live)
		o := op{Kind: "delete", ID: id, Cred: credFor(m.slots[id])}

		if len(live) == 1 {
			o.Variant, o.Class, o.Sig = "last-slot-right-key", "must-fail", sigLastDeleted

			switch rng.IntN(10) {
			case 0, 1:
				o.Variant = "last-slot-wrong-key"
				o.Cred = wrongCred(rng, m.slots[id])
			case 2:
				o.Variant = "last-slot-other-id"
				o.ID = notLive()
			}

			return o
		}

		switch y := rng.IntN(100); {
		case y < 60:
			o.Variant, o.Class = "right-key", "valid"
		case y < 78:
			o.Variant, o.Class = "wrong-key", "free"
			o.Cred = wrongCred(rng, m.slots[id])
		case y < 92:
			o.Variant, o.Class = "missing-slot", "free"
			o.ID = notLive()

			if rng.IntN(2) == 0 {
				o.Cred = rng.IntN(poolSize)
			}
		default:
			o.Variant, o.Class = "key-of-another-live-slot", "free"
			other := pick(rng, live)
			o.Cred = credFor(m.slots[other])

			if m.slots[other] == m.slots[id] {
				o.Cred = wrongCred(rng, m.slots[id])
			}
		}

		return o
	default:
		return op{Kind: "roundtrip", Variant: "initialised", Class: "free"}
	}
}

func script(c *vk.C, p *pool, rng *rand.Rand, k int, cn counters) {
	ks := &keystorage.KeyStorage{}
	m := &model{slots: map[string]int{}, deleted: map[string]bool{}}
	creds := p.creds(false)
	n := 8 + rng.IntN(13)

	var (
		trace               []stepRec
		okDeletes, okRounds int
	)

	fail := func(sig string, detail map[string]any) {
		detail["script"] = k
		detail["steps"] = trace
		detail["model"] = m.describe()

		if st, _, _, _, _ := snapshot(ks); st != nil {
			detail["storage"] = describeStorage(st)
		}

		c.Violation(sig, detail)
	}

	matrix := func(overwriteID string) bool {
		cells := 0

		defer func() { cn["matrix_cells_checked"] += cells }()

		for _, id := range probeIDs {
			keyIdx, live := m.slots[id]
			live = live && m.init

			for _, cr := range creds {
				r := get(ks, id, cr.Priv)
				cells++

				if r.Panic != nil {
					fail(sigPanic, map[string]any{"call": "GetMasterKey", "id": id, "cred": cr.Name, "panic": fmt.Sprint(r.Panic), "stack": r.Stack})

					return false
				}

				want := live && cr.Idx >= 0 && cr.Idx == keyIdx

				if m.deleted[id] && !live {
					cn["deleted_slot_probes"]++
				}

				detail := map[string]any{"probe_id": id, "probe_cred": cr.Name, "want_success": want, "err": errStr(r.Err), "got_key_hex": hex.EncodeToString(r.Key)}

				switch {
				case want && r.Err == nil:
					cn["matrix_success_cells"]++

					if !bytes.Equal(r.Key, m.master) {
						fail(sigWrongKey, detail)

						return false
					}
				case want:
					sig := sigLiveLost
					if id == overwriteID {
						sig = sigOverwritten
					}

					fail(sig, detail)

					return false
				case r.Err == nil:
					sig := sigNeverAdded

					switch {
					case !bytes.Equal(r.Key, m.master):
						sig = sigWrongKey
					case id == overwriteID:
						sig = sigOverwritten
					case live:
						sig = sigWrongPriv
					case m.deleted[id]:
						sig = sigDeleted
					}

					fail(sig, detail)

					return false
				default:
					cn["matrix_failure_cells"]++
					cn["get_err_"+errTag(r.Err)]++
				}
			}
		}

		return true
	}

	type heldForm struct {
		at        int
		raw, copy []byte
	}

	var heldForms []heldForm

	for i := 0; i < n; i++ {
		o := genOp(rng, m)
		rec := stepRec{I: i, Op: o.Kind, Variant: o.Variant, Class: o.Class}

		pre, preRaw, preErr, pp, pst := snapshot(ks)
		if pp != nil {
			fail(sigPanic, map[string]any{"call": "MarshalBinary", "panic": fmt.Sprint(pp), "stack": pst})

			return
		}

		// serialized forms handed out earlier are the caller's: later operations and later MarshalBinary calls on the storage must
		// not change them (a backup taken before a slot was deleted has to stay that backup)
		for _, h := range heldForms {
			cn["held_serialized_forms_checked"]++

			if !bytes.Equal(h.raw, h.copy) {
				fail("serialized-form-changed-by-later-operations", map[string]any{"taken_at_step": h.at, "now_step": i, "was_hex": hexClip(h.copy), "now_hex": hexClip(h.raw)})

				return
			}
		}

		if preErr == nil && len(preRaw) > 0 {
			heldForms = append(heldForms, heldForm{at: i, raw: preRaw, copy: bytes.Clone(preRaw)})
			if len(heldForms) > 6 {
				heldForms = heldForms[1:]
			}
		}

		var (
			err   error
			pnc   any
			stack string
		)

		overwriteID := ""

		switch o.Kind {
		case "init":
			rec.ID, rec.Pub, rec.MKLen = o.ID, pubName(o.Pub), len(o.Master)
			err, pnc, stack = callErr(func() error { return ks.Initialize(o.Master, o.ID, p.pub(o.Pub)) })

			if m.init {
				cn["second_initialize_checked"]++
			}
		case "add":
			rec.ID, rec.Pub, rec.OldID, rec.Cred = o.ID, pubName(o.Pub), o.OldID, creds[o.Cred].Name
			err, pnc, stack = callErr(func() error { return ks.AddKeySlot(o.ID, p.pub(o.Pub), o.OldID, creds[o.Cred].Priv) })

			if o.Sig == sigOverwritten {
				cn["add_existing_slot_checked"]++
				overwriteID = o.ID
			}

			if strings.Contains(o.Variant, "wrong-credentials") || o.Variant == "new-unknown-old-slot" {
				cn["add_wrong_credentials_checked"]++
			}
		case "delete":
			rec.ID, rec.Cred = o.ID, creds[o.Cred].Name
			err, pnc, stack = callErr(func() error { return ks.DeleteKeySlot(o.ID, creds[o.Cred].Priv) })

			if o.Sig == sigLastDeleted {
				cn["delete_last_slot_checked"]++
			}

			if o.Variant == "wrong-key" || o.Variant == "key-of-another-live-slot" {
				cn["delete_wrong_key_checked"]++
			}
		case "roundtrip":
			var fresh *keystorage.KeyStorage

			err, pnc, stack = callErr(func() error {
				data, merr := ks.MarshalBinary()
				if merr != nil {
					return fmt.Errorf("marshal: %w", merr)
				}

				fresh = &keystorage.KeyStorage{}

				return fresh.UnmarshalBinary(data)
			})

			if fresh != nil {
				ks = fresh // also when UnmarshalBinary failed: the matrix then decides
			}

			if m.init {
				cn["roundtrips_initialised"]++
				okRounds++

				if err != nil {
					cn["roundtrip_of_initialised_storage_failed"]++
				}
			} else {
				cn["roundtrips_uninitialised"]++
			}
		}

		rec.OK, rec.Tag, rec.Err = err == nil && pnc == nil, errTag(err), errStr(err)
		trace = append(trace, rec)
		cn["steps"]++

		if pnc != nil {
			fail(sigPanic, map[string]any{"call": o.Kind, "panic": fmt.Sprint(pnc), "stack": stack})

			return
		}

		if o.Kind != "roundtrip" {
			cn["op_"+o.Kind+"_"+o.Variant]++

			switch {
			case err == nil && o.Class == "must-fail":
				fail(o.Sig, map[string]any{"step": rec, "note": "the operation must be refused but returned nil"})

				return
			case err == nil:
				if o.Class == "free" {
					cn["free_op_accepted_"+o.Kind+"_"+o.Variant]++
				}

				switch o.Kind {
				case "init":
					m.init, m.master, m.slots, m.deleted = true, append([]byte{}, o.Master...), map[string]int{o.ID: o.Pub}, map[string]bool{}
					cn["inits_ok"]++
				case "add":
					m.slots[o.ID] = o.Pub
					delete(m.deleted, o.ID)
					cn["adds_ok"]++
				case "delete":
					if _, ok := m.slots[o.ID]; ok {
						delete(m.slots, o.ID)
						m.deleted[o.ID] = true
					}

					cn["deletes_ok"]++
					okDeletes++
				}
			default:
				if o.Class == "valid" {
					cn["valid_op_refused_"+o.Kind]++
				}

				cn["op_err_"+o.Kind+"_"+errTag(err)]++

				// a failed operation changes nothing
				post, _, postErr, pp, pst := snapshot(ks)
				if pp != nil {
					fail(sigPanic, map[string]any{"call": "MarshalBinary", "panic": fmt.Sprint(pp), "stack": pst})

					return
				}

				if preErr == nil && postErr == nil {
					cn["failed_ops_state_compared"]++

					if !pre.EqualVT(post) {
						fail(sigFailedChanged, map[string]any{"step": rec, "before": describeStorage(pre), "after": describeStorage(post)})

						return
					}
				}
			}
		}

		if !matrix(overwriteID) {
			return
		}
	}

	cn["scripts"]++

	parts := make([]any, 0, len(trace))
	for _, r := range trace {
		parts = append(parts, fmt.Sprintf("%s/%s/%s/%s/%s/%s/%d/%v", r.Op, r.Variant, r.ID, r.Pub, r.OldID, r.Cred, r.MKLen, r.OK))
	}

	nontrivial := okDeletes > 0 && okRounds > 0
	if nontrivial {
		cn["scripts_nontrivial"]++
	}

	c.Case(vk.Hash(parts...), nontrivial)

	if k < 2 {
		c.Sample(map[string]any{"mode": "sequence", "script": k, "steps": trace, "final_model": m.describe()})
	}
}

// ---- part 2: corruptions of the serialized form ---------------------------------------------------------------------------
type variant struct {
	Name     string
	Class    string
	Note     string
	Data     []byte
	ExtraIDs []string
}

type corrState struct {
	k       int
	master  []byte
	slots   map[string]int // live id -> pool key index
	ids     []string       // sorted live ids
	deleted string         // id deleted through the API before marshalling ("" if none)
	base    *key_storage.Storage
	raw     []byte
	history []string
}

var classSig = map[string]string{
	"blob":             sigBlob,
	"swap":             sigBlob,
	"add":              sigAdd,
	"add-empty":        sigAddEmpty,
	"add-nil":          sigAdd,
	"remove":           sigRemove,
	"rename-preserved": sigRenameKnown,
	"rename-reordered": sigRenameReorder,
	"hmac":             sigHMAC,
	"shift":            sigShift,
	"multi":            sigMulti,
	// informational classes: version, algorithm, benign
}

func marshalStorage(s *key_storage.Storage) []byte {
	b, err := s.MarshalVT()
	if err != nil {
		panic(err)
	}

	return b
}

// mapEntry encodes one key_slots map entry (field 2 of Storage); slot == nil gives an entry without a value.
func mapEntry(id string, slot *key_storage.KeySlot) []byte {
	var e []byte

	e = protowire.AppendTag(e, 1, protowire.BytesType)
	e = protowire.AppendString(e, id)

	if slot != nil {
		var v []byte

		if slot.Algorithm != 0 {
			v = protowire.AppendTag(v, 1, protowire.VarintType)
			v = protowire.AppendVarint(v, uint64(slot.Algorithm))
		}

		v = protowire.AppendTag(v, 2, protowire.BytesType)
		v = protowire.AppendBytes(v, slot.EncryptedKey)
		e = protowire.AppendTag(e, 2, protowire.BytesType)
		e = protowire.AppendBytes(e, v)
	}

	var out []byte

	out = protowire.AppendTag(out, 2, protowire.BytesType)
	out = protowire.AppendBytes(out, e)

	return out
}

func rank(id string, others []string) int {
	n := 0

	for _, o := range others {
		if o < id {
			n++
		}
	}

	return n
}

func without(ids []string, id string) []string {
	var out []string

	for _, x := range ids {
		if x != id {
			out = append(out, x)
		}
	}

	return out
}

// classify decodes nothing itself: it compares a decoded altered storage with the base.
func classify(base, got *key_storage.Storage) (class, note string) {
	var added, removed, blobs, algs, nils []string

	for id, s := range got.GetKeySlots() {
		b, ok := base.GetKeySlots()[id]

		switch {
		case s == nil:
			nils = append(nils, id)

			if !ok {
				added = append(added, id)
			}
		case !ok:
			added = append(added, id)
		default:
			if !bytes.Equal(b.EncryptedKey, s.EncryptedKey) {
				blobs = append(blobs, id)
			}

			if b.Algorithm != s.Algorithm {
				algs = append(algs, id)
			}
		}
	}

	for id := range base.GetKeySlots() {
		if _, ok := got.GetKeySlots()[id]; !ok {
			removed = append(removed, id)
		}
	}

	version := base.GetStorageVersion() != got.GetStorageVersion()
	tag := !bytes.Equal(base.GetKeysHmacHash(), got.GetKeysHmacHash())

	sort.Strings(added)
	sort.Strings(removed)

	note = fmt.Sprintf("added=%q removed=%q blobs=%q algorithms=%q nil=%q version=%v hmac=%v", added, removed, blobs, algs, nils, version, tag)
	kinds := 0

	for _, b := range []bool{len(added) > 0, len(removed) > 0, len(blobs) > 0, len(algs) > 0, version, tag} {
		if b {
			kinds++
		}
	}

	switch {
	case kinds == 0 && len(nils) == 0:
		return "benign", note
	case len(nils) > 0:
		return "add-nil", note
	case kinds == 1 && version:
		return "version", note
	case kinds == 1 && len(algs) > 0:
		return "algorithm", note
	case kinds == 1 && tag:
		return "hmac", note
	case kinds == 1 && len(blobs) > 0:
		return "blob", note
	case kinds == 1 && len(removed) > 0:
		return "remove", note
	case kinds == 1 && len(added) > 0:
		for _, id := range added {
			if len(got.KeySlots[id].EncryptedKey) > 0 {
				return "add", note
			}
		}

		return "add-empty", note
	case kinds == 2 && len(added) == 1 && len(removed) == 1 && len(blobs) == 0 && len(algs) == 0 && !version && !tag &&
		bytes.Equal(got.KeySlots[added[0]].EncryptedKey, base.KeySlots[removed[0]].EncryptedKey):
		if got.KeySlots[added[0]].Algorithm != base.KeySlots[removed[0]].Algorithm {
			return "multi", note
		}

		others := without(sortedKeys(base.KeySlots), removed[0])
		if rank(added[0], others) == rank(removed[0], others) {
			return "rename-preserved", note
		}

		return "rename-reordered", note
	default:
		return "multi", note
	}
}

func buildState(c *vk.C, p *pool, rng *rand.Rand, k int) *corrState {
	st := &corrState{k: k, master: randBytes(rng, 32), slots: map[string]int{}}
	n := 1 + rng.IntN(3)
	perm := rng.Perm(len(universe2))
	ks := &keystorage.KeyStorage{}

	bad := func(what string, err error, pn any, stack string) *corrState {
		if pn != nil {
			c.Violation(sigPanic, map[string]any{"mode": "corruption-setup", "call": what, "panic": fmt.Sprint(pn), "stack": stack, "history": st.history})
		} else {
			c.Violation("valid-operation-refused-in-setup", map[string]any{"mode": "corruption-setup", "call": what, "err": errStr(err), "history": st.history})
		}

		return nil
	}

	for i := 0; i < n; i++ {
		id, key := universe2[perm[i]], rng.IntN(poolSize)

		if i == 0 {
			st.history = append(st.history, fmt.Sprintf("Initialize(%s,k%d)", id, key))

			if err, pn, stk := callErr(func() error { return ks.Initialize(st.master, id, p.keys[key].Pub) }); err != nil || pn != nil {
				return bad("Initialize", err, pn, stk)
			}
		} else {
			old := pick(rng, sortedKeys(st.slots))
			st.history = append(st.history, fmt.Sprintf("AddKeySlot(%s,k%d,via %s)", id, key, old))

			if err, pn, stk := callErr(func() error { return ks.AddKeySlot(id, p.keys[key].Pub, old, p.keys[st.slots[old]].Priv) }); err != nil || pn != nil {
				return bad("AddKeySlot", err, pn, stk)
			}
		}

		st.slots[id] = key
	}

	if rng.IntN(3) == 0 { // a deleted slot in the history
		id, key, old := universe2[perm[n]], rng.IntN(poolSize), pick(rng, sortedKeys(st.slots))
		st.history = append(st.history, fmt.Sprintf("AddKeySlot(%s,k%d,via %s)", id, key, old), fmt.Sprintf("DeleteKeySlot(%s)", id))

		if err, pn, stk := callErr(func() error { return ks.AddKeySlot(id, p.keys[key].Pub, old, p.keys[st.slots[old]].Priv) }); err != nil || pn != nil {
			return bad("AddKeySlot", err, pn, stk)
		}

		if err, pn, stk := callErr(func() error { return ks.DeleteKeySlot(id, p.keys[key].Priv) }); err != nil || pn != nil {
			return bad("DeleteKeySlot", err, pn, stk)
		}

		st.deleted = id
	}

	var (
		err error
		pn  any
		stk string
	)

	st.base, st.raw, err, pn, stk = snapshot(ks)
	if err != nil || pn != nil {
		return bad("MarshalBinary", err, pn, stk)
	}

	st.ids = sortedKeys(st.slots)

	return st
}

func flipAt(b []byte, pos int, mask byte) []byte {
	out := append([]byte{}, b...)
	out[pos] ^= mask

	return out
}

func buildVariants(p *pool, rng *rand.Rand, st *corrState, cn counters) []variant {
	var out []variant

	mut := func(name, class string, f func(s *key_storage.Storage) (note string, extra []string)) {
		s := st.base.CloneVT()
		note, extra := f(s)
		out = append(out, variant{Name: name, Class: class, Note: note, Data: marshalStorage(s), ExtraIDs: extra})
	}

	unused := func() []string {
		var u []string

		for _, id := range universe2 {
			if _, ok := st.slots[id]; !ok && id != st.deleted {
				u = append(u, id)
			}
		}

		return u
	}()

	newID := func() string {
		if st.deleted != "" && rng.IntN(4) == 0 {
			return st.deleted // re-appearing under the id of a slot deleted through the API
		}

		return pick(rng, unused)
	}

	fake := randBytes(rng, 32)

	attackerBlob, err := helper.EncryptBinaryMessageArmored(p.attacker.Pub, fake)
	if err != nil {
		panic(err)
	}

	mask := func() byte { return byte(1 + rng.IntN(255)) }

	// --- one blob altered -------------------------------------------------------------------------------------------------
	target := pick(rng, st.ids)
	blob := st.base.KeySlots[target].EncryptedKey

	blobMut := func(name string, f func(b []byte) ([]byte, string)) {
		mut("blob-"+name, "blob", func(s *key_storage.Storage) (string, []string) {
			nb, note := f(append([]byte{}, blob...))
			s.KeySlots[target].EncryptedKey = nb

			return fmt.Sprintf("slot %q: %s", target, note), nil
		})
	}

	blobMut("flip-first", func(b []byte) ([]byte, string) { return flipAt(b, 0, mask()), "first byte" })
	blobMut("flip-last", func(b []byte) ([]byte, string) { return flipAt(b, len(b)-1, mask()), "last byte" })

	for i := 0; i < 2; i++ {
		blobMut("flip-random", func(b []byte) ([]byte, string) {
			pos := rng.IntN(len(b))

			return flipAt(b, pos, mask()), fmt.Sprintf("byte %d of %d", pos, len(b))
		})
	}

	blobMut("flip-bit-in-armor-header", func(b []byte) ([]byte, string) {
		pos := bytes.Index(b, []byte("Version:"))
		if pos < 0 {
			pos = 30
		}

		pos += rng.IntN(20)

		return flipAt(b, pos%len(b), 0x20), fmt.Sprintf("case bit of byte %d (armor header)", pos%len(b))
	})
	blobMut("truncate-1", func(b []byte) ([]byte, string) { return b[:len(b)-1], "last byte dropped" })
	blobMut("truncate-random", func(b []byte) ([]byte, string) {
		n := rng.IntN(len(b))

		return b[:n], fmt.Sprintf("truncated to %d of %d", n, len(b))
	})
	blobMut("truncate-to-empty", func(b []byte) ([]byte, string) { return nil, "emptied" })
	blobMut("extend-newline", func(b []byte) ([]byte, string) { return append(b, '\n'), "newline appended" })
	blobMut("extend-random", func(b []byte) ([]byte, string) {
		return append(b, randBytes(rng, 1+rng.IntN(8))...), "random bytes appended"
	})
	blobMut("prepend-space", func(b []byte) ([]byte, string) { return append([]byte{' '}, b...), "space prepended" })
	blobMut("replace-attacker-blob", func(b []byte) ([]byte, string) {
		return []byte(attackerBlob), "replaced by a message encrypted to the attacker's key"
	})
	blobMut("replace-doubled", func(b []byte) ([]byte, string) { return append(b, b...), "blob doubled" })

	out = append(out, variant{
		Name: "blob-duplicate-entry-last-wins", Class: "blob", Note: fmt.Sprintf("second map entry for %q with a flipped blob appended to the serialized form", target),
		Data: append(append([]byte{}, st.raw...), mapEntry(target, &key_storage.KeySlot{Algorithm: st.base.KeySlots[target].Algorithm, EncryptedKey: flipAt(blob, rng.IntN(len(blob)), mask())})...),
	})

	// --- two blobs ---------------------------------------------------------------------------------------------------------
	for i := 0; i < len(st.ids); i++ {
		for j := i + 1; j < len(st.ids); j++ {
			a, b := st.ids[i], st.ids[j]

			mut("swap-blobs", "swap", func(s *key_storage.Storage) (string, []string) {
				s.KeySlots[a].EncryptedKey, s.KeySlots[b].EncryptedKey = s.KeySlots[b].EncryptedKey, s.KeySlots[a].EncryptedKey

				return fmt.Sprintf("blobs of %q and %q swapped", a, b), nil
			})
		}
	}

	if len(st.ids) > 1 {
		src := pick(rng, without(st.ids, target))

		blobMut("replace-with-other-slots-blob", func(b []byte) ([]byte, string) {
			return append([]byte{}, st.base.KeySlots[src].EncryptedKey...), fmt.Sprintf("replaced by the blob of %q", src)
		})
	}

	// --- slot added --------------------------------------------------------------------------------------------------------
	for i := 0; i < 2; i++ {
		src, id := pick(rng, st.ids), newID()

		mut("add-copy-of-existing-blob", "add", func(s *key_storage.Storage) (string, []string) {
			s.KeySlots[id] = s.KeySlots[src].CloneVT()

			return fmt.Sprintf("slot %q = copy of %q", id, src), []string{id}
		})
	}

	{
		id := newID()

		mut("add-attacker-blob", "add", func(s *key_storage.Storage) (string, []string) {
			s.KeySlots[id] = &key_storage.KeySlot{Algorithm: key_storage.Algorithm_PGP_AES_GCM_256, EncryptedKey: []byte(attackerBlob)}

			return fmt.Sprintf("slot %q encrypted to the attacker's key", id), []string{id}
		})

		id2 := newID()

		mut("add-empty-blob", "add-empty", func(s *key_storage.Storage) (string, []string) {
			s.KeySlots[id2] = &key_storage.KeySlot{Algorithm: key_storage.Algorithm_PGP_AES_GCM_256}

			return fmt.Sprintf("slot %q with an empty blob", id2), []string{id2}
		})

		id3 := newID()
		out = append(out, variant{
			Name: "add-entry-without-value", Class: "add-nil", Note: fmt.Sprintf("map entry %q without a value appended to the serialized form", id3),
			Data: append(append([]byte{}, st.raw...), mapEntry(id3, nil)...), ExtraIDs: []string{id3},
		})
	}

	// --- slot removed ------------------------------------------------------------------------------------------------------
	for _, id := range st.ids {
		mut("remove-slot", "remove", func(s *key_storage.Storage) (string, []string) {
			delete(s.KeySlots, id)

			return fmt.Sprintf("slot %q removed (of %d)", id, len(st.ids)), nil
		})
	}

	// --- slot renamed ------------------------------------------------------------------------------------------------------
	for _, id := range st.ids {
		others := without(st.ids, id)

		var pres, reord []string

		for _, t := range append(append([]string{}, unused...), "") {
			if rank(t, others) == rank(id, others) {
				pres = append(pres, t)
			} else {
				reord = append(reord, t)
			}
		}

		if st.deleted != "" {
			if rank(st.deleted, others) == rank(id, others) {
				pres = append(pres, st.deleted)
			} else {
				reord = append(reord, st.deleted)
			}
		}

		ren := func(class string, to string) {
			mut("rename-slot", class, func(s *key_storage.Storage) (string, []string) {
				s.KeySlots[to] = s.KeySlots[id]
				delete(s.KeySlots, id)

				return fmt.Sprintf("slot %q renamed to %q (others %q)", id, to, others), []string{to}
			})
		}

		if len(pres) > 0 {
			ren("rename-preserved", pick(rng, pres))
			cn["renames_order_preserved"]++
			cn["renames_checked"]++
		}

		if len(reord) > 0 {
			ren("rename-reordered", pick(rng, reord))
			cn["renames_order_changed"]++
			cn["renames_checked"]++
		}
	}

	// --- integrity tag -----------------------------------------------------------------------------------------------------
	tag := st.base.KeysHmacHash

	tagMut := func(name string, f func(b []byte) []byte) {
		mut("hmac-"+name, "hmac", func(s *key_storage.Storage) (string, []string) {
			s.KeysHmacHash = f(append([]byte{}, tag...))

			return fmt.Sprintf("%x -> %x", tag, s.KeysHmacHash), nil
		})
	}

	tagMut("flip-first", func(b []byte) []byte { return flipAt(b, 0, mask()) })
	tagMut("flip-last", func(b []byte) []byte { return flipAt(b, len(b)-1, mask()) })
	tagMut("flip-random-bit", func(b []byte) []byte { return flipAt(b, rng.IntN(len(b)), 1<<rng.IntN(8)) })
	tagMut("truncate-1", func(b []byte) []byte { return b[:len(b)-1] })
	tagMut("truncate-to-1", func(b []byte) []byte { return b[:1] })
	tagMut("empty", func(b []byte) []byte { return nil })
	tagMut("extend", func(b []byte) []byte { return append(b, byte(rng.UintN(256))) })
	tagMut("random", func(b []byte) []byte { return randBytes(rng, 32) })
	tagMut("recomputed-under-other-key", func(b []byte) []byte {
		h := hmac.New(sha256.New, fake)

		for _, id := range st.ids {
			h.Write(st.base.KeySlots[id].EncryptedKey)
		}

		return h.Sum(nil)
	})
	tagMut("plain-sha256-of-blobs", func(b []byte) []byte {
		h := sha256.New()

		for _, id := range st.ids {
			h.Write(st.base.KeySlots[id].EncryptedKey)
		}

		return h.Sum(nil)
	})

	// --- informational: version, algorithm, benign duplicates -------------------------------------------------------------------
	for _, v := range []key_storage.StorageVersion{0, 2, 127} {
		mut("version-change", "version", func(s *key_storage.Storage) (string, []string) {
			s.StorageVersion = v

			return fmt.Sprintf("storage version 1 -> %d", v), nil
		})
	}

	for _, id := range st.ids {
		alg := pick(rng, []key_storage.Algorithm{0, 2, 77})

		mut("algorithm-change", "algorithm", func(s *key_storage.Storage) (string, []string) {
			s.KeySlots[id].Algorithm = alg

			return fmt.Sprintf("algorithm of %q 1 -> %d", id, alg), nil
		})
	}

	out = append(out,
		variant{
			Name: "duplicate-entry-identical", Class: "benign", Note: fmt.Sprintf("map entry %q repeated verbatim", target),
			Data: append(append([]byte{}, st.raw...), mapEntry(target, st.base.KeySlots[target])...),
		},
		variant{
			Name: "duplicate-entry-garbage-first", Class: "benign", Note: fmt.Sprintf("a garbage map entry for %q placed before the genuine one (last one wins)", target),
			Data: append(mapEntry(target, &key_storage.KeySlot{Algorithm: 1, EncryptedKey: randBytes(rng, 40)}), st.raw...),
		})

	// --- beyond single-field: bytes moved across the boundary of sorted-adjacent blobs (their concatenation is unchanged) ---
	for i := 0; i+1 < len(st.ids); i++ {
		x, y := st.ids[i], st.ids[i+1]
		bx, by := st.base.KeySlots[x].EncryptedKey, st.base.KeySlots[y].EncryptedKey

		shift := func(name string, nx, ny []byte, removeY bool) {
			mut("shift-"+name, "shift", func(s *key_storage.Storage) (string, []string) {
				s.KeySlots[x].EncryptedKey = nx

				if removeY {
					delete(s.KeySlots, y)
				} else {
					s.KeySlots[y].EncryptedKey = ny
				}

				return fmt.Sprintf("adjacent slots %q (%d->%d bytes) and %q (%d->%d bytes, removed=%v)", x, len(bx), len(nx), y, len(by), len(ny), removeY), nil
			})
		}

		cat := func(a, b []byte) []byte { return append(append([]byte{}, a...), b...) }
		k1, k2 := 1+rng.IntN(len(by)-1), 1+rng.IntN(len(bx)-1)

		shift("head-of-next-to-tail-1", cat(bx, by[:1]), by[1:], false)
		shift("head-of-next-to-tail-random", cat(bx, by[:k1]), by[k1:], false)
		shift("whole-next-into-previous", cat(bx, by), nil, false)
		shift("whole-next-into-previous-and-remove", cat(bx, by), nil, true)
		shift("tail-to-head-of-next-1", bx[:len(bx)-1], cat(bx[len(bx)-1:], by), false)
		shift("tail-to-head-of-next-random", bx[:len(bx)-k2], cat(bx[len(bx)-k2:], by), false)
		shift("whole-previous-into-next", nil, cat(bx, by), false)
	}

	// --- raw single-byte flips of the serialized bytes, classified by decoding ------------------------------------------------
	inBlob := make([]bool, len(st.raw))

	for _, id := range st.ids {
		if pos := bytes.Index(st.raw, st.base.KeySlots[id].EncryptedKey); pos >= 0 {
			for i := pos; i < pos+len(st.base.KeySlots[id].EncryptedKey); i++ {
				inBlob[i] = true
			}
		}
	}

	var structural []int

	for i, b := range inBlob {
		if !b {
			structural = append(structural, i)
		}
	}

	for i := 0; i < 14; i++ {
		pos := rng.IntN(len(st.raw))
		where := "anywhere"

		if i >= 4 && len(structural) > 0 {
			pos = pick(rng, structural)
			where = "outside the blobs"
		}

		m := mask()
		if rng.IntN(2) == 0 {
			m = 1 << rng.IntN(8)
		}

		out = append(out, variant{Name: "raw-flip", Class: "raw", Note: fmt.Sprintf("serialized byte %d of %d (%s) xor %#02x", pos, len(st.raw), where, m), Data: flipAt(st.raw, pos, m)})
	}

	return out
}

func corruptionState(c *vk.C, p *pool, rng *rand.Rand, k int, cn counters, submit func(func())) {
	st := buildState(c, p, rng, k)
	if st == nil {
		return
	}

	cn["corruption_states"]++
	cn[fmt.Sprintf("corruption_states_%d_slots", len(st.ids))]++

	// credentials probed against every id: the keys of the live slots, one other pool key, empty, non-key and the attacker's key
	var creds []cred

	used := map[int]bool{}
	for _, idx := range st.slots {
		used[idx] = true
	}

	other := rng.IntN(poolSize)
	for used[other] && len(used) < poolSize {
		other = (other + 1) % poolSize
	}

	used[other] = true

	for _, cr := range p.creds(true) {
		if cr.Idx < 0 || used[cr.Idx] {
			creds = append(creds, cr)
		}
	}

	opRng := func(i int) *rand.Rand {
		return rand.New(rand.NewPCG(uint64(c.Seed), uint64(20_000_000+k)*4096+uint64(i)))
	}

	// the unaltered serialized form must behave: every live slot recovers the master key, also after an AddKeySlot / DeleteKeySlot
	// on the freshly loaded storage and one more round trip (this is also the control of the pre-retrieval operation itself)
	base := variant{Name: "baseline", Class: "baseline", Data: st.raw}

	if !evalVariant(c, p, st, creds, base, cn, nil) || !evalVariant(c, p, st, creds, base, cn, opRng(4000)) || !evalVariant(c, p, st, creds, base, cn, opRng(4001)) {
		return
	}

	variants := buildVariants(p, rng, st, cn)

	var names []string

	for _, v := range variants {
		names = append(names, v.Name)
	}

	const chunk = 12

	for lo := 0; lo < len(variants); lo += chunk {
		hi := min(lo+chunk, len(variants))

		submit(func() {
			cn := counters{}
			defer cn.flush(c)

			for i := lo; i < hi; i++ {
				v := variants[i]

				evalVariant(c, p, st, creds, v, cn, nil)
				c.Case(vk.Hash("corruption", k, i, v.Name, v.Note), true)

				// seeded subset: AddKeySlot / DeleteKeySlot with valid credentials on the freshly loaded altered storage BEFORE any retrieval
				if r := opRng(i); r.IntN(3) == 0 {
					evalVariant(c, p, st, creds, v, cn, r)
					c.Case(vk.Hash("corruption-then-op", k, i, v.Name, v.Note), true)
				}
			}
		})
	}

	if k == 0 {
		c.Sample(map[string]any{"mode": "corruption", "state": k, "history": st.history, "live": st.slots, "variants": names})
	}
}

// classes whose alteration leaves the input of the integrity tag unchanged: an AddKeySlot / DeleteKeySlot accepted on such a storage is the
// same witness as the undetected retrieval and keeps the signature of the class.
var tagInvisible = map[string]bool{"rename-preserved": true, "add-empty": true, "shift": true}

type preOp struct {
	Kind     string `json:"kind"` // add | delete | add-via-injected-slot
	NewID    string `json:"new_id,omitempty"`
	NewKey   string `json:"new_key,omitempty"`
	AuthID   string `json:"slot_id"`
	AuthCred string `json:"slot_cred"`
	Intact   bool   `json:"authenticating_slot_untouched"`
	OK       bool   `json:"accepted"`
	Err      string `json:"err,omitempty"`

	newKeyIdx int
	authPriv  string
}

// evalVariant loads the altered bytes into a fresh KeyStorage and probes it; with opRng != nil one AddKeySlot / DeleteKeySlot with valid
// credentials is performed on the freshly loaded storage before the first retrieval, and the retrieval matrix is repeated after one more
// MarshalBinary -> UnmarshalBinary round trip. Returns false if a violation was reported.
func evalVariant(c *vk.C, p *pool, st *corrState, creds []cred, v variant, cn counters, opRng *rand.Rand) bool {
	class, note := v.Class, v.Note

	var decoded key_storage.Storage

	decErr := decoded.UnmarshalVT(v.Data)

	if class == "raw" {
		switch {
		case decErr != nil:
			class = "raw-undecodable"
		default:
			var cnote string

			class, cnote = classify(st.base, &decoded)
			note += "; decoded difference: " + cnote
		}

		if opRng == nil {
			cn["corr_raw_flips"]++

			if decErr == nil {
				cn["corr_raw_as_"+class]++
			}
		}
	}

	if class != "baseline" && opRng == nil {
		cn["corruptions_checked"]++
		cn["corr_"+class]++
	}

	var op *preOp

	phase := "after-load"

	detailBase := func() map[string]any {
		d := map[string]any{
			"mode": "corruption", "state": st.k, "history": st.history, "live": st.slots, "deleted_through_api": st.deleted, "master_hex": hex.EncodeToString(st.master),
			"variant": v.Name, "class": class, "note": note, "original_b64": base64.StdEncoding.EncodeToString(st.raw), "altered_b64": base64.StdEncoding.EncodeToString(v.Data),
			"original": describeStorage(st.base), "altered": describeStorage(&decoded), "phase": phase,
		}

		if op != nil {
			d["operation_before_first_retrieval"] = *op
		}

		return d
	}

	ks := &keystorage.KeyStorage{}

	loadErr, pn, stk := callErr(func() error { return ks.UnmarshalBinary(v.Data) })
	if pn != nil {
		d := detailBase()
		d["call"], d["panic"], d["stack"] = "UnmarshalBinary", fmt.Sprint(pn), stk
		c.Violation(sigPanic, d)

		return false
	}

	if loadErr != nil {
		if opRng == nil {
			cn["corr_"+class+"_detected_at_unmarshal"]++
		}

		if class == "baseline" {
			d := detailBase()
			d["err"] = errStr(loadErr)
			c.Violation(sigLiveLost, d)

			return false
		}
	}

	idSet := map[string]bool{"never-added": true, "": true}

	for _, id := range st.ids {
		idSet[id] = true
	}

	for id := range decoded.GetKeySlots() {
		idSet[id] = true
	}

	for _, id := range v.ExtraIDs {
		idSet[id] = true
	}

	if st.deleted != "" {
		idSet[st.deleted] = true
	}

	strictSig := classSig[class]

	// pairings that are live: the original ones, changed only by an operation accepted on an unaltered / informational-class storage
	liveMap := map[string]int{}
	for id, idx := range st.slots {
		liveMap[id] = idx
	}

	deletedNow := ""
	violated := false

	// ---- the operation before the first retrieval ------------------------------------------------------------------------
	if opRng != nil {
		var intact []string

		for _, id := range st.ids {
			if decErr != nil {
				intact = append(intact, id)

				continue
			}

			if s := decoded.GetKeySlots()[id]; s != nil && s.Algorithm == st.base.KeySlots[id].Algorithm && bytes.Equal(s.EncryptedKey, st.base.KeySlots[id].EncryptedKey) {
				intact = append(intact, id)
			}
		}

		authPool := intact
		if len(authPool) == 0 || opRng.IntN(6) == 0 {
			authPool = st.ids
		}

		auth := pick(opRng, authPool)
		op = &preOp{Kind: "add", AuthID: auth, AuthCred: fmt.Sprintf("k%d", st.slots[auth]), authPriv: p.keys[st.slots[auth]].Priv}

		for _, id := range intact {
			if id == auth {
				op.Intact = true
			}
		}

		slotsNow := len(st.ids)
		if decErr == nil {
			slotsNow = len(decoded.GetKeySlots())
		}

		switch {
		case slotsNow >= 2 && opRng.IntN(2) == 0:
			op.Kind = "delete"
		case v.Name == "add-attacker-blob" && len(v.ExtraIDs) > 0 && opRng.IntN(2) == 0:
			// the injected slot authenticates the operation with the key it was encrypted for
			op.Kind, op.AuthID, op.AuthCred, op.authPriv, op.Intact = "add-via-injected-slot", v.ExtraIDs[0], "attacker", p.attacker.Priv, false
		}

		if op.Kind != "delete" {
			var free, keys []string

			keyIdx := map[string]int{}

			for _, id := range universe2 {
				if !idSet[id] {
					free = append(free, id)
				}
			}

			for _, cr := range creds {
				if cr.Idx >= 0 {
					keys = append(keys, cr.Name)
					keyIdx[cr.Name] = cr.Idx
				}
			}

			op.NewID, op.NewKey = pick(opRng, free), pick(opRng, keys)
			op.newKeyIdx = keyIdx[op.NewKey]
			idSet[op.NewID] = true
		}

		err, pn, stk := callErr(func() error {
			if op.Kind == "delete" {
				return ks.DeleteKeySlot(op.AuthID, op.authPriv)
			}

			return ks.AddKeySlot(op.NewID, p.keys[op.newKeyIdx].Pub, op.AuthID, op.authPriv)
		})

		op.OK, op.Err = err == nil && pn == nil, errStr(err)

		if pn != nil {
			d := detailBase()
			d["call"], d["panic"], d["stack"] = op.Kind, fmt.Sprint(pn), stk
			c.Violation(sigPanic, d)

			return false
		}

		kind := "add"
		if op.Kind == "delete" {
			kind = "delete"
		}

		if class == "baseline" {
			if err != nil {
				d := detailBase()
				d["note"] = "control: a valid AddKeySlot / DeleteKeySlot on the unaltered, freshly loaded storage was refused"
				c.Violation("valid-operation-refused-in-setup", d)

				return false
			}

			cn["corr_then_"+kind+"_control_ok"]++
		} else {
			cn["corr_then_"+kind+"_checked"]++
			cn["corr_then_op_"+class]++

			if op.Intact {
				cn["corr_then_op_with_untouched_authenticating_slot"]++
			}
		}

		accept := func() { // the accepted operation is taken into the expectation of the retrievals
			if op.Kind == "delete" {
				delete(liveMap, op.AuthID)
				deletedNow = op.AuthID
			} else {
				liveMap[op.NewID] = op.newKeyIdx
			}
		}

		switch {
		case err != nil:
			cn["corr_then_op_refused"]++
			cn["corr_then_op_refused_by_"+errTag(err)]++
		case class == "baseline" || loadErr != nil || (strictSig == "" && !tagInvisible[class]):
			// unaltered or informational class
			if class != "baseline" {
				cn["corr_then_op_accepted_info_"+class]++
			}

			accept()
		default:
			d := detailBase()
			d["effect"] = "AddKeySlot / DeleteKeySlot retrieved the master key from the altered storage without detecting the alteration, changed the slot set and re-signed it"

			if tagInvisible[class] { // same witness as the undetected retrieval of this class: reported under its signature, once
				if c.Violation(strictSig, d) {
					return false
				}

				cn["known_"+strictSig]++

				return true
			}

			// reported, and the retrieval oracle below still applies unchanged: every originally-live retrieval must fail, nothing injected may recover the key
			if c.Violation(sigTamperOp, d) {
				violated = true
			} else {
				cn["known_"+sigTamperOp]++
			}

			accept()
		}
	}

	// ---- the retrieval matrix -------------------------------------------------------------------------------------------------
	undetected := 0

	// probe returns (stop, result): stop = a violation or known finding was reported for this variant
	probe := func(ks *keystorage.KeyStorage, lerr error) (bool, bool) {
		for _, id := range sortedKeys(idSet) {
			keyIdx, live := liveMap[id]
			_, origLive := st.slots[id]

			for _, cr := range creds {
				r := get(ks, id, cr.Priv)
				cn["corr_retrievals"]++

				livePair := live && cr.Idx == keyIdx

				d := func() map[string]any {
					d := detailBase()
					d["probe_id"], d["probe_cred"], d["probe_private_key"], d["live_pair"] = id, cr.Name, cr.Priv, livePair
					d["err"], d["got_key_hex"], d["load_err"] = errStr(r.Err), hex.EncodeToString(r.Key), errStr(lerr)

					if r.Err == nil && r.Panic == nil {
						d["effect"] = "a pairing that was never live recovered the master key from the altered storage"
						if livePair {
							d["effect"] = "retrieval through a live slot succeeded on the altered storage (alteration not detected)"
						}
					}

					return d
				}

				if r.Panic != nil {
					dd := d()
					dd["call"], dd["panic"], dd["stack"] = "GetMasterKey", fmt.Sprint(r.Panic), r.Stack

					sig := sigPanic
					if class == "add-nil" { // the decoded storage holds a map entry whose value is nil
						sig = sigPanicNilSlot
					}

					if c.Violation(sig, dd) {
						return true, false
					}

					cn["known_"+sig]++

					return true, true
				}

				if livePair {
					cn["corr_live_retrievals_checked"]++
				}

				if r.Err != nil {
					if class == "baseline" && livePair {
						c.Violation(sigLiveLost, d())

						return true, false
					}

					if livePair && opRng == nil {
						cn["corr_detected_by_"+errTag(r.Err)]++
					}

					continue
				}

				// a key came back
				switch {
				case !bytes.Equal(r.Key, st.master):
					c.Violation(sigWrongKey, d())

					return true, false
				case livePair:
					if class == "baseline" {
						continue
					}

					undetected++

					switch {
					case lerr != nil:
						cn["corr_"+class+"_retrieval_ok_after_failed_unmarshal_info"]++
					case strictSig == "":
						cn["corr_"+class+"_undetected_info"]++
					default:
						if c.Violation(strictSig, d()) {
							return true, false
						}

						cn["known_"+strictSig]++

						return true, true // known finding: one report per variant
					}
				default:
					sig := sigNeverAdded

					switch {
					case class == "rename-preserved":
						sig = sigRenameKnown
					case class == "shift":
						sig = sigShift
					case origLive && live:
						sig = sigWrongPriv
					case id == st.deleted || id == deletedNow:
						sig = sigDeleted
					}

					cn["nonlive_pair_recovered_key_"+class]++

					if c.Violation(sig, d()) {
						return true, false
					}

					cn["known_"+sig]++

					return true, true
				}
			}
		}

		return false, true
	}

	if stop, res := probe(ks, loadErr); stop {
		return res && !violated
	}

	if opRng != nil {
		// one more round trip: nothing that was undetectable before may become retrievable after re-serialization
		phase = "after-operation-and-round-trip"

		var fresh *keystorage.KeyStorage

		rtErr, pn, stk := callErr(func() error {
			data, merr := ks.MarshalBinary()
			if merr != nil {
				return fmt.Errorf("marshal: %w", merr)
			}

			fresh = &keystorage.KeyStorage{}

			return fresh.UnmarshalBinary(data)
		})
		if pn != nil {
			d := detailBase()
			d["call"], d["panic"], d["stack"] = "MarshalBinary/UnmarshalBinary", fmt.Sprint(pn), stk
			c.Violation(sigPanic, d)

			return false
		}

		if fresh != nil {
			if rtErr != nil {
				if class == "baseline" {
					d := detailBase()
					d["err"] = errStr(rtErr)
					c.Violation(sigLiveLost, d)

					return false
				}

				cn["corr_then_roundtrip_refused"]++
			}

			lerr := loadErr
			if lerr == nil {
				lerr = rtErr
			}

			cn["corr_then_roundtrip_matrices"]++

			if stop, res := probe(fresh, lerr); stop {
				return res && !violated
			}
		}
	}

	if class != "baseline" && undetected == 0 && opRng == nil {
		cn["corr_"+class+"_detected"]++
	}

	return !violated
}

func hexClip(b []byte) string {
	if len(b) > 96 {
		return hex.EncodeToString(b[:96]) + "..."
	}

	return hex.EncodeToString(b)
}
