//go:build verif

package c06

import "verif/harness/gp"

type gctlKey = gp.Key
