//go:build verif

// C06: generic transform controllers converge to the mapped image of their inputs.
package c06

import (
	"math/rand/v2"
	"sync"
	"testing"
	"testing/synctest"

	"verif/harness/gctl"
	"verif/harness/vk"
)

func TestC06(t *testing.T) {
	vk.Run(t, "C06", "exploration", func(c *vk.C) {
		c.Rule("seeded scenarios: transform.Controller (plain / input finalizers / ignore-tearing-down) and qtransform.QController (concurrency 1-3; WithIgnoreTeardownWhile as a secondary " +
			"configuration), optionally cleanup.Controller (RemoveOutputs / HasNoOutputs / Combine) and destroy.Controller, in the real runtime over the gate proxy; 1-3 external actors create, " +
			"update, tear down, destroy and re-create 3 inputs, put/remove foreign finalizers on outputs and children, at seeded virtual times relative to transform durations (0-7 ms) and " +
			"transient transform failures; judged at quiescence with foreign finalizers as left (stage 1) and after removing them (stage 2), then every torn-down input is destroyed. " +
			"distinct = (options, actor trace) hash; non-trivial = >= 1 input was re-created, >= 1 output was held by a foreign finalizer at stage 1 and >= 1 transform ran")
		c.Assume("external actors never remove a controller's finalizer and never tear down controller-owned outputs; liveness is judged 45 virtual minutes after the last action with nothing runnable")
		c.Require("scenarios_with_recreated_input", "outputs_held_at_stage1", "transforms", "scenarios_with_transient_failures", "qtransform_scenarios", "transform_scenarios", "final_destroys_checked")

		n := c.N(3000, 100000)

		var wg sync.WaitGroup

		sem := make(chan struct{}, 16)

		for k := 0; k < n; k++ {
			wg.Add(1)
			sem <- struct{}{}

			go func() {
				defer wg.Done()
				defer func() { <-sem }()

				rng := rand.New(rand.NewPCG(uint64(c.Seed), uint64(k)))
				opts := gctl.GenOpts(rng, k)

				var o *gctl.Outcome

				synctest.Test(t, func(*testing.T) { o = gctl.Run(rng, opts) })

				creates := map[string]int{}
				held := 0

				for _, cm := range o.Log {
					if cm.Op == "create" && cm.Key.Type[:1] == "A" {
						creates[cm.Key.ID]++
					}
				}

				recreated := false

				for _, n := range creates {
					if n > 1 {
						recreated = true
					}
				}

				for key, v := range o.Stage1 {
					if key.Type[:1] != "A" && key.Type[:1] != "D" && v.TearingDown() && len(v.Fins) > 0 {
						held++
					}
				}

				if recreated {
					c.Count("scenarios_with_recreated_input", 1)
				}

				c.Count("outputs_held_at_stage1", held)
				c.Count("transforms", int(o.Transforms))
				c.Count("commits", len(o.Log))
				c.Count("final_destroys_checked", 1)

				if opts.FailFirst > 0 {
					c.Count("scenarios_with_transient_failures", 1)
				}

				if opts.QT {
					c.Count("qtransform_scenarios", 1)
				}

				if opts.T != "" {
					c.Count("transform_scenarios", 1)
				}

				if opts.QTIgnoreWhile {
					c.Count("secondary_config_scenarios", 1)
				}

				if opts.PostponeRemoval {
					c.Count("scenarios_with_postponed_finalizer_removal", 1)
				}

				c.Case(vk.Hash(opts, o.Trace), recreated && held > 0 && o.Transforms > 0)

				if k < 2 {
					c.Sample(map[string]any{"opts": opts, "actions": head(o.Trace, 20), "commits": len(o.Log)})
				}

				for _, p := range gctl.CheckC06(o) {
					c.Violation(p.Sig, map[string]any{"scenario": k, "opts": opts, "problem": p, "trace": o.Trace, "stage1": flat(o.Stage1), "stage2": flat(o.Stage2), "log": o.Log})
				}
			}()
		}

		wg.Wait()
	})
}

func flat[V any](m map[gctlKey]V) map[string]V {
	out := map[string]V{}
	for k, v := range m {
		out[k.String()] = v
	}

	return out
}

func head[T any](s []T, n int) []T {
	if len(s) > n {
		return s[:n]
	}

	return s
}
