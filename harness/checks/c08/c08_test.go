//go:build verif

// C08: controllers are confined to declared inputs/outputs and resources they own.
package c08

import (
	"context"
	"fmt"
	"math/rand/v2"
	"slices"
	"sync"
	"sync/atomic"
	"testing"
	"testing/synctest"
	"time"

	"github.com/siderolabs/gen/optional"

	"github.com/cosi-project/runtime/pkg/controller"
	"github.com/cosi-project/runtime/pkg/resource"
	"github.com/cosi-project/runtime/pkg/state"

	"verif/harness/gp"
	"verif/harness/res"
	"verif/harness/rtp"
	"verif/harness/vk"
)

var (
	nss   = []string{"n1", "n2"}
	types = []string{res.TypeA, res.TypeB, res.TypeC}
	ids   = []string{"x", "y"}
)

func TestC08(t *testing.T) {
	vk.Run(t, "C08", "exploration", func(c *vk.C) {
		c.Rule("deny-matrix through the real runtime API: per scenario one declaration set (inputs of all six kinds by kind / by id, exclusive/shared outputs, both controller flavours, cached or " +
			"uncached kinds) over a universe of 2 namespaces x 3 types x 2 ids whose resources are pre-populated with owner in {self, other, nobody} x {running, tearing-down} x {+-finalizer} or absent; " +
			"the probe controller executes 60 seeded operations out of {Get, List, GetUncached, ListUncached, ContextWithTeardown, Create(+-NoOwner), Update, Modify(+-NoOwner, phase options), " +
			"Teardown(+-WithOwner), Destroy(+-WithOwner), AddFinalizer, RemoveFinalizer} on random targets; each result is compared with a reference policy written from the statement and the " +
			"whole-store snapshot before/after. distinct = (flavour, declaration, op, target, pre-state class, verdict) cell; non-trivial = every cell (each cell is a distinct policy decision)")
		c.Assume("WithCreateNoOwner / WithModifyNoOwner / WithOwner are explicit opt-outs and are modelled as such; Teardown of an already tearing-down resource is a read-only success")
		c.Require("ops_denied_by_policy", "ops_allowed_success", "ops_allowed_failed_by_store", "owner_conflicts_checked", "q_flavour_ops", "cached_kind_ops", "explicit_owner_ops", "ops_after_input_update")

		n := c.N(1500, 100000)

		var wg sync.WaitGroup

		sem := make(chan struct{}, 16)

		for k := 0; k < n; k++ {
			wg.Add(1)
			sem <- struct{}{}

			go func() {
				defer wg.Done()
				defer func() { <-sem }()

				rng := rand.New(rand.NewPCG(uint64(c.Seed), uint64(k)))
				synctest.Test(t, func(*testing.T) { scenario(c, rng, k) })
			}()
		}

		wg.Wait()
	})
}

type opRec struct {
	Own      []string `json:"own,omitempty"`              // cleanup: resources of the kind that the controller owned before the call
	Claim    bool     `json:"claims_ownership,omitempty"` // the submitted object / the mutator names the controller itself as owner
	Op       string   `json:"op"`
	Target   gp.Key   `json:"target"`
	Opt      string   `json:"opt,omitempty"`
	Err      string   `json:"err,omitempty"`
	Pre      *gp.Snap `json:"pre,omitempty"`
	Post     *gp.Snap `json:"post,omitempty"`
	Changed  []string `json:"changed_keys,omitempty"`
	Val      *gp.Snap `json:"val,omitempty"`
	NotFound bool     `json:"not_found,omitempty"`
	Ready    *bool    `json:"ready,omitempty"`
}

const self = "P"

func scenario(c *vk.C, rng *rand.Rand, k int) {
	q := rng.IntN(2) == 0

	// declaration
	var (
		inputs  []controller.Input
		outputs []controller.Output
	)

	usedKey := map[string]bool{}
	primary := rtp.Kind{NS: nss[rng.IntN(2)], Type: types[rng.IntN(3)]}

	if q {
		inputs = append(inputs, controller.Input{Namespace: primary.NS, Type: primary.Type, Kind: controller.InputQPrimary})
		usedKey[primary.NS+primary.Type] = true
	}

	for j := rng.IntN(4); j > 0; j-- {
		in := controller.Input{Namespace: nss[rng.IntN(2)], Type: types[rng.IntN(3)]}

		if q {
			in.Kind = []controller.InputKind{controller.InputQMapped, controller.InputQMappedDestroyReady}[rng.IntN(2)]
		} else {
			in.Kind = []controller.InputKind{controller.InputWeak, controller.InputStrong, controller.InputDestroyReady}[rng.IntN(3)]
		}

		key := in.Namespace + in.Type

		if !q && rng.IntN(2) == 0 {
			in.ID = optional.Some(ids[rng.IntN(2)])
			key += "/" + in.ID.ValueOrZero()
		}

		if usedKey[key] {
			continue
		}

		usedKey[key] = true

		inputs = append(inputs, in)
	}

	outSeen := map[string]bool{}

	for j := rng.IntN(3); j > 0; j-- {
		t := types[rng.IntN(3)]
		if !outSeen[t] {
			outSeen[t] = true
			outputs = append(outputs, controller.Output{Type: t, Kind: controller.OutputKind(rng.IntN(2))})
		}
	}

	cfg := rtp.Cfg{MaxDelay: 0}

	for _, ns := range nss {
		for _, t := range types {
			if rng.IntN(3) == 0 {
				cfg.Cached = append(cfg.Cached, rtp.Kind{NS: ns, Type: t})
			}
		}
	}

	var (
		w    *rtp.World
		recs []opRec
		done = make(chan struct{})
		once sync.Once
	)

	nOps := 60
	orng := rand.New(rand.NewPCG(rng.Uint64(), 99))

	// the plain Controller flavour re-declares its inputs half-way through (same keys with other kinds, or a changed key set)
	var (
		inputs2           []controller.Input
		readsDuringUpdate atomic.Int64
		recs2             []opRec
		updateErr         error
	)

	script := func(ctx context.Context, r controller.QRuntime) {
		once.Do(func() {
			defer close(done)

			for i := 0; i < nOps; i++ {
				recs = append(recs, doOp(ctx, w, r, orng))
			}

			full, ok := r.(controller.Runtime)
			if !ok || len(inputs) == 0 {
				return
			}

			inputs2 = slices.Clone(inputs)
			kinds := []controller.InputKind{controller.InputWeak, controller.InputStrong, controller.InputDestroyReady}

			for i := range inputs2 {
				inputs2[i].Kind = kinds[orng.IntN(3)]
			}

			if orng.IntN(2) == 0 && len(inputs2) > 1 {
				inputs2 = inputs2[:len(inputs2)-1] // also drop one
			}

			// ... and every other time an input on a kind nobody watches yet comes in, so that the runtime has to establish a watch in the
			// middle of the update: at that moment (inside the state's watch call, same goroutine) the controller reads one of its old
			// inputs. Whatever that read answers, the declaration in force once UpdateInputs has returned is the new one.
			if orng.IntN(2) == 0 {
				for _, ns := range nss {
					for _, t := range types {
						if !usedKey[ns+t] && !slices.ContainsFunc(inputs, func(in controller.Input) bool { return in.Namespace == ns && in.Type == t }) {
							inputs2 = append(inputs2, controller.Input{Namespace: ns, Type: t, Kind: kinds[orng.IntN(3)]})
							usedKey[ns+t] = true

							break
						}
					}

					if len(inputs2) > len(inputs) {
						break
					}
				}
			}

			old := inputs[orng.IntN(len(inputs))]
			oldKey := gp.Key{NS: old.Namespace, Type: old.Type, ID: old.ID.ValueOr(ids[orng.IntN(2)])}

			w.Px.HoldWatch = func(string, gp.Key) {
				_, _ = full.GetUncached(ctx, rtp.Ptr(oldKey))
				_ = full.AddFinalizer(ctx, rtp.Ptr(gp.Key{NS: oldKey.NS, Type: oldKey.Type, ID: "no-such-id"}), "pfin")

				readsDuringUpdate.Add(1)
			}

			updateErr = full.UpdateInputs(slices.Clone(inputs2))
			w.Px.HoldWatch = nil

			if updateErr != nil {
				return
			}

			for i := 0; i < nOps/2; i++ {
				recs2 = append(recs2, doOp(ctx, w, r, orng))
			}
		})
	}

	if q {
		cfg.QCtrls = []rtp.QCfg{{Name: self, Inputs: inputs, Outputs: outputs, Concurrency: 1,
			Script: func(ctx context.Context, r controller.QRuntime, _ resource.Pointer, _ int) { script(ctx, r) }}}
	} else {
		cfg.Ctrls = []rtp.CtrlCfg{{Name: self, Inputs: inputs, Outputs: outputs, LateAt: -1,
			Script: func(ctx context.Context, r controller.Runtime, _ int) { script(ctx, r) }}}
	}

	var err error

	w, err = rtp.NewWorld(rng, cfg)
	if err != nil {
		c.Violation("world-setup-failed", err.Error())

		return
	}

	if e := w.RegErrs[self]; e != nil {
		c.Violation("valid-registration-rejected", map[string]any{"err": e.Error(), "inputs": fmt.Sprint(inputs), "outputs": fmt.Sprint(outputs)})

		return
	}

	ctx, cancel := context.WithCancel(context.Background())
	defer func() {
		cancel()
		w.WaitRun()
		synctest.Wait()
	}()

	// pre-populate
	for _, ns := range nss {
		for _, t := range types {
			for _, id := range ids {
				if rng.IntN(4) == 0 && !(q && ns == primary.NS && t == primary.Type && id == "x") {
					continue
				}

				r := res.New(ns, t, id)
				res.SpecOf(r).Token = "init"

				if rng.IntN(3) == 0 {
					r.Metadata().Finalizers().Add("held")
				}

				owner := []string{self, "other", ""}[rng.IntN(3)]

				if err := w.St.Create(ctx, r, state.WithCreateOwner(owner)); err != nil {
					c.Violation("prepopulate-failed", err.Error())

					return
				}

				if rng.IntN(3) == 0 {
					if _, err := w.St.Teardown(ctx, r.Metadata(), state.WithTeardownOwner(owner)); err != nil {
						c.Violation("prepopulate-failed", err.Error())

						return
					}
				}
			}
		}
	}

	w.Run(ctx)

	select {
	case <-done:
	case <-time.After(time.Hour):
		c.Inconclusive("C08: the probe script did not run (controller never woke)")

		return
	}

	isCached := func(kd rtp.Kind) bool { return slices.Contains(cfg.Cached, kd) }

	for i, rec := range recs {
		verdict, detail := judge(rec, inputs, outputs)
		kd := rtp.Kind{NS: rec.Target.NS, Type: rec.Target.Type}

		class := "absent"
		if rec.Pre != nil {
			class = fmt.Sprintf("owner=%s,%s,fins=%d", ownerClass(rec.Pre.Owner), rec.Pre.Phase, len(rec.Pre.Fins))
		}

		c.Case(vk.Hash(q, declString(inputs, outputs), rec.Op, rec.Opt, rec.Target, class, verdict), true)

		switch verdict {
		case "denied-ok":
			c.Count("ops_denied_by_policy", 1)
		case "allowed-success-ok":
			c.Count("ops_allowed_success", 1)
		case "allowed-failed-ok":
			c.Count("ops_allowed_failed_by_store", 1)
		}

		if rec.Pre != nil && rec.Pre.Owner != self && rec.Pre.Owner != "" {
			c.Count("owner_conflicts_checked", 1)
		}

		if q {
			c.Count("q_flavour_ops", 1)
		}

		if rec.Op == "cleanup" {
			c.Count("output_tracker_cleanups", 1)
		}

		if isCached(kd) {
			c.Count("cached_kind_ops", 1)
		}

		if rec.Opt == "owner:other" || rec.Opt == "owner:" || rec.Opt == "noowner" {
			c.Count("explicit_owner_ops", 1)
		}

		if detail != "" {
			c.Violation(verdict, map[string]any{"scenario": k, "q_flavour": q, "op_index": i, "op": rec, "why": detail, "inputs": declString(inputs, nil), "outputs": declString(nil, outputs)})
		}
	}

	c.Count("reads_in_the_middle_of_an_input_update", int(readsDuringUpdate.Load()))

	if updateErr != nil {
		c.Violation("valid-input-update-rejected", map[string]any{"err": updateErr.Error(), "from": declString(inputs, nil), "to": declString(inputs2, nil)})
	}

	for i, rec := range recs2 {
		verdict, detail := judge(rec, inputs2, outputs)

		c.Case(vk.Hash("after-update", declString(inputs2, outputs), rec.Op, rec.Opt, rec.Target, rec.Pre != nil, verdict), true)
		c.Count("ops_after_input_update", 1)

		if detail != "" {
			c.Violation(verdict, map[string]any{"scenario": k, "after_update_inputs": true, "op_index": i, "op": rec, "why": detail,
				"inputs_before": declString(inputs, nil), "inputs_now": declString(inputs2, nil), "outputs": declString(nil, outputs)})
		}
	}

	if k < 3 {
		c.Sample(map[string]any{"q_flavour": q, "declaration": declString(inputs, outputs), "cached": cfg.Cached, "first_ops": recs[:min(8, len(recs))]})
	}
}

func ownerClass(o string) string {
	switch o {
	case self:
		return "self"
	case "":
		return "nobody"
	}

	return "other"
}

func declString(inputs []controller.Input, outputs []controller.Output) string {
	s := ""

	for _, in := range inputs {
		s += fmt.Sprintf("in(%s/%s/%s k%d) ", in.Namespace, in.Type[:1], in.ID.ValueOr("*"), in.Kind)
	}

	for _, o := range outputs {
		s += fmt.Sprintf("out(%s k%d) ", o.Type[:1], o.Kind)
	}

	return s
}

// tracking remembers per probe whether output tracking is switched on (StartTrackingOutputs must not be called twice)
var (
	tracking   = map[controller.Runtime]bool{}
	trackingMu sync.Mutex
)

var opNames = []string{"get", "list", "getuncached", "listuncached", "ctxteardown", "create", "update", "modify", "teardown", "destroy", "addfin", "rmfin"}

func doOp(ctx context.Context, w *rtp.World, r controller.QRuntime, rng *rand.Rand) opRec {
	rec := opRec{Op: opNames[rng.IntN(len(opNames))], Target: gp.Key{NS: nss[rng.IntN(2)], Type: types[rng.IntN(3)], ID: ids[rng.IntN(2)]}}

	// the plain Controller flavour also has the output tracker: "destroy every output of this kind that I own and did not touch"
	full, isFull := r.(controller.Runtime)
	if isFull && rng.IntN(10) == 0 {
		rec.Op = "cleanup"
	}

	before := w.Px.ShadowAll()
	rec.Pre = before[rec.Target]
	ptr := rtp.Ptr(rec.Target)
	kind := resource.NewMetadata(rec.Target.NS, rec.Target.Type, "", resource.VersionUndefined)
	tok := w.NextTok()

	setErr := func(err error) {
		if err != nil {
			rec.Err = err.Error()
			rec.NotFound = state.IsNotFoundError(err)
		}
	}

	switch rec.Op {
	case "get", "getuncached":
		var (
			got resource.Resource
			err error
		)

		if rec.Op == "get" {
			got, err = r.Get(ctx, ptr)
		} else {
			got, err = r.GetUncached(ctx, ptr)
		}

		setErr(err)

		if err == nil {
			rec.Val = gp.SnapOf(got)
		}
	case "list", "listuncached":
		var err error

		if rec.Op == "list" {
			_, err = r.List(ctx, kind)
		} else {
			_, err = r.ListUncached(ctx, kind)
		}

		setErr(err)
	case "ctxteardown":
		_, err := r.ContextWithTeardown(ctx, ptr)
		setErr(err)
	case "create":
		nr := res.New(rec.Target.NS, rec.Target.Type, rec.Target.ID)
		res.SpecOf(nr).Token = tok

		var opts []controller.CreateOption

		if rng.IntN(3) == 0 {
			rec.Opt = "noowner"
			opts = append(opts, controller.WithCreateNoOwner())
		}

		setErr(r.Create(ctx, nr, opts...))
	case "update":
		var obj resource.Resource

		if cur, err := w.St.Get(ctx, ptr); err == nil {
			obj = cur

			if rng.IntN(3) == 0 {
				// a hand-built object for the same id: current version, but it names the controller itself as owner -
				// what decides is who owns the STORED resource
				rec.Claim = true
				obj = res.New(rec.Target.NS, rec.Target.Type, rec.Target.ID)
				obj.Metadata().SetVersion(cur.Metadata().Version())
				obj.Metadata().SetPhase(cur.Metadata().Phase())
				obj.Metadata().Finalizers().Set(slices.Clone([]string(*cur.Metadata().Finalizers())))
				_ = obj.Metadata().SetOwner(self)
			}
		} else {
			obj = res.New(rec.Target.NS, rec.Target.Type, rec.Target.ID)
		}

		res.SpecOf(obj).Token = tok
		setErr(r.Update(ctx, obj))
	case "modify":
		var opts []controller.ModifyOption

		switch rng.IntN(5) {
		case 0:
			rec.Opt = "noowner"
			opts = append(opts, controller.WithModifyNoOwner())
		case 1:
			rec.Opt = "phase:any"
			opts = append(opts, controller.WithExpectedPhaseAny())
		case 2:
			rec.Opt = "phase:td"
			opts = append(opts, controller.WithExpectedPhase(resource.PhaseTearingDown))
		}

		claim := rec.Opt != "noowner" && rng.IntN(4) == 0
		rec.Claim = claim

		setErr(r.Modify(ctx, res.New(rec.Target.NS, rec.Target.Type, rec.Target.ID), func(x resource.Resource) error {
			res.SpecOf(x).Token = tok

			if claim && x.Metadata().Owner() == "" {
				_ = x.Metadata().SetOwner(self) // an ownerless resource stays somebody else's: the mutator cannot adopt it
			}

			return nil
		}, opts...))
	case "teardown", "destroy":
		var opts []controller.DeleteOption

		switch rng.IntN(4) {
		case 0:
			rec.Opt = "owner:other"
			opts = append(opts, controller.WithOwner("other"))
		case 1:
			rec.Opt = "owner:"
			opts = append(opts, controller.WithOwner(""))
		}

		if rec.Op == "teardown" {
			ready, err := r.Teardown(ctx, ptr, opts...)
			setErr(err)

			if err == nil {
				rec.Ready = &ready
			}
		} else {
			setErr(r.Destroy(ctx, ptr, opts...))
		}
	case "cleanup":
		trackingMu.Lock()
		on := tracking[full]
		trackingMu.Unlock()

		if !on {
			full.StartTrackingOutputs()
		}

		err := full.CleanupOutputs(ctx, kind)

		trackingMu.Lock()
		tracking[full] = err != nil // (a failed clean-up leaves tracking switched on)
		trackingMu.Unlock()

		setErr(err)

		for key, v := range before {
			if key.NS == rec.Target.NS && key.Type == rec.Target.Type && v.Owner == self {
				rec.Own = append(rec.Own, key.String())
			}
		}
	case "addfin":
		setErr(r.AddFinalizer(ctx, ptr, "pfin"))
	case "rmfin":
		fin := []string{"pfin", "held"}[rng.IntN(2)]
		rec.Opt = fin
		setErr(r.RemoveFinalizer(ctx, ptr, fin))
	}

	after := w.Px.ShadowAll()
	rec.Post = after[rec.Target]

	for key, v := range after {
		if !same(before[key], v) {
			rec.Changed = append(rec.Changed, key.String())
		}
	}

	for key := range before {
		if _, ok := after[key]; !ok {
			rec.Changed = append(rec.Changed, key.String())
		}
	}

	return rec
}

func same(a, b *gp.Snap) bool {
	if a == nil || b == nil {
		return a == b
	}

	fa, fb := slices.Clone(a.Fins), slices.Clone(b.Fins)
	slices.Sort(fa)
	slices.Sort(fb)

	return a.Ver == b.Ver && a.Owner == b.Owner && a.Phase == b.Phase && a.Token == b.Token && slices.Equal(fa, fb)
}

// ---- reference policy, written from the property statement -----------------------------------------------------------------

func isOutput(outputs []controller.Output, t string) bool {
	return slices.ContainsFunc(outputs, func(o controller.Output) bool { return o.Type == t })
}

func readByID(inputs []controller.Input, outputs []controller.Output, k gp.Key) bool {
	if isOutput(outputs, k.Type) {
		return true
	}

	return slices.ContainsFunc(inputs, func(in controller.Input) bool {
		return in.Namespace == k.NS && in.Type == k.Type && (!in.ID.IsPresent() || in.ID.ValueOrZero() == k.ID)
	})
}

func readList(inputs []controller.Input, outputs []controller.Output, k gp.Key) bool {
	if isOutput(outputs, k.Type) {
		return true
	}

	return slices.ContainsFunc(inputs, func(in controller.Input) bool {
		return in.Namespace == k.NS && in.Type == k.Type && !in.ID.IsPresent()
	})
}

func finAccess(inputs []controller.Input, k gp.Key) bool {
	return slices.ContainsFunc(inputs, func(in controller.Input) bool {
		strong := in.Kind == controller.InputStrong || in.Kind == controller.InputQPrimary || in.Kind == controller.InputQMapped

		return strong && in.Namespace == k.NS && in.Type == k.Type && (!in.ID.IsPresent() || in.ID.ValueOrZero() == k.ID)
	})
}

// judge returns (verdict, problem detail); detail == "" means the observation agrees with the policy.
//
//nolint:gocyclo,cyclop
func judge(rec opRec, inputs []controller.Input, outputs []controller.Output) (string, string) {
	failed := rec.Err != ""
	unchanged := len(rec.Changed) == 0

	if rec.Op == "cleanup" {
		// outputs only: for a kind that is not a declared output nothing may change, whatever the call returns (it may succeed when it
		// finds nothing of its own there); for an output kind only resources of that kind owned by the controller may change (a
		// failure half-way - somebody's finalizer - leaves the earlier removals in place)
		switch {
		case !isOutput(outputs, rec.Target.Type) && !unchanged:
			return "undeclared-access-allowed", fmt.Sprintf("CleanupOutputs for %s/%s, not a declared output, changed %v (returned %q)", rec.Target.NS, rec.Target.Type, rec.Changed, rec.Err)
		case !isOutput(outputs, rec.Target.Type):
			return "denied-ok", ""
		}

		for _, ch := range rec.Changed {
			if !slices.Contains(rec.Own, ch) {
				return "foreign-owned-resource-modified", fmt.Sprintf("CleanupOutputs for %s/%s changed %s, which the controller does not own (own: %v)", rec.Target.NS, rec.Target.Type, ch, rec.Own)
			}
		}

		return verdictOf(failed), ""
	}
	onlyTarget := unchanged || (len(rec.Changed) == 1 && rec.Changed[0] == rec.Target.String())

	if failed && !unchanged {
		return "rejected-operation-changed-state", fmt.Sprintf("the call returned %q but %v changed", rec.Err, rec.Changed)
	}

	if !onlyTarget {
		return "operation-changed-other-resources", fmt.Sprintf("changed %v", rec.Changed)
	}

	var allowed bool

	switch rec.Op {
	case "get", "getuncached", "ctxteardown":
		allowed = readByID(inputs, outputs, rec.Target)
	case "list", "listuncached":
		allowed = readList(inputs, outputs, rec.Target)
	case "create", "update", "modify", "teardown", "destroy":
		allowed = isOutput(outputs, rec.Target.Type)
	case "addfin", "rmfin":
		allowed = finAccess(inputs, rec.Target)
	}

	if !allowed {
		if !failed {
			return "undeclared-access-allowed", fmt.Sprintf("%s on %s is outside the declared inputs/outputs but succeeded", rec.Op, rec.Target)
		}

		if rec.NotFound {
			return "denied-ok", "" // an access error shaped like not-found would also be fine for the statement
		}

		return "denied-ok", ""
	}

	pre, post := rec.Pre, rec.Post
	expectOK := true
	why := ""

	owner := self

	switch rec.Opt {
	case "noowner", "owner:":
		owner = ""
	case "owner:other":
		owner = "other"
	}

	phaseOK := func() bool {
		switch rec.Opt {
		case "phase:any":
			return true
		case "phase:td":
			return pre.TearingDown()
		}

		return !pre.TearingDown()
	}

	switch rec.Op {
	case "get", "getuncached":
		if rec.Op == "getuncached" && !failed && !same(rec.Val, pre) {
			return "read-returned-wrong-value", fmt.Sprintf("uncached Get returned %+v, store has %+v", rec.Val, pre)
		}

		if pre == nil && rec.Op == "getuncached" {
			expectOK, why = false, "absent"
		} else if rec.Op == "get" {
			return verdictOf(failed), "" // cached reads may lag: only access is judged
		}
	case "list", "listuncached", "ctxteardown":
		expectOK = true
	case "create":
		if pre != nil {
			expectOK, why = false, "already exists"
		} else if !failed && (post == nil || post.Owner != owner || post.Ver != 1) {
			return "created-resource-not-stamped-with-owner", fmt.Sprintf("created %+v, want owner %q version 1", post, owner)
		}
	case "update":
		switch {
		case pre == nil:
			expectOK, why = false, "absent"
		case pre.Owner != self:
			expectOK, why = false, "owned by "+pre.Owner
		case pre.TearingDown():
			expectOK, why = false, "tearing down"
		}
	case "modify":
		switch {
		case pre == nil:
			if !failed && (post == nil || post.Owner != owner || post.Ver != 1) {
				return "created-resource-not-stamped-with-owner", fmt.Sprintf("Modify created %+v, want owner %q version 1", post, owner)
			}
		case pre.Owner != owner:
			expectOK, why = false, "owned by "+pre.Owner
		case !phaseOK():
			expectOK, why = false, "phase "+pre.Phase
		}
	case "teardown":
		switch {
		case pre == nil:
			expectOK, why = false, "absent"
		case pre.TearingDown():
			if !failed && !unchanged {
				return "teardown-of-torn-down-resource-wrote", fmt.Sprintf("changed %v", rec.Changed)
			}
		case pre.Owner != owner:
			expectOK, why = false, "owned by "+pre.Owner
		}

		if expectOK && !failed && rec.Ready != nil && *rec.Ready != (len(pre.Fins) == 0) {
			return "teardown-ready-flag-wrong", fmt.Sprintf("ready=%v with finalizers %v", *rec.Ready, pre.Fins)
		}
	case "destroy":
		switch {
		case pre == nil:
			expectOK, why = false, "absent"
		case pre.Owner != owner:
			expectOK, why = false, "owned by "+pre.Owner
		case len(pre.Fins) > 0:
			expectOK, why = false, "pending finalizers"
		}
	case "addfin":
		if pre == nil {
			expectOK, why = false, "absent"
		}
	case "rmfin":
		expectOK = true // removing a finalizer from an absent resource is a documented no-op
	}

	switch {
	case expectOK && failed:
		return "allowed-operation-rejected", fmt.Sprintf("%s on %s (pre %+v, opt %q) is permitted by the declaration and by the store rules but failed: %s", rec.Op, rec.Target, pre, rec.Opt, rec.Err)
	case !expectOK && !failed:
		sig := "store-rule-bypassed"
		if pre != nil && pre.Owner != owner && (rec.Op == "update" || rec.Op == "modify" || rec.Op == "teardown" || rec.Op == "destroy") {
			sig = "foreign-owned-resource-modified"
		}

		return sig, fmt.Sprintf("%s on %s should fail (%s) but succeeded: %+v -> %+v", rec.Op, rec.Target, why, pre, post)
	}

	if !failed {
		// effect on the target
		switch rec.Op {
		case "create":
			// judged above (owner stamp, version 1)
		case "update", "modify":
			if pre != nil && (post == nil || post.Ver != pre.Ver+1 || post.Owner != pre.Owner) {
				return "write-effect-wrong", fmt.Sprintf("%+v -> %+v", pre, post)
			}
		case "teardown":
			if !pre.TearingDown() && (post == nil || !post.TearingDown() || post.Owner != pre.Owner) {
				return "write-effect-wrong", fmt.Sprintf("%+v -> %+v", pre, post)
			}
		case "destroy":
			if post != nil {
				return "write-effect-wrong", fmt.Sprintf("destroy left %+v", post)
			}
		case "addfin":
			if post == nil || !slices.Contains(post.Fins, "pfin") || post.Owner != pre.Owner {
				return "write-effect-wrong", fmt.Sprintf("%+v -> %+v", pre, post)
			}
		case "rmfin":
			if pre != nil && (post == nil || slices.Contains(post.Fins, rec.Opt) || post.Owner != pre.Owner) {
				return "write-effect-wrong", fmt.Sprintf("%+v -> %+v", pre, post)
			}
		default:
			if !unchanged {
				return "read-changed-state", fmt.Sprintf("changed %v", rec.Changed)
			}
		}
	}

	return verdictOf(failed), ""
}

func verdictOf(failed bool) string {
	if failed {
		return "allowed-failed-ok"
	}

	return "allowed-success-ok"
}
