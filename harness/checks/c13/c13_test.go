//go:build verif

// C13: remote watches survive transport failures without gaps or duplicates.
package c13

import (
	"context"
	"fmt"
	"math/rand/v2"
	"os"
	"regexp"
	"sync"
	"testing"
	"testing/synctest"
	"time"

	"google.golang.org/grpc/codes"

	"github.com/cosi-project/runtime/pkg/resource"
	"github.com/cosi-project/runtime/pkg/state"
	"github.com/cosi-project/runtime/pkg/state/impl/inmem"
	"github.com/cosi-project/runtime/pkg/state/protobuf/client"
	"github.com/cosi-project/runtime/pkg/state/protobuf/server"

	"verif/harness/lb"
	"verif/harness/res"
	"verif/harness/vk"
	"verif/harness/wl"
)

func TestMain(m *testing.M) {
	res.Register()

	if os.Getenv("VERIF_CHILD") == "c13server" {
		childServe()

		return
	}

	os.Exit(m.Run())
}

type plan struct {
	Kind    string // single | kind | agg
	Boot    bool
	BootBM  bool
	NoRetry bool
	K       []int // Recv index failing on stream 0, 1, 2 (0 = none)
	E       int   // failed re-establishments after the first failure (-1 = forever)
	W       int   // writes during the first outage
	Pre     int
	Cfg     wl.Cfg
	Code    codes.Code
	IDQ     bool // kind / aggregated watch restricted by an ID query (no bootstrap contents)
	Tail    int  // > 0: the watch starts with a tail request (replays old events first)
	From    bool // the watch starts from the bookmark of an earlier log entry (replays what followed it first)
}

func TestC13(t *testing.T) {
	vk.Run(t, "C13", "fault_enumeration", func(c *vk.C) {
		c.Rule("fault plans over the loopback transport in a synctest bubble: stream failure at message index k (enumerated over every index of short streams) on up to three consecutive streams " +
			"x failed re-establishments e in {0,1,2,forever} x writes during the outage w in {0, few, more than the retained history} x {single, kind, aggregated} x {+-bootstrap contents, " +
			"+-bootstrap bookmark} x {retry enabled, disabled} x status code {Unavailable, Internal, Canceled, ResourceExhausted}; the client-side stream is compared with the server-side commit log. " +
			"distinct = plan; non-trivial = the injected failure was actually hit")
		c.Assume("the loopback transport delivers messages in order and surfaces a broken stream as an error from Recv; outage writes are all committed before the client's first retry (virtual time)")
		c.Require("replaying_watches", "failures_hit", "resumed_transparently", "terminal_errored_mandatory", "outage_beyond_history", "retry_disabled_cases", "no_bookmark_cases", "establishment_failures", "repeated_failures")

		var plans []plan

		rng := c.Rand(13)
		cfgs := []wl.Cfg{{4, 16, 1}, {8, 8, 2}, {16, 64, 2}}
		codesList := []codes.Code{codes.Unavailable, codes.Unavailable, codes.Internal, codes.Canceled, codes.ResourceExhausted}

		// exhaustive over k for short streams, sampled over the rest
		for _, kind := range []string{"single", "kind", "agg"} {
			for k := 1; k <= 12; k++ {
				for _, e := range []int{0, 1, 2, -1} {
					for _, w := range []int{0, 3, 70} {
						p := plan{Kind: kind, K: []int{k}, E: e, W: w, Pre: rng.IntN(4), Cfg: cfgs[rng.IntN(len(cfgs))], Code: codesList[rng.IntN(len(codesList))]}

						if kind != "single" {
							p.Boot = rng.IntN(2) == 0
							p.BootBM = rng.IntN(3) == 0
						}

						p.NoRetry = rng.IntN(8) == 0

						if rng.IntN(3) == 0 {
							p.K = append(p.K, 1+rng.IntN(4))

							if rng.IntN(2) == 0 {
								p.K = append(p.K, 1+rng.IntN(3))
							}
						}

						plans = append(plans, p)
					}
				}
			}
		}

		// watches that start in the past (tail / from a bookmark, with or without an opening bookmark): the failure index is enumerated
		// over the opening messages and the replayed events
		for _, kind := range []string{"single", "kind", "agg"} {
			for k := 1; k <= 9; k++ {
				for m := 0; m < 4; m++ {
					p := plan{Kind: kind, K: []int{k}, E: []int{0, 0, 1}[rng.IntN(3)], W: []int{0, 2}[rng.IntN(2)], Pre: 4 + rng.IntN(5), Cfg: wl.Cfg{16, 64, 2}, Code: codesList[rng.IntN(len(codesList))]}

					if m%2 == 0 {
						p.Tail = 1 + rng.IntN(5)
					} else {
						p.From = true
					}

					p.BootBM = kind != "single" && m < 2

					if rng.IntN(4) == 0 {
						p.K = append(p.K, 1+rng.IntN(3))
					}

					plans = append(plans, p)
				}
			}
		}

		extra := c.N(600, 60000)
		for i := 0; i < extra; i++ {
			kind := []string{"single", "kind", "agg"}[rng.IntN(3)]
			p := plan{Kind: kind, K: []int{1 + rng.IntN(15)}, E: []int{0, 0, 1, 2, -1}[rng.IntN(5)], W: []int{0, 1, 3, 9, 20, 70}[rng.IntN(6)], Pre: rng.IntN(6), Cfg: cfgs[rng.IntN(len(cfgs))],
				NoRetry: rng.IntN(6) == 0, Code: codesList[rng.IntN(len(codesList))]}

			if kind != "single" {
				p.Boot = rng.IntN(2) == 0
				p.BootBM = rng.IntN(3) == 0
			}

			if kind != "single" && !p.Boot && i%3 == 0 {
				p.IDQ = true
			}

			for rng.IntN(3) == 0 && len(p.K) < 3 {
				p.K = append(p.K, 1+rng.IntN(5))
			}

			plans = append(plans, p)
		}

		c.Extra("plans_enumerated_exhaustively_over_k", "k in 1..12 x e x w x watch kind")

		var wg sync.WaitGroup

		sem := make(chan struct{}, 16)

		for i, p := range plans {
			wg.Add(1)
			sem <- struct{}{}

			go func() {
				defer wg.Done()
				defer func() { <-sem }()

				prng := rand.New(rand.NewPCG(uint64(c.Seed), uint64(i)))
				synctest.Test(t, func(*testing.T) { run(c, prng, p, i) })
			}()
		}

		wg.Wait()

		// real transport (grpc-go over unix sockets, byte-level proxy, child server processes)
		c.Require("real_cases", "real_connections_cut", "real_server_restarts", "real_mid_stream_cuts", "real_resumed_transparently", "real_terminal_errored_mandatory")
		realFamily(c)
	})
}

func run(c *vk.C, rng *rand.Rand, p plan, idx int) {
	ctx, cancel := context.WithCancel(context.Background())
	defer func() {
		cancel()
		synctest.Wait()
	}()

	inner := inmem.NewStateWithOptions(inmem.WithHistoryInitialCapacity(p.Cfg.Initial), inmem.WithHistoryMaxCapacity(p.Cfg.Max), inmem.WithHistoryGap(p.Cfg.Gap))("ns")
	w := wl.NewWorld(inner, "ns", res.TypeA, "a")
	cli := lb.New(server.NewState(inner))

	var aopts []client.AdapterOption
	if p.NoRetry {
		aopts = append(aopts, client.WithDisableWatchRetry())
	}

	remote := client.NewAdapter(cli, aopts...)
	ids := []string{"x", "y"}

	write := func(n int, settle bool) {
		for i := 0; i < n; i++ {
			id := ids[rng.IntN(len(ids))]
			kind := wl.OpUpdate

			switch {
			case !w.Exists(id):
				kind = wl.OpCreate
			case rng.IntN(6) == 0:
				kind = wl.OpDestroy
			}

			if _, err := w.Write(ctx, kind, id, nil); err != nil {
				c.Violation("write-failed", err.Error())
			}

			if settle {
				synctest.Wait()
			}
		}
	}

	// reference: a direct watcher gives the bookmark of every log index
	refCh := make(chan state.Event, 4096)
	if err := inner.WatchKind(ctx, resource.NewMetadata("ns", res.TypeA, "", resource.VersionUndefined), refCh); err != nil {
		c.Violation("reference-watch-failed", err.Error())

		return
	}

	write(p.Pre, true)

	for i, k := range p.K {
		if k > 0 {
			cli.FailRecv(i, k, p.Code)
		}
	}

	rec := &wl.Rec{Kind: p.Kind, Boot: p.Boot, BootBM: p.BootBM, FromIdx: -2, Name: "remote"}
	kindMd := resource.NewMetadata("ns", res.TypeA, "", resource.VersionUndefined)

	// bookmark of every log entry so far (reference watcher)
	bmIdx := map[string]int{}
	bmOf := map[int]state.Bookmark{}

	drainRef := func() {
		synctest.Wait()

		for {
			select {
			case ev := <-refCh:
				if i, ok := w.Locate(ev.Type, ev.Resource); ok {
					bmIdx[string(ev.Bookmark)] = i
					bmOf[i] = ev.Bookmark
				}
			default:
				return
			}
		}
	}

	var (
		wopts []state.WatchOption
		past  []state.WatchKindOption
	)

	switch {
	case p.Tail > 0 && w.Len() > 0:
		rec.Tail = p.Tail
		at := w.Len()
		match := func(e wl.Entry) bool { return p.Kind != "single" || e.ID == "x" }
		rec.SetTailCandidates(wl.TailCandidates(w.Log(), at, p.Tail, p.Cfg.Initial, p.Cfg.Max, p.Cfg.Gap, match))
		wopts, past = []state.WatchOption{state.WithTailEvents(p.Tail)}, []state.WatchKindOption{state.WithKindTailEvents(p.Tail)}

		c.Count("replaying_watches", 1)
	case p.From && w.Len() > 1:
		drainRef()

		i := w.Len() - 1 - rng.IntN(min(w.Len(), p.Cfg.Initial-p.Cfg.Gap-1))
		if bm, ok := bmOf[i]; ok {
			rec.FromIdx = i
			wopts, past = []state.WatchOption{state.WithStartFromBookmark(bm)}, []state.WatchKindOption{state.WithKindStartFromBookmark(bm)}

			c.Count("replaying_watches", 1)
		}
	}

	var (
		ch  = make(chan state.Event, 4096)
		agg = make(chan []state.Event, 4096)
		err error
	)

	rec.Lo = w.Len()

	switch p.Kind {
	case "single":
		rec.ID = "x"
		err = remote.Watch(ctx, resource.NewMetadata("ns", res.TypeA, "x", resource.VersionUndefined), ch, wopts...)
	case "kind", "agg":
		kopts := append([]state.WatchKindOption{state.WithBootstrapContents(p.Boot), state.WithBootstrapBookmark(p.BootBM)}, past...)

		if p.IDQ {
			rec.OnlyID = "x"
			kopts = append(kopts, state.WatchWithIDQuery(resource.IDRegexpMatch(regexp.MustCompile("^x$"))))

			c.Count("id_filtered_watches", 1)
		}

		if p.Kind == "kind" {
			err = remote.WatchKind(ctx, kindMd, ch, kopts...)
		} else {
			err = remote.WatchKindAggregated(ctx, kindMd, agg, kopts...)
		}
	}

	rec.Hi = w.Len()

	if err != nil {
		c.Violation("remote-watch-establish-failed", map[string]any{"plan": p, "err": err.Error()})

		return
	}

	batch := 0
	drain := func() {
		synctest.Wait()

		for {
			select {
			case ev := <-ch:
				batch++
				rec.Append(w.Convert(ev, batch))
			case evs := <-agg:
				batch++

				for _, ev := range evs {
					rec.Append(w.Convert(ev, batch))
				}
			default:
				return
			}
		}
	}

	drain()

	// phase A: live writes until the first failure can hit, then the outage writes, then more phases
	outageDone := false

	for phase := 0; phase < 4; phase++ {
		write(2+rng.IntN(5), true)
		drain()

		if !outageDone && len(cli.FailHits()) > 0 {
			// the client is now sleeping in its back-off: these commits happen during the outage
			if p.E != 0 {
				cli.FailEstablish(p.E)
			}

			write(p.W, false)

			outageDone = true
		}

		time.Sleep(10 * time.Second)
		drain()
	}

	time.Sleep(20 * time.Minute) // beyond the client's retry budget
	drain()

	g := w.Log()
	hits := cli.FailHits()

	// bookmark -> log index, from the reference watcher
	drainRef()

	erroredAt := -1

	for i, e := range rec.Events {
		if e.Type == "Errored" && erroredAt < 0 {
			erroredAt = i
		}
	}

	errored := erroredAt >= 0
	problems, _ := wl.CheckRec(g, rec, -1, !errored)

	for _, pr := range problems {
		c.Violation("remote-"+pr.Sig, map[string]any{"plan": p, "problem": pr, "rec": rec, "log": g, "fail_hits": hits})
	}

	if errored && erroredAt != len(rec.Events)-1 {
		c.Violation("remote-event-after-errored", map[string]any{"plan": p, "rec": rec})
	}

	// was giving up mandatory / forbidden?
	mandatory, forbidden := false, len(hits) > 0
	why := ""

	wAtResume := rec.Hi

	for hi, h := range hits {
		if hi == 0 {
			wAtResume = len(g) // conservative upper bound; refined below for the first failure
		}

		age := -1 // unknown

		if h.LastBookmark != nil {
			if i, ok := bmIdx[string(h.LastBookmark)]; ok {
				age = wAtResume - i
			}
		}

		switch {
		case p.NoRetry:
			mandatory, why = true, "retries disabled"
		case h.LastBookmark == nil:
			mandatory, why = true, "no bookmark seen before the failure"
		case p.E < 0:
			mandatory, why = true, "re-establishment never succeeds"
		}

		if h.LastBookmark == nil || p.NoRetry || p.E < 0 || age < 0 || age > p.Cfg.Initial-p.Cfg.Gap {
			forbidden = false
		}

		if mandatory {
			break
		}
	}

	// the first outage is the only one with bulk writes: with w beyond the whole retained history the bookmark is certainly gone
	if len(hits) > 0 && !mandatory && hits[0].LastBookmark != nil && p.W > p.Cfg.Max {
		mandatory, why = true, "bookmark fell out of the retained history during the outage"
	}

	switch {
	case mandatory && !errored:
		c.Violation("remote-watch-continued-where-it-must-fail", map[string]any{"plan": p, "why": why, "rec": rec, "fail_hits": hits})
	case forbidden && errored:
		c.Violation("remote-watch-gave-up-although-resumable", map[string]any{"plan": p, "rec": rec, "fail_hits": hits, "errored": rec.Events[erroredAt]})
	case len(hits) == 0 && errored:
		c.Violation("remote-watch-errored-without-failure", map[string]any{"plan": p, "rec": rec})
	}

	for _, pn := range cli.Panics() {
		c.Violation("server-handler-panicked", map[string]any{"method": pn.Method, "panic": pn.Value})
	}

	c.Case(vk.Hash(p), len(hits) > 0)
	c.Count("failures_hit", len(hits))

	if len(hits) > 1 {
		c.Count("repeated_failures", 1)
	}

	if len(hits) > 0 && !errored {
		c.Count("resumed_transparently", 1)
	}

	if mandatory {
		c.Count("terminal_errored_mandatory", 1)
	}

	if len(hits) > 0 && p.W > p.Cfg.Max {
		c.Count("outage_beyond_history", 1)
	}

	if p.NoRetry && len(hits) > 0 {
		c.Count("retry_disabled_cases", 1)
	}

	if len(hits) > 0 && hits[0].LastBookmark == nil {
		c.Count("no_bookmark_cases", 1)
	}

	if len(hits) > 0 && p.E != 0 {
		c.Count("establishment_failures", 1)
	}

	c.Count("events_checked", len(rec.Events))

	if idx%500 == 0 {
		c.Sample(map[string]any{"plan": p, "fail_hits": fmt.Sprint(hits), "events": len(rec.Events), "errored": errored, "log_len": len(g)})
	}
}
