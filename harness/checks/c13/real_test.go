//go:build verif

// C13, real-transport family: grpc-go over unix sockets through a byte-level proxy that cuts connections (also in the
// middle of a message), refuses re-connections for a while, and - with the server in a child process - a server that is
// killed and restarted (fresh state, new bookmark cookie). Wall-clock here (real sockets cannot live in a synctest bubble):
// no deadline decides a verdict on its own - a stream that stops is only judged once the transport is shown to be healthy.
package c13

import (
	"bufio"
	"context"
	"fmt"
	"math/rand/v2"
	"net"
	"os"
	"os/exec"
	"path/filepath"
	"regexp"
	"sync"
	"sync/atomic"
	"syscall"
	"time"

	"google.golang.org/grpc"
	gbackoff "google.golang.org/grpc/backoff"
	"google.golang.org/grpc/credentials/insecure"

	"github.com/cosi-project/runtime/api/v1alpha1"
	"github.com/cosi-project/runtime/pkg/resource"
	"github.com/cosi-project/runtime/pkg/state"
	"github.com/cosi-project/runtime/pkg/state/impl/inmem"
	"github.com/cosi-project/runtime/pkg/state/protobuf/client"
	"github.com/cosi-project/runtime/pkg/state/protobuf/server"

	"verif/harness/res"
	"verif/harness/vk"
	"verif/harness/wl"
)

// ---- child server ---------------------------------------------------------------------------------------------------

func newInner(cfg wl.Cfg) state.CoreState {
	return inmem.NewStateWithOptions(inmem.WithHistoryInitialCapacity(cfg.Initial), inmem.WithHistoryMaxCapacity(cfg.Max), inmem.WithHistoryGap(cfg.Gap))("ns")
}

// childServe is the body of the re-executed test binary (VERIF_CHILD=c13server): one state server on a unix socket.
func childServe() {
	var cfg wl.Cfg

	fmt.Sscanf(os.Getenv("VERIF_C13_CFG"), "%d,%d,%d", &cfg.Initial, &cfg.Max, &cfg.Gap) //nolint:errcheck

	sock := os.Getenv("VERIF_C13_SOCK")
	_ = os.Remove(sock)

	l, err := net.Listen("unix", sock)
	if err != nil {
		fmt.Println("LISTEN-FAILED", err)
		os.Exit(2)
	}

	srv := grpc.NewServer()
	v1alpha1.RegisterStateServer(srv, server.NewState(newInner(cfg)))

	fmt.Println("READY")

	_ = srv.Serve(l)
}

type child struct {
	cmd *exec.Cmd
}

func startChild(sock string, cfg wl.Cfg) (*child, error) {
	cmd := exec.Command(os.Args[0], "-test.run", "^$")
	cmd.Env = append(os.Environ(), "VERIF_CHILD=c13server", "VERIF_C13_SOCK="+sock, fmt.Sprintf("VERIF_C13_CFG=%d,%d,%d", cfg.Initial, cfg.Max, cfg.Gap))
	cmd.Stderr = os.Stderr

	out, err := cmd.StdoutPipe()
	if err != nil {
		return nil, err
	}

	if err = cmd.Start(); err != nil {
		return nil, err
	}

	line, _ := bufio.NewReader(out).ReadString('\n')
	if line != "READY\n" {
		_ = cmd.Process.Kill()
		_, _ = cmd.Process.Wait()

		return nil, fmt.Errorf("child server said %q", line)
	}

	return &child{cmd: cmd}, nil
}

func (c *child) kill() {
	_ = c.cmd.Process.Signal(syscall.SIGKILL)
	_, _ = c.cmd.Process.Wait()
}

// ---- byte-level proxy -----------------------------------------------------------------------------------------------

type proxy struct {
	l      net.Listener
	target string

	mu     sync.Mutex
	conns  map[net.Conn]struct{}
	refuse bool
	// budget >= 0: bytes still forwarded server->client before every connection is cut (mid-message cut); -1 = off
	budget int64

	cutConns atomic.Int64
	accepted atomic.Int64
}

func newProxy(sock, target string) (*proxy, error) {
	l, err := net.Listen("unix", sock)
	if err != nil {
		return nil, err
	}

	p := &proxy{l: l, target: target, conns: map[net.Conn]struct{}{}, budget: -1}

	go p.serve()

	return p, nil
}

func (p *proxy) serve() {
	for {
		c, err := p.l.Accept()
		if err != nil {
			return
		}

		p.mu.Lock()

		if p.refuse {
			p.mu.Unlock()
			_ = c.Close()

			continue
		}

		u, err := net.Dial("unix", p.target)
		if err != nil {
			p.mu.Unlock()
			_ = c.Close()

			continue
		}

		p.conns[c] = struct{}{}
		p.conns[u] = struct{}{}
		p.accepted.Add(1)
		p.mu.Unlock()

		go p.pipe(u, c, false)
		go p.pipe(c, u, true)
	}
}

func (p *proxy) pipe(dst, src net.Conn, downstream bool) {
	buf := make([]byte, 4096)

	for {
		n, err := src.Read(buf)
		if n > 0 {
			chunk := buf[:n]

			if downstream {
				p.mu.Lock()

				if p.budget >= 0 {
					if int64(len(chunk)) > p.budget {
						chunk = chunk[:p.budget]
						p.budget = 0
					} else {
						p.budget -= int64(len(chunk))
					}

					if p.budget == 0 {
						p.budget = -1
						p.mu.Unlock()
						_, _ = dst.Write(chunk)
						p.Cut()

						return
					}
				}

				p.mu.Unlock()
			}

			if _, werr := dst.Write(chunk); werr != nil {
				break
			}
		}

		if err != nil {
			break
		}
	}

	p.mu.Lock()
	delete(p.conns, dst)
	delete(p.conns, src)
	p.mu.Unlock()

	_ = dst.Close()
	_ = src.Close()
}

// Cut closes every proxied connection.
func (p *proxy) Cut() int {
	p.mu.Lock()
	n := len(p.conns) / 2

	for c := range p.conns {
		_ = c.Close()
	}

	p.conns = map[net.Conn]struct{}{}
	p.mu.Unlock()

	p.cutConns.Add(int64(n))

	return n
}

func (p *proxy) Refuse(b bool) { p.mu.Lock(); p.refuse = b; p.mu.Unlock() }

// CutAfter arms a cut after n more server->client bytes.
func (p *proxy) CutAfter(n int64) { p.mu.Lock(); p.budget = n; p.mu.Unlock() }

func (p *proxy) Close() { _ = p.l.Close(); p.Cut() }

// ---- plans ----------------------------------------------------------------------------------------------------------

type realPlan struct {
	Kind   string // single | kind | agg
	Boot   bool
	BootBM bool
	IDQ    bool
	// Fault: cut (connections closed while the stream is idle) | midmsg (cut after a few more bytes while events flow) |
	// stream (cuts at seeded moments while a writer keeps writing) | restart (child server killed, fresh one on the same socket)
	Fault   string
	Cuts    int // consecutive faults
	Refuse  int // milliseconds during which re-connections are refused after a cut
	W       int // writes during the (first) outage
	Pre     int
	Live    int  // live events delivered before the first fault (0 = no bookmark may have been seen)
	NoRetry bool
	Cfg     wl.Cfg
}

func realPlans(c *vk.C, rng *rand.Rand) []realPlan {
	var plans []realPlan

	kinds := []string{"single", "kind", "agg"}
	small := wl.Cfg{Initial: 8, Max: 16, Gap: 2}
	big := wl.Cfg{Initial: 2048, Max: 2048, Gap: 8}

	n := c.N(36, 600)
	for i := 0; i < n; i++ {
		p := realPlan{Kind: kinds[i%3], Pre: rng.IntN(4), Live: 1 + rng.IntN(4), Cuts: 1 + rng.IntN(3), Cfg: small}

		if p.Kind != "single" {
			p.Boot = rng.IntN(2) == 0
			p.BootBM = rng.IntN(3) == 0
			p.IDQ = !p.Boot && rng.IntN(4) == 0
		}

		switch (i / 3) % 6 {
		case 0:
			p.Fault, p.W = "cut", []int{0, 1, 3, 5}[rng.IntN(4)]
		case 1:
			p.Fault, p.W, p.Refuse = "cut", []int{0, 2, 40}[rng.IntN(3)], 200+rng.IntN(900)
		case 2:
			p.Fault, p.Cfg = "midmsg", big
		case 3:
			p.Fault, p.Cfg = "stream", big
		case 4:
			p.Fault, p.W = "restart", rng.IntN(6)
			p.Cuts = 1
		case 5:
			// no bookmark seen (Live 0, no bootstrap) or retries disabled: giving up is mandatory
			p.Fault, p.W = "cut", rng.IntN(3)
			if rng.IntN(2) == 0 {
				p.NoRetry = true
			} else {
				p.Live, p.Boot, p.BootBM, p.Pre = 0, false, false, 0
				if p.Kind == "single" {
					p.Kind = "kind"
				}
			}
		}

		plans = append(plans, p)
	}

	return plans
}

// ---- one case -------------------------------------------------------------------------------------------------------

type sink struct {
	mu    sync.Mutex
	rec   *wl.Rec
	w     *wl.World
	batch int
}

func (s *sink) add(evs ...state.Event) {
	s.mu.Lock()
	defer s.mu.Unlock()

	s.batch++

	for _, ev := range evs {
		s.rec.Append(s.w.Convert(ev, s.batch))
	}
}

func (s *sink) snapshot() (n int, lastIdx int, errored bool, lastBM bool) {
	s.mu.Lock()
	defer s.mu.Unlock()

	lastIdx = -1

	for _, e := range s.rec.Events {
		if e.Type == "Errored" {
			errored = true
		}

		if e.Idx > lastIdx {
			lastIdx = e.Idx
		}
	}

	if k := len(s.rec.Events); k > 0 {
		lastBM = s.rec.Events[k-1].Bookmark != ""
	}

	return len(s.rec.Events), lastIdx, errored, lastBM
}

// realPatience bounds waits before any fault was injected (a miss there is load, i.e. inconclusive); shortWait bounds waits
// between faults whose result is not used; finalPatience is longer than the client's whole retry budget (15 minutes), so that a
// client that is still retrying - and will fail loudly when its budget is exhausted, which the statement allows - is never
// mistaken for a stuck one. On a tree where the property holds none of these waits is ever used up.
const (
	realPatience  = 120 * time.Second
	shortWait     = 20 * time.Second
	finalPatience = 16 * time.Minute
)

func waitUntil(d time.Duration, cond func() bool) bool {
	deadline := time.Now().Add(d)

	for !cond() {
		if time.Now().After(deadline) {
			return false
		}

		time.Sleep(3 * time.Millisecond)
	}

	return true
}

func realRun(c *vk.C, rng *rand.Rand, p realPlan, idx int) {
	dir, err := os.MkdirTemp("", "c13r")
	if err != nil {
		c.Inconclusive("tempdir: " + err.Error())

		return
	}

	defer os.RemoveAll(dir) //nolint:errcheck

	ctx, cancel := context.WithCancel(context.Background())
	defer cancel()

	srvSock, pxSock := filepath.Join(dir, "s.sock"), filepath.Join(dir, "p.sock")

	var (
		writerState state.CoreState
		ch1         *child
		stopServer  func()
	)

	dial := func(sock string) (*grpc.ClientConn, error) {
		return grpc.NewClient("unix://"+sock, grpc.WithTransportCredentials(insecure.NewCredentials()),
			grpc.WithConnectParams(grpc.ConnectParams{Backoff: gbackoff.Config{BaseDelay: 30 * time.Millisecond, Multiplier: 1.3, Jitter: 0.2, MaxDelay: 400 * time.Millisecond}, MinConnectTimeout: 2 * time.Second}))
	}

	if p.Fault == "restart" {
		if ch1, err = startChild(srvSock, p.Cfg); err != nil {
			c.Inconclusive("child server: " + err.Error())

			return
		}

		direct, derr := dial(srvSock)
		if derr != nil {
			ch1.kill()
			c.Inconclusive("dial: " + derr.Error())

			return
		}

		defer direct.Close() //nolint:errcheck

		writerState = client.NewAdapter(v1alpha1.NewStateClient(direct))
		stopServer = func() {}
	} else {
		inner := newInner(p.Cfg)

		l, lerr := net.Listen("unix", srvSock)
		if lerr != nil {
			c.Inconclusive("listen: " + lerr.Error())

			return
		}

		srv := grpc.NewServer()
		v1alpha1.RegisterStateServer(srv, server.NewState(inner))

		go srv.Serve(l) //nolint:errcheck

		writerState = inner
		stopServer = srv.Stop
	}

	defer func() { stopServer() }()

	px, err := newProxy(pxSock, srvSock)
	if err != nil {
		c.Inconclusive("proxy: " + err.Error())

		return
	}

	defer px.Close()

	conn, err := dial(pxSock)
	if err != nil {
		c.Inconclusive("dial: " + err.Error())

		return
	}

	defer conn.Close() //nolint:errcheck

	var aopts []client.AdapterOption
	if p.NoRetry {
		aopts = append(aopts, client.WithDisableWatchRetry())
	}

	remote := client.NewAdapter(v1alpha1.NewStateClient(conn), aopts...)
	w := wl.NewWorld(writerState, "ns", res.TypeA, fmt.Sprintf("r%d-", idx))
	ids := []string{"x", "y"}

	write := func(n int) bool {
		for i := 0; i < n; i++ {
			id := ids[rng.IntN(len(ids))]
			kind := wl.OpUpdate

			switch {
			case !w.Exists(id):
				kind = wl.OpCreate
			case rng.IntN(7) == 0:
				kind = wl.OpDestroy
			}

			if _, werr := w.Write(ctx, kind, id, nil); werr != nil {
				c.Violation("real-write-failed", map[string]any{"plan": p, "err": werr.Error()})

				return false
			}
		}

		return true
	}

	// the watched id of a single watch / an ID-filtered watch is x: make sure the last write of a phase touches it
	touchX := func() bool {
		kind := wl.OpUpdate
		if !w.Exists("x") {
			kind = wl.OpCreate
		}

		_, werr := w.Write(ctx, kind, "x", nil)
		if werr != nil {
			c.Violation("real-write-failed", map[string]any{"plan": p, "err": werr.Error()})
		}

		return werr == nil
	}

	if !write(p.Pre) {
		return
	}

	rec := &wl.Rec{Kind: p.Kind, Boot: p.Boot, BootBM: p.BootBM, FromIdx: -2, Name: "real-remote"}
	sk := &sink{rec: rec, w: w}
	kindMd := resource.NewMetadata("ns", res.TypeA, "", resource.VersionUndefined)

	ch := make(chan state.Event)
	agg := make(chan []state.Event)

	go func() {
		for {
			select {
			case ev := <-ch:
				sk.add(ev)
			case evs := <-agg:
				sk.add(evs...)
			case <-ctx.Done():
				return
			}
		}
	}()

	rec.Lo = w.Len()

	switch p.Kind {
	case "single":
		rec.ID = "x"
		err = remote.Watch(ctx, resource.NewMetadata("ns", res.TypeA, "x", resource.VersionUndefined), ch)
	default:
		kopts := []state.WatchKindOption{state.WithBootstrapContents(p.Boot), state.WithBootstrapBookmark(p.BootBM)}

		if p.IDQ {
			rec.OnlyID = "x"
			kopts = append(kopts, state.WatchWithIDQuery(resource.IDRegexpMatch(regexp.MustCompile("^x$"))))
		}

		if p.Kind == "kind" {
			err = remote.WatchKind(ctx, kindMd, ch, kopts...)
		} else {
			err = remote.WatchKindAggregated(ctx, kindMd, agg, kopts...)
		}
	}

	rec.Hi = w.Len()

	if err != nil {
		c.Violation("real-remote-watch-establish-failed", map[string]any{"plan": p, "err": err.Error()})

		return
	}

	// caughtUp: the client has delivered the newest entry it is entitled to (x-only watches: the newest entry of x)
	target := func() int {
		g := w.Log()

		for i := len(g) - 1; i >= 0; i-- {
			if (p.Kind != "single" && !p.IDQ) || g[i].ID == "x" {
				return i
			}
		}

		return -1
	}

	caughtUp := func() bool {
		_, last, errored, _ := sk.snapshot()

		return errored || last >= target()
	}

	inconclusive := func(what string) {
		c.Count("real_inconclusive", 1)
		c.Inconclusive(fmt.Sprintf("real transport case %d: %s", idx, what))
	}

	// establishment phase delivered?
	bootOK := waitUntil(realPatience, func() bool {
		n, _, errored, _ := sk.snapshot()

		switch {
		case errored:
			return true
		case p.Kind == "single":
			return n >= 1
		case p.Boot:
			sk.mu.Lock()
			defer sk.mu.Unlock()

			for _, e := range rec.Events {
				if e.Type == "Bootstrapped" {
					return true
				}
			}

			return false
		case p.BootBM:
			return n >= 1
		}

		return true
	})
	if !bootOK {
		inconclusive("establishment phase not delivered in time")

		return
	}

	if p.Live > 0 {
		if !write(p.Live-1) || !touchX() {
			return
		}

		if !waitUntil(realPatience, caughtUp) {
			inconclusive("live events before the fault not delivered in time")

			return
		}
	}

	_, lastBefore, _, bmBefore := sk.snapshot()
	lenAtFault := w.Len()
	totalOutageWrites := 0

	var ch2 *child

	switch p.Fault {
	case "cut":
		for k := 0; k < p.Cuts; k++ {
			if p.Refuse > 0 {
				px.Refuse(true)
			}

			px.Cut()

			if k == 0 {
				if !write(p.W) {
					return
				}

				totalOutageWrites += p.W
			}

			if p.Refuse > 0 {
				time.Sleep(time.Duration(p.Refuse) * time.Millisecond)
				px.Refuse(false)
			}

			// consecutive failures with no event in between (the quiet-period case) every other time
			if k%2 == 1 {
				if !touchX() {
					return
				}

				totalOutageWrites++

				waitUntil(shortWait, caughtUp)
			} else {
				time.Sleep(time.Duration(20+rng.IntN(700)) * time.Millisecond)
			}
		}
	case "midmsg":
		for k := 0; k < p.Cuts; k++ {
			px.CutAfter(int64(1 + rng.IntN(400)))

			if !write(3+rng.IntN(6)) || !touchX() {
				return
			}

			waitUntil(shortWait, caughtUp)
		}
	case "stream":
		stop := make(chan struct{})
		crng := rand.New(rand.NewPCG(uint64(c.Seed), uint64(9000+idx))) // the writer goroutine owns rng from here on

		var wg sync.WaitGroup

		wg.Add(1)

		go func() {
			defer wg.Done()

			for i := 0; i < 400; i++ {
				select {
				case <-stop:
					return
				default:
				}

				if !write(1) {
					return
				}

				time.Sleep(time.Duration(rng.IntN(6)) * time.Millisecond)
			}
		}()

		for k := 0; k < p.Cuts+1; k++ {
			time.Sleep(time.Duration(30+crng.IntN(300)) * time.Millisecond)

			if k%2 == 0 {
				px.Cut()
			} else {
				px.CutAfter(int64(1 + crng.IntN(2000)))
			}
		}

		time.Sleep(time.Duration(crng.IntN(500)) * time.Millisecond)
		close(stop)
		wg.Wait()
	case "restart":
		ch1.kill()

		ch2, err = startChild(srvSock, p.Cfg)
		if err != nil {
			inconclusive("second child server: " + err.Error())

			return
		}

		defer ch2.kill()

		// the new server gets its own history under the same ids
		direct2, derr := dial(srvSock)
		if derr != nil {
			inconclusive("dial: " + derr.Error())

			return
		}

		defer direct2.Close() //nolint:errcheck

		w2 := wl.NewWorld(client.NewAdapter(v1alpha1.NewStateClient(direct2)), "ns", res.TypeA, fmt.Sprintf("second%d-", idx))

		for i := 0; i < 2+p.W; i++ {
			id := ids[i%2]
			kind := wl.OpUpdate

			if !w2.Exists(id) {
				kind = wl.OpCreate
			}

			if _, werr := w2.Write(ctx, kind, id, nil); werr != nil {
				inconclusive("write to the restarted server: " + werr.Error())

				return
			}
		}
	}

	if p.Fault != "restart" {
		if !touchX() {
			return
		}
	}

	mustFail, mayNotFail, why := false, false, ""

	switch {
	case p.Fault == "restart":
		mustFail, why = true, "the server was restarted: every bookmark is foreign now"
	case p.NoRetry:
		mustFail, why = true, "retries disabled"
	case p.Live == 0 && !p.Boot && !p.BootBM:
		mustFail, why = true, "no bookmark seen before the failure"
	case bmBefore && lastBefore >= 0 && w.Len()-lastBefore <= p.Cfg.Initial-p.Cfg.Gap:
		// the bookmark of the last delivered event is within the always-retained window even at the very end
		mayNotFail = true
	case bmBefore && p.Fault == "cut" && p.W > p.Cfg.Max:
		mustFail, why = true, "bookmark fell out of the retained history during the outage"
	}

	finished := caughtUp
	if mustFail {
		finished = func() bool { _, _, errored, _ := sk.snapshot(); return errored }
	}

	done := waitUntil(finalPatience, finished)

	if !done {
		// is the transport healthy? then a stream that neither completes nor fails (beyond the whole retry budget) is stuck for good
		pctx, pcancel := context.WithTimeout(ctx, 20*time.Second)
		_, perr := remote.Get(pctx, resource.NewMetadata("ns", res.TypeA, "probe", resource.VersionUndefined))
		pcancel()

		if perr != nil && !state.IsNotFoundError(perr) {
			inconclusive("stream incomplete and the transport probe failed: " + perr.Error())

			return
		}

	}

	// let a possible extra (duplicate / post-Errored) event arrive
	time.Sleep(150 * time.Millisecond)

	cancel()

	sk.mu.Lock()
	defer sk.mu.Unlock()

	g := w.Log()
	erroredAt := -1

	for i, e := range rec.Events {
		if e.Type == "Errored" && erroredAt < 0 {
			erroredAt = i
		}
	}

	errored := erroredAt >= 0
	detail := func(extra map[string]any) map[string]any {
		m := map[string]any{"plan": p, "rec": rec, "log_len": len(g), "len_at_fault": lenAtFault, "cut_connections": px.cutConns.Load()}
		for k, v := range extra {
			m[k] = v
		}

		return m
	}

	if !done && !errored {
		c.Violation("real-remote-stream-stuck", detail(map[string]any{"why": "transport healthy, stream neither complete nor errored", "log": g}))
	}

	problems, _ := wl.CheckRec(g, rec, -1, !errored && done)
	for _, pr := range problems {
		c.Violation("real-remote-"+pr.Sig, detail(map[string]any{"problem": pr, "log": g}))
	}

	if errored && erroredAt != len(rec.Events)-1 {
		c.Violation("real-remote-event-after-errored", detail(nil))
	}

	switch {
	case mustFail && !errored:
		c.Violation("real-remote-watch-continued-where-it-must-fail", detail(map[string]any{"why": why}))
	case mayNotFail && errored:
		c.Violation("real-remote-watch-gave-up-although-resumable", detail(map[string]any{"errored": rec.Events[erroredAt]}))
	}

	c.Case("real|"+vk.Hash(p), true)
	c.Count("real_cases", 1)
	c.Count("real_events_checked", len(rec.Events))
	c.Count("real_connections_cut", int(px.cutConns.Load()))

	if p.Fault == "restart" {
		c.Count("real_server_restarts", 1)
	}

	if p.Fault == "midmsg" || p.Fault == "stream" {
		c.Count("real_mid_stream_cuts", 1)
	}

	if !errored && px.cutConns.Load() > 0 {
		c.Count("real_resumed_transparently", 1)
	}

	if mustFail {
		c.Count("real_terminal_errored_mandatory", 1)
	}

	if idx%12 == 0 {
		c.Sample(map[string]any{"real_plan": p, "events": len(rec.Events), "errored": errored, "log_len": len(g), "connections_cut": px.cutConns.Load(), "outage_writes": totalOutageWrites})
	}
}

func realFamily(c *vk.C) {
	rng := c.Rand(1313)
	plans := realPlans(c, rng)

	var wg sync.WaitGroup

	sem := make(chan struct{}, 8)

	for i, p := range plans {
		wg.Add(1)
		sem <- struct{}{}

		go func() {
			defer wg.Done()
			defer func() { <-sem }()

			realRun(c, rand.New(rand.NewPCG(uint64(c.Seed), uint64(7000+i))), p, i)
		}()
	}

	wg.Wait()
}
