//go:build verif

// C07: finalizer ordering safety in controller-driven lifecycles.
package c07

import (
	"math/rand/v2"
	"sync"
	"testing"
	"testing/synctest"

	"verif/harness/gctl"
	"verif/harness/vk"
)

func TestC07(t *testing.T) {
	vk.Run(t, "C07", "exploration", func(c *vk.C) {
		c.Rule("the C06 scenarios (transform with input finalizers, qtransform, cleanup controllers with RemoveOutputs/HasNoOutputs/Combine, destroy controller, external actors) with the " +
			"safety monitors run over EVERY prefix of the recording proxy's totally ordered write log: output create => input carries the finalizer; finalizer removal => output absent; input " +
			"destroy => no derived output; output destroy => tearing down with empty finalizers; cleanup release => handler succeeded for this incarnation and no dependents. " +
			"distinct = (options, actor trace) hash; non-trivial = the log contains an output create, a finalizer release and an input destroy")
		c.Assume("transient violations are visible because every commit passes through the recording proxy; reads are not part of the log")
		c.Require("output_creates", "finalizer_releases", "input_destroys", "output_destroys", "cleanup_releases", "cleanup_handler_ok",
			"window_teardown_between_addfinalizer_and_modify", "window_foreign_finalizer_on_tearing_down_output")

		n := c.N(3000, 100000)

		var wg sync.WaitGroup

		sem := make(chan struct{}, 16)

		for k := 0; k < n; k++ {
			wg.Add(1)
			sem <- struct{}{}

			go func() {
				defer wg.Done()
				defer func() { <-sem }()

				rng := rand.New(rand.NewPCG(uint64(c.Seed), uint64(1_000_000+k)))
				opts := gctl.GenOpts(rng, k)

				if opts.T == "plain" || opts.T == "ignoretd" {
					opts.T = "finalizers" // the property speaks about controllers configured with input finalizers
				}

				var o *gctl.Outcome

				synctest.Test(t, func(*testing.T) { o = gctl.Run(rng, opts) })

				ps, cov := gctl.CheckC07(o)

				for name, v := range cov {
					c.Count(name, v)
				}

				c.Count("commits_monitored", len(o.Log))
				c.Case(vk.Hash(opts, o.Trace), cov["output_creates"] > 0 && cov["finalizer_releases"] > 0 && cov["input_destroys"] > 0)

				if k < 2 {
					c.Sample(map[string]any{"opts": opts, "actions": head(o.Trace, 20), "commits": len(o.Log), "coverage": cov})
				}

				for _, p := range ps {
					c.Violation(p.Sig, map[string]any{"scenario": k, "opts": opts, "problem": p, "trace": o.Trace, "log": o.Log})
				}
			}()
		}

		wg.Wait()
	})
}

func head[T any](s []T, n int) []T {
	if len(s) > n {
		return s[:n]
	}

	return s
}
