//go:build verif

// C02: watch streams are exact, ordered change logs (or fail loudly).
package c02

import (
	"context"
	"fmt"
	"math/rand/v2"
	"sync"
	"sync/atomic"
	"testing"
	"testing/synctest"
	"time"

	"github.com/cosi-project/runtime/pkg/resource"
	"github.com/cosi-project/runtime/pkg/state"
	"github.com/cosi-project/runtime/pkg/state/impl/inmem"
	"github.com/cosi-project/runtime/pkg/state/impl/namespaced"

	"verif/harness/res"
	"verif/harness/vk"
	"verif/harness/wl"
)

var configs = []wl.Cfg{{1, 1, 0}, {2, 2, 0}, {2, 8, 1}, {3, 7, 1}, {4, 16, 2}, {8, 8, 3}, {5, 64, 2}, {100, 100, 5}}

func TestC02(t *testing.T) {
	vk.Run(t, "C02", "exploration", func(c *vk.C) {
		c.Rule("scripted mode: seeded scripts (write bursts sized around capacity boundaries, watcher starts of every kind mid-history, " +
			"eager/slow/stalled/resumed/cancelled consumers) in a synctest bubble so lag is exact; stress mode: real threads, serialised writers, " +
			"concurrent watchers with random consumer speeds. distinct = distinct (config, event-trace hash); non-trivial = the log wrapped the ring or grew it " +
			"and at least one watcher received live events")
		c.Assume("writers are serialised by the harness (gives the ground-truth commit order); the store serialises per kind anyway")
		c.Assume("lag of a subscriber = committed changes of the kind after the last one it has taken from its channel")
		c.Require("scripts_with_wrap", "scripts_with_growth", "watchers_errored_legit", "boundary_lag_survivors", "stress_runs", "live_events_checked")

		scripted(t, c)
		stress(t, c)
		establishmentRaces(c)
	})
}

func scripted(t *testing.T, c *vk.C) {
	perCfg := c.N(40, 2000)

	extra := c.Rand(7)
	cfgs := append([]wl.Cfg(nil), configs...)

	for i := 0; i < 4; i++ { // seeded extra configurations, gap < initial <= max
		ini := 1 + extra.IntN(12)
		cfgs = append(cfgs, wl.Cfg{Initial: ini, Max: ini + extra.IntN(20), Gap: extra.IntN(ini)})
	}

	var wg sync.WaitGroup

	sem := make(chan struct{}, 16)

	for ci, cfg := range cfgs {
		for k := 0; k < perCfg; k++ {
			wg.Add(1)
			sem <- struct{}{}

			go func() {
				defer wg.Done()
				defer func() { <-sem }()

				rng := rand.New(rand.NewPCG(uint64(c.Seed), uint64(ci*1_000_003+k)))

				var r *wl.Result

				synctest.Test(t, func(*testing.T) {
					r = wl.RunScript(rng, cfg, wl.ScriptOpts{Steps: 30 + rng.IntN(40)})
				})

				report(c, cfg, k, r)
			}()
		}
	}

	wg.Wait()
}

func report(c *vk.C, cfg wl.Cfg, k int, r *wl.Result) {
	live := 0

	for _, rec := range r.Recs {
		for _, e := range rec.Events {
			if e.Idx >= 0 {
				live++
			}
		}
	}

	nontrivial := (r.Wraps > 0 || r.Growths > 0) && live > 0
	c.Case(vk.Hash(cfg, r.Trace), nontrivial)
	c.Count("writes_committed", r.Writes)
	c.Count("failed_writes_checked_silent", r.FailedWrites)
	c.Count("watchers", r.Watchers)
	c.Count("live_events_checked", live)
	c.Count("watchers_errored_legit", r.ErroredLegit)
	c.Count("boundary_lag_survivors", r.BoundaryLagHits)

	if r.Wraps > 0 {
		c.Count("scripts_with_wrap", 1)
	}

	if r.Growths > 0 && cfg.Max > cfg.Initial {
		c.Count("scripts_with_growth", 1)
	}

	if r.BatchMax > 1 {
		c.Count("aggregated_batches_gt1", 1)
	}

	if k == 0 {
		c.Sample(map[string]any{"mode": "scripted", "config": cfg.String(), "script": head(r.Trace, 25), "log_len": r.Writes, "watchers": r.Watchers})
	}

	for _, p := range r.Problems {
		c.Violation(p.Sig, map[string]any{"mode": "scripted", "config": cfg, "script_index": k, "problem": p, "trace": r.Trace, "log": r.Log, "recs": r.Recs})
	}
}

func head(s []string, n int) []string {
	if len(s) > n {
		return s[:n]
	}

	return s
}

// ---------------------------------------------------------------------------------------------
// stress mode: real goroutines under the race detector.

func stress(t *testing.T, c *vk.C) {
	runs := c.N(20, 1000)

	var wg sync.WaitGroup

	sem := make(chan struct{}, 8)

	for k := 0; k < runs; k++ {
		wg.Add(1)
		sem <- struct{}{}

		go func() {
			defer wg.Done()
			defer func() { <-sem }()

			stressRun(c, k)
		}()
	}

	wg.Wait()
}

type consumer struct {
	rec  *wl.Rec
	mu   sync.Mutex
	done atomic.Bool
}

func stressRun(c *vk.C, k int) {
	rng := rand.New(rand.NewPCG(uint64(c.Seed), uint64(9_000_000+k)))
	cfg := configs[rng.IntN(len(configs))]

	if cfg.Max < 8 && rng.IntN(2) == 0 {
		cfg = wl.Cfg{Initial: 16, Max: 64, Gap: 2}
	}

	ctx, cancel := context.WithCancel(context.Background())
	defer cancel()

	var st state.CoreState

	factory := inmem.NewStateWithOptions(inmem.WithHistoryInitialCapacity(cfg.Initial), inmem.WithHistoryMaxCapacity(cfg.Max), inmem.WithHistoryGap(cfg.Gap))
	target := "inmem"

	if rng.IntN(2) == 0 {
		st = factory("ns")
	} else {
		target = "namespaced"
		st = namespaced.NewState(func(ns resource.Namespace) state.CoreState { return factory(ns) })
	}

	w := wl.NewWorld(st, "ns", res.TypeA, "a")
	other := wl.NewWorld(st, "ns", res.TypeB, "b")
	ids := []string{"x", "y", "z"}[:1+rng.IntN(3)]
	nWrites := 60 + rng.IntN(200)
	nWatch := 2 + rng.IntN(20)

	var (
		cons   []*consumer
		consMu sync.Mutex
		wg     sync.WaitGroup
	)

	startWatcher := func(r *rand.Rand, idx int) {
		kinds := []string{"single", "kind", "agg"}
		rec := &wl.Rec{Kind: kinds[r.IntN(3)], FromIdx: -2, Name: fmt.Sprintf("s%d", idx)}

		var kopts []state.WatchKindOption

		if rec.Kind == "single" {
			rec.ID = ids[r.IntN(len(ids))]
		} else {
			if r.IntN(2) == 0 {
				rec.Boot = true
				kopts = append(kopts, state.WithBootstrapContents(true))
			}

			if r.IntN(4) == 0 {
				rec.BootBM = true
				kopts = append(kopts, state.WithBootstrapBookmark(true))
			}
		}

		speed := r.IntN(4) // 0 fast, 1 yield, 2 slow, 3 stall in the middle
		cn := &consumer{rec: rec}
		ch := make(chan state.Event, r.IntN(3))
		agg := make(chan []state.Event, r.IntN(3))

		rec.Lo = w.Len()

		var err error

		switch rec.Kind {
		case "single":
			err = st.Watch(ctx, resource.NewMetadata("ns", res.TypeA, rec.ID, resource.VersionUndefined), ch)
		case "kind":
			err = st.WatchKind(ctx, resource.NewMetadata("ns", res.TypeA, "", resource.VersionUndefined), ch, kopts...)
		case "agg":
			err = st.WatchKindAggregated(ctx, resource.NewMetadata("ns", res.TypeA, "", resource.VersionUndefined), agg, kopts...)
		}

		rec.Hi = w.Len()

		if err != nil {
			c.Violation("watch-establish-failed", map[string]any{"err": err.Error(), "rec": rec})

			return
		}

		consMu.Lock()
		cons = append(cons, cn)
		consMu.Unlock()

		wg.Add(1)

		go func() {
			defer wg.Done()

			batch := 0
			seen := 0

			for {
				var evs []state.Event

				select {
				case <-ctx.Done():
					return
				case ev := <-ch:
					evs = []state.Event{ev}
				case evs = <-agg:
				}

				batch++

				cn.mu.Lock()
				for _, ev := range evs {
					cn.rec.Append(w.Convert(ev, batch))
					if ev.Type == state.Errored {
						cn.done.Store(true)
					}
				}
				cn.mu.Unlock()

				seen += len(evs)

				switch speed {
				case 1:
					time.Sleep(time.Microsecond)
				case 2:
					time.Sleep(time.Duration(50+r.IntN(300)) * time.Microsecond)
				case 3:
					if seen > 5 && seen < 5+len(evs)+1 {
						time.Sleep(time.Duration(2+r.IntN(10)) * time.Millisecond)
					}
				}
			}
		}()
	}

	// watcher starters race with the writer
	var starters sync.WaitGroup

	for i := 0; i < nWatch; i++ {
		starters.Add(1)

		r := rand.New(rand.NewPCG(uint64(c.Seed), uint64(9_500_000+k*1000+i)))

		go func() {
			defer starters.Done()

			time.Sleep(time.Duration(r.IntN(3000)) * time.Microsecond)
			startWatcher(r, i)
		}()
	}

	for i := 0; i < nWrites; i++ {
		id := ids[rng.IntN(len(ids))]

		var kind wl.OpKind

		switch p := rng.IntN(100); {
		case !w.Exists(id):
			kind = wl.OpCreate
		case p < 70:
			kind = wl.OpUpdate
		case p < 85:
			kind = wl.OpDestroy
		case p < 93:
			kind = wl.OpStaleUpdate
		default:
			kind = wl.OpDupCreate
		}

		if _, err := w.Write(ctx, kind, id, nil); err != nil {
			c.Violation("write-failed", map[string]any{"err": err.Error()})
		}

		if rng.IntN(10) == 0 {
			_, _ = other.Write(ctx, wl.OpCreate, fmt.Sprintf("o%d", i), nil)
		}

		switch rng.IntN(6) {
		case 0:
			time.Sleep(time.Duration(rng.IntN(200)) * time.Microsecond)
		case 1:
			time.Sleep(0)
		}
	}

	starters.Wait()

	// quiescence: every non-errored consumer has caught up, or the (generous) watchdog fires -> inconclusive
	g := w.Log()
	deadline := time.Now().Add(20 * time.Second)
	caught := false

	for time.Now().Before(deadline) {
		caught = true

		consMu.Lock()
		for _, cn := range cons {
			if cn.done.Load() {
				continue
			}

			cn.mu.Lock()
			ps, _ := wl.CheckRec(g, cn.rec, cfg.Initial, true)
			cn.mu.Unlock()

			for _, p := range ps {
				if p.Sig == "stream-incomplete" || p.Sig == "bootstrap-incomplete" || p.Sig == "no-initial-event" {
					caught = false
				}
			}
		}
		consMu.Unlock()

		if caught {
			break
		}

		time.Sleep(2 * time.Millisecond)
	}

	time.Sleep(2 * time.Millisecond) // let trailing (illegal) events arrive

	cancel()
	wg.Wait()

	if !caught {
		c.Inconclusive(fmt.Sprintf("stress run %d: watchers did not catch up within the watchdog", k))
	}

	live, errored := 0, 0
	keyParts := []any{cfg, target, len(g)}

	for _, cn := range cons {
		ps, stt := wl.CheckRec(g, cn.rec, cfg.Initial, caught)
		live += stt.LiveEvents

		if stt.Errored {
			errored++
		}

		keyParts = append(keyParts, cn.rec.Kind, cn.rec.Lo, len(cn.rec.Events), stt.Errored)

		for _, p := range ps {
			c.Violation(p.Sig, map[string]any{"mode": "stress", "target": target, "config": cfg, "run": k, "problem": p, "log": g, "rec": cn.rec})
		}
	}

	midStart := 0

	for _, cn := range cons {
		if cn.rec.Lo > 0 && cn.rec.Lo < len(g) {
			midStart++
		}
	}

	c.Case(vk.Hash(keyParts...), len(g) > cfg.Initial && live > 0 && midStart > 0)
	c.Count("stress_runs", 1)
	c.Count("stress_watchers", len(cons))
	c.Count("stress_watchers_started_mid_history", midStart)
	c.Count("stress_watchers_errored", errored)
	c.Count("live_events_checked", live)
	c.Count("writes_committed", len(g))

	if k == 0 {
		c.Sample(map[string]any{"mode": "stress", "target": target, "config": cfg.String(), "writes": len(g), "watchers": len(cons), "errored": errored})
	}
}

// ---------------------------------------------------------------------------------------------
// establishment races: watches with bootstrap contents are opened over and over while a writer keeps committing. Each of them must
// deliver a snapshot that is the state after some prefix G[:s] (s between what was committed before the call and at its return)
// followed by exactly G[s:] - nothing that commits while the watch is being set up may fall between snapshot and stream.
func establishmentRaces(c *vk.C) {
	runs := c.N(6, 300)

	var wg sync.WaitGroup

	sem := make(chan struct{}, 4)

	for k := 0; k < runs; k++ {
		wg.Add(1)
		sem <- struct{}{}

		go func() {
			defer wg.Done()
			defer func() { <-sem }()

			establishmentRace(c, k)
		}()
	}

	wg.Wait()
}

func establishmentRace(c *vk.C, k int) {
	rng := rand.New(rand.NewPCG(uint64(c.Seed), uint64(9_800_000+k)))
	capacity := 8192

	ctx, cancel := context.WithCancel(context.Background())
	defer cancel()

	factory := inmem.NewStateWithOptions(inmem.WithHistoryInitialCapacity(capacity), inmem.WithHistoryMaxCapacity(capacity), inmem.WithHistoryGap(8))

	var st state.CoreState = factory("ns")
	if k%2 == 1 {
		st = namespaced.NewState(func(ns resource.Namespace) state.CoreState { return factory(ns) })
	}

	w := wl.NewWorld(st, "ns", res.TypeA, "e")
	ids := []string{"x", "y", "z", "u"}

	var (
		writerDone atomic.Bool
		wwg, owg   sync.WaitGroup
		recsMu     sync.Mutex
		recs       []*wl.Rec
	)

	wwg.Add(1)

	go func() {
		defer wwg.Done()
		defer writerDone.Store(true)

		for i := 0; i < 3000; i++ {
			id := ids[rng.IntN(len(ids))]
			kind := wl.OpUpdate

			switch {
			case !w.Exists(id):
				kind = wl.OpCreate
			case rng.IntN(8) == 0:
				kind = wl.OpDestroy
			}

			if _, err := w.Write(ctx, kind, id, nil); err != nil {
				c.Violation("write-failed", map[string]any{"err": err.Error()})

				return
			}

			if i%4 == 0 {
				time.Sleep(time.Duration(rng.IntN(40)) * time.Microsecond)
			}
		}
	}()

	for o := 0; o < 4; o++ {
		owg.Add(1)

		r := rand.New(rand.NewPCG(uint64(c.Seed), uint64(9_900_000+k*10+o)))

		go func() {
			defer owg.Done()

			for n := 0; n < 60 && !writerDone.Load(); n++ {
				rec := &wl.Rec{Kind: []string{"kind", "agg"}[r.IntN(2)], Boot: true, FromIdx: -2, Name: fmt.Sprintf("e%d-%d", o, n)}
				wctx, wcancel := context.WithCancel(ctx)
				ch := make(chan state.Event)
				agg := make(chan []state.Event)
				md := resource.NewMetadata("ns", res.TypeA, "", resource.VersionUndefined)

				rec.Lo = w.Len()

				var err error
				if rec.Kind == "kind" {
					err = st.WatchKind(wctx, md, ch, state.WithBootstrapContents(true))
				} else {
					err = st.WatchKindAggregated(wctx, md, agg, state.WithBootstrapContents(true))
				}

				rec.Hi = w.Len()

				if err != nil {
					wcancel()
					c.Violation("watch-establish-failed", map[string]any{"err": err.Error(), "rec": rec})

					return
				}

				// the snapshot, then a few live events (or until the stream has been idle for a while)
				live, batch := 0, 0
				want := 2 + r.IntN(6)

				for live < want {
					var evs []state.Event

					select {
					case ev := <-ch:
						evs = []state.Event{ev}
					case evs = <-agg:
					case <-time.After(30 * time.Millisecond):
						live = want
					}

					batch++

					for _, ev := range evs {
						e := w.Convert(ev, batch)
						rec.Append(e)

						if e.Idx >= 0 {
							live++
						}
					}
				}

				wcancel()

				recsMu.Lock()
				recs = append(recs, rec)
				recsMu.Unlock()

				time.Sleep(time.Duration(r.IntN(300)) * time.Microsecond)
			}
		}()
	}

	owg.Wait()
	wwg.Wait()

	g := w.Log()
	during := 0

	for _, rec := range recs {
		ps, _ := wl.CheckRec(g, rec, capacity, false)
		for _, p := range ps {
			c.Violation(p.Sig, map[string]any{"mode": "establishment-race", "run": k, "problem": p, "rec": rec, "log_len": len(g)})
		}

		if rec.Hi > rec.Lo {
			during++
		}
	}

	c.Count("bootstrap_watches_opened_under_writes", len(recs))
	c.Count("bootstrap_watches_with_commit_during_establishment", during)
	c.Case(vk.Hash("establishment-race", k, len(g), len(recs), during), during > 0)
}
