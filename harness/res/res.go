// Package res defines the resource types used by the harness workloads.
package res

import (
	"encoding/json"
	"maps"
	"math/rand/v2"
	"regexp"
	"slices"
	"strings"

	"github.com/cosi-project/runtime/pkg/resource"
	"github.com/cosi-project/runtime/pkg/resource/meta"
	"github.com/cosi-project/runtime/pkg/resource/protobuf"
	"github.com/cosi-project/runtime/pkg/resource/typed"
)

// Spec is a mutable spec with reference-typed fields (map, slice) so aliasing is observable.
type Spec struct {
	Token string            `yaml:"token" json:"token"`
	Val   int64             `yaml:"val" json:"val"`
	M     map[string]string `yaml:"m,omitempty" json:"m,omitempty"`
	S     []string          `yaml:"s,omitempty" json:"s,omitempty"`
}

// DeepCopy implements typed.DeepCopyable.
func (s Spec) DeepCopy() Spec {
	return Spec{Token: s.Token, Val: s.Val, M: maps.Clone(s.M), S: slices.Clone(s.S)}
}

// MarshalProto implements protobuf.ProtoMarshaler (opaque bytes on the wire).
func (s *Spec) MarshalProto() ([]byte, error) { return json.Marshal(s) }

// UnmarshalProto implements protobuf.ProtoUnmarshaler.
func (s *Spec) UnmarshalProto(b []byte) error {
	*s = Spec{}

	if len(b) == 0 {
		return nil
	}

	return json.Unmarshal(b, s)
}

// Types used by the harness.
const (
	TypeA = resource.Type("As.verif.cosi.dev")
	TypeB = resource.Type("Bs.verif.cosi.dev")
	TypeC = resource.Type("Cs.verif.cosi.dev")
	TypeD = resource.Type("Ds.verif.cosi.dev")
)

type (
	extA struct{}
	extB struct{}
	extC struct{}
	extD struct{}
)

func (extA) ResourceDefinition() meta.ResourceDefinitionSpec {
	return meta.ResourceDefinitionSpec{Type: TypeA, DefaultNamespace: "default"}
}

func (extB) ResourceDefinition() meta.ResourceDefinitionSpec {
	return meta.ResourceDefinitionSpec{Type: TypeB, DefaultNamespace: "default"}
}

func (extC) ResourceDefinition() meta.ResourceDefinitionSpec {
	return meta.ResourceDefinitionSpec{Type: TypeC, DefaultNamespace: "default"}
}

func (extD) ResourceDefinition() meta.ResourceDefinitionSpec {
	return meta.ResourceDefinitionSpec{Type: TypeD, DefaultNamespace: "default"}
}

type (
	// A is a harness resource type.
	A = typed.Resource[Spec, extA]
	// B is a harness resource type.
	B = typed.Resource[Spec, extB]
	// C is a harness resource type.
	C = typed.Resource[Spec, extC]
	// D is a harness resource type.
	D = typed.Resource[Spec, extD]
)

// NewA creates an A.
func NewA(ns, id string) *A {
	return typed.NewResource[Spec, extA](resource.NewMetadata(ns, TypeA, id, resource.VersionUndefined), Spec{})
}

// NewB creates a B.
func NewB(ns, id string) *B {
	return typed.NewResource[Spec, extB](resource.NewMetadata(ns, TypeB, id, resource.VersionUndefined), Spec{})
}

// NewC creates a C.
func NewC(ns, id string) *C {
	return typed.NewResource[Spec, extC](resource.NewMetadata(ns, TypeC, id, resource.VersionUndefined), Spec{})
}

// NewD creates a D.
func NewD(ns, id string) *D {
	return typed.NewResource[Spec, extD](resource.NewMetadata(ns, TypeD, id, resource.VersionUndefined), Spec{})
}

// New creates a resource of the given harness type.
func New(ns string, typ resource.Type, id string) resource.Resource {
	switch typ {
	case TypeA:
		return NewA(ns, id)
	case TypeB:
		return NewB(ns, id)
	case TypeC:
		return NewC(ns, id)
	case TypeD:
		return NewD(ns, id)
	}

	panic("unknown harness type " + typ)
}

// SpecOf returns the mutable spec of a harness resource (nil for foreign types / tombstones).
func SpecOf(r resource.Resource) *Spec {
	switch t := r.(type) {
	case *A:
		return t.TypedSpec()
	case *B:
		return t.TypedSpec()
	case *C:
		return t.TypedSpec()
	case *D:
		return t.TypedSpec()
	}

	if s, ok := r.Spec().(*Spec); ok {
		return s
	}

	return nil
}

// Token returns the spec token of a harness resource ("" if none).
func Token(r resource.Resource) string {
	if r == nil {
		return ""
	}

	if s := SpecOf(r); s != nil {
		return s.Token
	}

	return ""
}

var registered = false

// Register registers the harness types with the protobuf registry (idempotent, not concurrency safe; call from init/TestMain).
func Register() {
	if registered {
		return
	}

	registered = true

	must(protobuf.RegisterResource(TypeA, &A{}))
	must(protobuf.RegisterResource(TypeB, &B{}))
	must(protobuf.RegisterResource(TypeC, &C{}))
	must(protobuf.RegisterResource(TypeD, &D{}))
}

func must(err error) {
	if err != nil {
		panic(err)
	}
}

// GenIDRegexp returns a seeded regular expression over resource ids: literals taken from the ids (whole, prefix, infix,
// suffix; anchored at either, both or no end), classes, alternations, case-folded and degenerate forms. The reference answer
// is always regexp.MatchString itself - what is under test is that every path evaluates exactly that.
func GenIDRegexp(rng *rand.Rand, ids []string) *regexp.Regexp {
	id := ids[rng.IntN(len(ids))]
	lit := id

	if r := []rune(id); len(r) > 1 {
		switch rng.IntN(4) {
		case 0: // whole id
		case 1:
			lit = string(r[:1+rng.IntN(len(r)-1)])
		case 2:
			lit = string(r[1+rng.IntN(len(r)-1):])
		case 3:
			a := rng.IntN(len(r))
			lit = string(r[a : a+1+rng.IntN(len(r)-a)])
		}
	}

	q := regexp.QuoteMeta(lit)

	var expr string

	switch rng.IntN(14) {
	case 0, 1, 2:
		expr = q // unanchored literal: "contains"
	case 3:
		expr = "^" + q
	case 4:
		expr = q + "$"
	case 5:
		expr = "^" + q + "$"
	case 6:
		expr = "(?i)" + strings.ToUpper(q)
	case 7:
		expr = "^(" + regexp.QuoteMeta(id) + "|" + regexp.QuoteMeta(ids[rng.IntN(len(ids))]) + ")$"
	case 8:
		expr = q + "|" + regexp.QuoteMeta(ids[rng.IntN(len(ids))])
	case 9:
		expr = "^" + q + "."
	case 10:
		expr = "[" + regexp.QuoteMeta(string([]rune(id)[:1])) + "0-9]$"
	case 11:
		expr = ""
	case 12:
		expr = "^.$"
	case 13:
		expr = lit // unquoted: ids with metacharacters ("a.", "w-1") become real patterns
	}

	re, err := regexp.Compile(expr)
	if err != nil {
		return regexp.MustCompile(q)
	}

	return re
}
