package lc

import (
	"github.com/cosi-project/runtime/pkg/state"
	"github.com/cosi-project/runtime/pkg/state/protobuf/client"
	"github.com/cosi-project/runtime/pkg/state/protobuf/server"

	"verif/harness/gp"
	"verif/harness/lb"
)

// RemoteVariants are the server generations the client adapter has to cope with: every lifecycle RPC served natively, or answered
// Unimplemented (the adapter's client-side fall-backs run then).
var RemoteVariants = []string{"native", "no-teardown", "no-tad", "old-server"}

// RemoteWrap puts the gRPC client adapter, the loopback transport and the real server handlers between the helpers under test and the
// gate/recording proxy (the actor travels in the context, which the loopback hands to the handlers unchanged).
func RemoteWrap(variant string) func(px *gp.Proxy) state.State {
	return func(px *gp.Proxy) state.State {
		cli := lb.New(server.NewState(px))

		switch variant {
		case "no-teardown":
			cli.Hide("Teardown")
		case "no-tad":
			cli.Hide("TeardownAndDestroy")
		case "old-server":
			cli.Hide("Teardown")
			cli.Hide("TeardownAndDestroy")
		}

		return state.WrapCore(client.NewAdapter(cli))
	}
}
