// Package lc runs lifecycle scenarios (finalizers, teardown, destroy, read-modify-write helpers) against
// state.WrapCore(gate/recording proxy(inmem)) inside a synctest bubble and judges them over the proxy's commit log.
// It serves C03 (finalizers gate destruction; blocking helpers) and C04 (atomic read-modify-write helpers).
package lc

import (
	"context"
	"errors"
	"fmt"
	"math/rand/v2"
	"slices"
	"strings"
	"sync"
	"sync/atomic"
	"testing/synctest"
	"time"

	"github.com/cosi-project/runtime/pkg/resource"
	"github.com/cosi-project/runtime/pkg/safe"
	"github.com/cosi-project/runtime/pkg/state"
	"github.com/cosi-project/runtime/pkg/state/impl/inmem"

	"verif/harness/gp"
	"verif/harness/res"
)

// Call is one recorded helper / store call.
type Call struct {
	Tag      string `json:"tag"` // unique actor tag "<actor>#<n>"
	Op       string `json:"op"`
	ID       string `json:"id"`
	CallSeq  int    `json:"call_seq"`
	RetSeq   int    `json:"ret_seq"`
	Returned bool   `json:"returned"`
	Err      string `json:"err,omitempty"`
	// error classes
	NotFound, Conflict, OwnerConflict, PhaseConflict, CtxErr bool
	Ready                                                    *bool    `json:"ready,omitempty"`
	Res                                                      *gp.Snap `json:"res,omitempty"`
	Token                                                    string   `json:"token,omitempty"`
	Fin                                                      string   `json:"fin,omitempty"`
	Fins                                                     []string `json:"fins,omitempty"` // all finalizers named by the call (Fin is the first)
	Owner                                                    string   `json:"owner_opt"`
	Phase                                                    string   `json:"phase_opt,omitempty"` // running | tearingDown | any
	Mut                                                      string   `json:"mut,omitempty"`       // append | noop | fail
	Cond                                                     int      `json:"cond,omitempty"`
	CondN                                                    uint64   `json:"cond_n,omitempty"`
	Via                                                      string   `json:"via,omitempty"`
	CtxCancelled                                             bool     `json:"ctx_cancelled,omitempty"`
	CtxCause                                                 string   `json:"ctx_cause,omitempty"`
	At                                                       int64    `json:"at_ms"`

	tdCtx context.Context //nolint:containedctx
}

// Opts configures a scenario.
type Opts struct {
	Mix      string // "c03" | "c04"
	Actors   int
	Steps    int // per actor
	IDs      int
	MaxDelay int
	// Wrap optionally builds the state under test from the proxy-wrapped inmem (e.g. remote loopback); default state.WrapCore(proxy).
	Wrap func(px *gp.Proxy) state.State `json:"-"`
	// ThirdPartyAtWatch: right before a single-resource watch is established (the helpers' wait step), every third time a third party
	// strips the resource's finalizers and destroys it: the window "gone between the helper's mark and its watch" made deterministic
	ThirdPartyAtWatch bool
}

// Outcome is everything a scenario observed.
type Outcome struct {
	Calls   []*Call             `json:"calls"`
	Log     []gp.Commit         `json:"log"`
	Watches []gp.WatchRec       `json:"watches"`
	OpsHash string              `json:"ops_hash"`
	Final   map[string]*gp.Snap `json:"final"`
	Stuck   []string            `json:"stuck,omitempty"` // non-blocking helpers that never returned
	// Retries: store-level update attempts by helper calls beyond the commits they made (conflict retries observed).
	Retries int `json:"retries"`
	// ThirdPartyDestroys: resources removed by the third party right before a helper's watch was established
	ThirdPartyDestroys int `json:"third_party_destroys_at_watch,omitempty"`
}

var errMutator = errors.New("verif: mutator refused")

type runner struct {
	ThirdPartyDestroys atomic.Int64

	rng   *rand.Rand
	st    state.State
	px    *gp.Proxy
	mu    sync.Mutex
	calls []*Call
	seq   int
	start time.Time
	ids   []string
}

func (r *runner) newCall(actor, op, id string) (*Call, context.Context) {
	r.mu.Lock()
	r.seq++
	c := &Call{Tag: fmt.Sprintf("%s#%d", actor, r.seq), Op: op, ID: id, At: time.Since(r.start).Milliseconds()}
	r.calls = append(r.calls, c)
	r.mu.Unlock()

	return c, nil
}

func ptr(id string) resource.Pointer {
	return resource.NewMetadata("ns", res.TypeA, id, resource.VersionUndefined)
}

func (r *runner) finish(c *Call, err error) {
	c.RetSeq = r.px.Len()

	if err != nil {
		c.Err = err.Error()
		c.NotFound = state.IsNotFoundError(err)
		c.Conflict = state.IsConflictError(err)
		c.OwnerConflict = state.IsOwnerConflictError(err)
		c.PhaseConflict = state.IsPhaseConflictError(err)
		c.CtxErr = errors.Is(err, context.Canceled) || errors.Is(err, context.DeadlineExceeded)
	}

	r.mu.Lock()
	c.Returned = true
	r.mu.Unlock()
}

// Run executes one scenario; must be called inside a synctest bubble.
func Run(rng *rand.Rand, o Opts) *Outcome {
	root, cancel := context.WithCancel(context.Background())

	inner := inmem.NewState("ns")
	px := gp.New(inner, rand.New(rand.NewPCG(rng.Uint64(), 1)), o.MaxDelay)
	px.ReplyDelay = true
	px.TraceOps = true

	var st state.State
	if o.Wrap != nil {
		st = o.Wrap(px)
	} else {
		st = state.WrapCore(px)
	}

	r := &runner{rng: rng, st: st, px: px, start: time.Now()}

	if o.ThirdPartyAtWatch {
		var hmu sync.Mutex

		hrng := rand.New(rand.NewPCG(rng.Uint64(), 4711))
		third := state.WrapCore(px)
		tctx := gp.WithNoGate(gp.WithActor(root, "third-party-at-watch"))

		px.HoldWatch = func(kind string, k gp.Key) {
			hmu.Lock()
			fire := kind == "single" && hrng.IntN(3) == 0
			hmu.Unlock()

			if !fire {
				return
			}

			md := resource.NewMetadata(k.NS, k.Type, k.ID, resource.VersionUndefined)

			cur, err := third.Get(tctx, md)
			if err != nil {
				return
			}

			if all := slices.Clone([]string(*cur.Metadata().Finalizers())); len(all) > 0 {
				if err = third.RemoveFinalizer(tctx, md, all...); err != nil {
					return
				}
			}

			if third.Destroy(tctx, md, state.WithDestroyOwner(cur.Metadata().Owner())) == nil {
				r.ThirdPartyDestroys.Add(1)
			}
		}
	}

	for i := 0; i < o.IDs; i++ {
		r.ids = append(r.ids, fmt.Sprintf("r%d", i))
	}

	var (
		scripts sync.WaitGroup
		blocked sync.WaitGroup
	)

	for a := 0; a < o.Actors; a++ {
		arng := rand.New(rand.NewPCG(rng.Uint64(), uint64(a)))
		actor := fmt.Sprintf("a%d", a)

		scripts.Add(1)

		go func() {
			defer scripts.Done()

			for s := 0; s < o.Steps; s++ {
				time.Sleep(time.Duration(arng.IntN(4)) * time.Millisecond)
				r.step(root, arng, actor, o.Mix, &blocked)
			}
		}()
	}

	// non-blocking helpers must finish once contention stops: wait for the scripts with a virtual horizon
	done := make(chan struct{})

	go func() {
		scripts.Wait()
		close(done)
	}()

	var stuck []string

	select {
	case <-done:
	case <-time.After(5 * time.Second): // virtual; non-blocking helpers need a few dozen virtual ms once contention stops
		r.mu.Lock()
		for _, c := range r.calls {
			if !c.Returned && !blockingOp(c.Op) {
				stuck = append(stuck, fmt.Sprintf("%s %s %s", c.Tag, c.Op, c.ID))
			}
		}
		r.mu.Unlock()
	}

	// quiescence: nothing runnable, no timer due within the horizon
	if len(stuck) == 0 {
		time.Sleep(30 * time.Minute)
		synctest.Wait()
	}

	out := &Outcome{Log: px.Log(), Watches: px.Watches(), OpsHash: hashOps(px.Ops()), Stuck: stuck, Final: map[string]*gp.Snap{}, ThirdPartyDestroys: int(r.ThirdPartyDestroys.Load())}

	for k, v := range px.ShadowAll() {
		out.Final[k.ID] = v
	}

	attempts := map[string]int{}

	for _, op := range px.Ops() {
		if tag, ok := strings.CutSuffix(op, ":update"); ok {
			attempts[tag]++
		}
	}

	for _, c := range out.Log {
		if c.Op == "update" {
			attempts[c.Actor]--
		}
	}

	for _, n := range attempts {
		if n > 0 {
			out.Retries += n
		}
	}

	r.mu.Lock()

	for _, c := range r.calls {
		if c.tdCtx != nil {
			c.CtxCancelled = c.tdCtx.Err() != nil
			if cause := context.Cause(c.tdCtx); cause != nil {
				c.CtxCause = cause.Error()
			}
		}
	}

	out.Calls = slices.Clone(r.calls)
	r.mu.Unlock()

	// snapshot Returned flags before cancelling (blocked helpers return with ctx errors afterwards)
	snap := make([]*Call, len(out.Calls))
	for i, c := range out.Calls {
		cp := *c
		snap[i] = &cp
	}

	out.Calls = snap

	cancel()
	blocked.Wait()

	<-done // after cancellation every proxy operation fails fast, so stuck helpers unwind too

	synctest.Wait()

	return out
}

func blockingOp(op string) bool {
	return op == "tad" || op == "watchfor" || op == "ctxteardown"
}

func hashOps(ops []string) string {
	h := uint64(1469598103934665603)

	for _, s := range ops {
		for i := 0; i < len(s); i++ {
			h ^= uint64(s[i])
			h *= 1099511628211
		}

		h ^= 0xff
		h *= 1099511628211
	}

	return fmt.Sprintf("%016x", h)
}

type weight struct {
	op string
	w  int
}

var mixes = map[string][]weight{
	"c03": {
		{"create", 10}, {"addfin", 16}, {"rmfin", 18}, {"teardown", 10}, {"tad", 10}, {"destroy", 10},
		{"watchfor", 10}, {"ctxteardown", 6}, {"rawupdate", 6}, {"rmallfins", 4},
	},
	"c04": {
		{"create", 8}, {"uwc", 26}, {"modify", 16}, {"addfin", 10}, {"rmfin", 8}, {"teardown", 6}, {"rawupdate", 10},
		{"forcedestroy", 6}, {"recreate", 5}, {"destroy", 5},
	},
}

func pick(rng *rand.Rand, mix string) string {
	ws := mixes[mix]
	total := 0

	for _, w := range ws {
		total += w.w
	}

	x := rng.IntN(total)

	for _, w := range ws {
		if x < w.w {
			return w.op
		}

		x -= w.w
	}

	return ws[0].op
}

var (
	fins   = []string{"f1", "f2", "f3"}
	owners = []string{"", "", "", "own1"}
)

//nolint:gocyclo,cyclop,maintidx
func (r *runner) step(root context.Context, rng *rand.Rand, actor, mix string, blocked *sync.WaitGroup) {
	op := pick(rng, mix)
	id := r.ids[rng.IntN(len(r.ids))]
	c, _ := r.newCall(actor, op, id)
	ctx := gp.WithActor(root, c.Tag)
	c.CallSeq = r.px.Len()

	switch op {
	case "create", "recreate":
		c.Owner = owners[rng.IntN(len(owners))]
		if op == "recreate" {
			c.Owner = "other"
		}

		c.Token = c.Tag
		nr := res.NewA("ns", id)
		nr.TypedSpec().Token = c.Tag
		nr.TypedSpec().S = []string{c.Tag}
		err := r.st.Create(ctx, nr, state.WithCreateOwner(c.Owner))
		r.finish(c, err)
	case "rawupdate":
		// a plain compare-and-swap by a third party: Get, append own token, Update with the version read
		c.Token = c.Tag
		cur, err := r.st.Get(ctx, ptr(id))

		if err == nil {
			sp := res.SpecOf(cur)
			sp.S = append(sp.S, c.Tag)
			sp.Token = c.Tag
			c.Owner = cur.Metadata().Owner()
			c.Phase = "any"
			err = r.st.Update(ctx, cur, state.WithUpdateOwner(c.Owner), state.WithExpectedPhaseAny())
		}

		r.finish(c, err)
	case "destroy":
		c.Owner = owners[rng.IntN(len(owners))]
		r.finish(c, r.st.Destroy(ctx, ptr(id), state.WithDestroyOwner(c.Owner)))
	case "forcedestroy", "rmallfins":
		// adversary: strip every finalizer (and for forcedestroy remove the resource)
		cur, err := r.st.Get(ctx, ptr(id))
		if err == nil {
			all := slices.Clone([]string(*cur.Metadata().Finalizers()))
			if len(all) > 0 {
				err = r.st.RemoveFinalizer(ctx, ptr(id), all...)
			}

			if err == nil && op == "forcedestroy" {
				c.Owner = cur.Metadata().Owner()
				err = r.st.Destroy(ctx, ptr(id), state.WithDestroyOwner(c.Owner))
			}
		}

		r.finish(c, err)
	case "addfin", "rmfin":
		c.Fin = fins[rng.IntN(len(fins))]
		if mix == "c04" && op == "addfin" && rng.IntN(2) == 0 {
			c.Fin = "u-" + c.Tag // unique names: none may be lost
		}

		c.Fins = []string{c.Fin}

		// every third call names several finalizers at once (some may be there already, some not)
		if rng.IntN(3) == 0 {
			for _, f := range fins {
				if f != c.Fin && rng.IntN(2) == 0 {
					c.Fins = append(c.Fins, f)
				}
			}
		}

		var err error
		if op == "addfin" {
			err = r.st.AddFinalizer(ctx, ptr(id), c.Fins...)
		} else {
			err = r.st.RemoveFinalizer(ctx, ptr(id), c.Fins...)
		}

		r.finish(c, err)
	case "teardown":
		c.Owner = owners[rng.IntN(len(owners))]
		ready, err := r.st.Teardown(ctx, ptr(id), state.WithTeardownOwner(c.Owner))

		if err == nil {
			c.Ready = &ready
		}

		r.finish(c, err)
	case "uwc":
		c.Owner = owners[rng.IntN(len(owners))]
		c.Phase = []string{"running", "running", "any", "tearingDown"}[rng.IntN(4)]
		c.Mut = []string{"append", "append", "append", "noop", "fail", "idem", "idem"}[rng.IntN(7)]
		c.Token = c.Tag
		c.Via = []string{"state", "safe"}[rng.IntN(2)]

		opts := []state.UpdateOption{state.WithUpdateOwner(c.Owner)}

		switch c.Phase {
		case "any":
			opts = append(opts, state.WithExpectedPhaseAny())
		case "tearingDown":
			opts = append(opts, state.WithExpectedPhase(resource.PhaseTearingDown))
		}

		mut := r.mutator(c)

		var (
			out resource.Resource
			err error
		)

		if c.Via == "safe" {
			var typed *res.A

			typed, err = safe.StateUpdateWithConflicts(ctx, r.st, ptr(id), func(a *res.A) error { return mut(a) }, opts...)
			if typed != nil {
				out = typed
			}
		} else {
			out, err = r.st.UpdateWithConflicts(ctx, ptr(id), mut, opts...)
		}

		if err == nil && out != nil {
			c.Res = gp.SnapOf(out)
		}

		r.finish(c, err)
	case "modify":
		c.Owner = owners[rng.IntN(len(owners))]
		c.Phase = "running"
		c.Mut = []string{"append", "append", "noop", "fail"}[rng.IntN(4)]
		c.Token = c.Tag
		c.Via = []string{"state", "safe", "result"}[rng.IntN(3)]
		mut := r.mutator(c)
		opts := []state.UpdateOption{state.WithUpdateOwner(c.Owner)}

		var (
			out resource.Resource
			err error
		)

		switch c.Via {
		case "state":
			err = r.st.Modify(ctx, res.NewA("ns", id), mut, opts...)
		case "result":
			out, err = r.st.ModifyWithResult(ctx, res.NewA("ns", id), mut, opts...)
		case "safe":
			var typed *res.A

			typed, err = safe.StateModifyWithResult(ctx, r.st, res.NewA("ns", id), func(a *res.A) error { return mut(a) }, opts...)
			if typed != nil {
				out = typed
			}
		}

		if err == nil && out != nil {
			c.Res = gp.SnapOf(out)
		}

		r.finish(c, err)
	case "tad":
		c.Owner = owners[rng.IntN(len(owners))]

		blocked.Add(1)

		go func() {
			defer blocked.Done()

			r.finish(c, r.st.TeardownAndDestroy(ctx, ptr(id), state.WithTeardownAndDestroyOwner(c.Owner)))
		}()
	case "watchfor":
		c.Cond = rng.IntN(5)
		c.CondN = uint64(1 + rng.IntN(6))

		blocked.Add(1)

		go func() {
			defer blocked.Done()

			out, err := r.st.WatchFor(ctx, ptr(id), condFuncs(c.Cond, c.CondN)...)
			if err == nil {
				c.Res = gp.SnapOf(out)
			}

			r.finish(c, err)
		}()
	case "ctxteardown":
		tctx, err := r.st.ContextWithTeardown(ctx, ptr(id))
		if err == nil {
			c.tdCtx = tctx
		}

		r.finish(c, err)
	}
}

// IdemFinalizer is the finalizer the idempotent mutators add.
const IdemFinalizer = "idem"

func (r *runner) mutator(c *Call) func(resource.Resource) error {
	return func(x resource.Resource) error {
		switch c.Mut {
		case "fail":
			return errMutator
		case "noop":
			return nil
		case "idem":
			// an idempotent change several actors make alike: it is a real write for the first one and a no-op for whoever comes
			// (or retries) after it
			x.Metadata().Finalizers().Add(IdemFinalizer)

			return nil
		}

		sp := res.SpecOf(x)
		sp.S = append(sp.S, c.Token)
		sp.Token = c.Token

		return nil
	}
}

func condFuncs(cond int, n uint64) []state.WatchForConditionFunc {
	switch cond {
	case 0:
		return []state.WatchForConditionFunc{state.WithEventTypes(state.Destroyed)}
	case 1:
		return []state.WatchForConditionFunc{state.WithEventTypes(state.Created, state.Updated), state.WithPhases(resource.PhaseTearingDown)}
	case 2:
		return []state.WatchForConditionFunc{state.WithEventTypes(state.Created, state.Updated), state.WithFinalizerEmpty()}
	case 3:
		return []state.WatchForConditionFunc{state.WithEventTypes(state.Created, state.Updated), state.WithFinalizerEmpty(), state.WithPhases(resource.PhaseTearingDown)}
	default:
		return []state.WatchForConditionFunc{state.WithEventTypes(state.Created, state.Updated), state.WithCondition(func(r resource.Resource) (bool, error) {
			return r.Metadata().Version().Value() >= n, nil
		})}
	}
}

// CondHolds evaluates condition cond on a state (nil = absent).
func CondHolds(cond int, n uint64, s *gp.Snap) bool {
	switch cond {
	case 0:
		return s == nil
	case 1:
		return s != nil && s.TearingDown()
	case 2:
		return s != nil && len(s.Fins) == 0
	case 3:
		return s != nil && len(s.Fins) == 0 && s.TearingDown()
	default:
		return s != nil && s.Ver >= n
	}
}
