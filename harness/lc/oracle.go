package lc

import (
	"fmt"
	"slices"

	"verif/harness/gp"
)

// Problem is one oracle failure.
type Problem struct {
	Sig    string `json:"sig"`
	Detail string `json:"detail"`
	Call   *Call  `json:"call,omitempty"`
}

// Cover are coverage facts of one scenario.
type Cover struct {
	Commits, Destroys, Retries                                      int
	TeardownReady, TeardownNotReady, TadOK, TadErr, TadBlocked      int
	WatchForOK, WatchForBlocked, CtxCancelled, CtxLive              int
	WinFinRemovedBetweenMarkAndWatch, WinThirdPartyDestroy          int
	WinPendingAtDestroy                                             int
	UwcIdem                                                         int
	UwcOK, UwcNoop, UwcErr, ModifyCreate, ModifyUpdate, ErrNoEffect int
	OwnerConflicts, PhaseConflicts, CtxAmbiguous, ABA               int
}

func key(id string) gp.Key { return gp.Key{NS: "ns", Type: "As.verif.cosi.dev", ID: id} }

func commitsOf(log []gp.Commit, tag string) []gp.Commit {
	var out []gp.Commit

	for _, c := range log {
		if c.Actor == tag && c.Op != "note" {
			out = append(out, c)
		}
	}

	return out
}

func watchOf(ws []gp.WatchRec, tag string) (gp.WatchRec, bool) {
	for _, w := range ws {
		if w.Actor == tag && w.Err == "" {
			return w, true
		}
	}

	return gp.WatchRec{}, false
}

func snapEq(a, b *gp.Snap) bool {
	if a == nil || b == nil {
		return a == b
	}

	fa, fb := slices.Clone(a.Fins), slices.Clone(b.Fins)
	slices.Sort(fa)
	slices.Sort(fb)

	return a.Ver == b.Ver && a.Owner == b.Owner && a.Phase == b.Phase && slices.Equal(fa, fb) && a.Token == b.Token && slices.Equal(a.S, b.S)
}

// CheckC03 judges finalizer gating and the blocking helpers.
//
//nolint:gocyclo,cyclop,gocognit,maintidx
func CheckC03(o *Outcome) ([]Problem, Cover) {
	var (
		ps  []Problem
		cov Cover
	)

	bad := func(c *Call, sig, f string, a ...any) {
		ps = append(ps, Problem{Sig: sig, Detail: fmt.Sprintf(f, a...), Call: c})
	}

	cov.Commits = len(o.Log)

	// S1: a resource is never removed while it holds a finalizer
	for _, c := range o.Log {
		if c.Op == "destroy" {
			cov.Destroys++

			if c.Pre == nil {
				bad(nil, "destroy-of-absent", "commit %d destroys %s which the log says is absent", c.Seq, c.Key)
			} else if len(c.Pre.Fins) > 0 {
				bad(nil, "destroyed-with-finalizers", "commit %d by %s destroyed %s holding finalizers %v", c.Seq, c.Actor, c.Key, c.Pre.Fins)
			}
		}
	}

	for _, s := range o.Stuck {
		bad(nil, "helper-never-returned", "non-blocking call %s did not return within the virtual horizon", s)
	}

	for _, c := range o.Calls {
		L := gp.StatesOf(o.Log, key(c.ID))
		ret := c.RetSeq

		if !c.Returned {
			ret = len(o.Log)
		}

		switch c.Op {
		case "teardown":
			if !c.Returned || c.Err != "" || c.Ready == nil {
				continue
			}

			if !*c.Ready {
				cov.TeardownNotReady++

				continue
			}

			cov.TeardownReady++

			// ready => finalizers were empty when the teardown took effect
			var marking *gp.Commit

			for _, m := range commitsOf(o.Log, c.Tag) {
				if m.Op == "update" && m.Pre != nil && !m.Pre.TearingDown() && m.Post.TearingDown() {
					mm := m
					marking = &mm
				}
			}

			if marking != nil {
				if len(marking.Post.Fins) > 0 {
					bad(c, "teardown-ready-with-finalizers", "Teardown returned ready=true but its own marking commit %d carries finalizers %v", marking.Seq, marking.Post.Fins)
				}

				continue
			}

			ok := false

			for k := c.CallSeq; k <= ret && k < len(L); k++ {
				if L[k] != nil && L[k].TearingDown() && len(L[k].Fins) == 0 {
					ok = true
				}
			}

			if !ok {
				bad(c, "teardown-ready-with-finalizers", "Teardown returned ready=true but no state of %s within its call interval [%d,%d] is tearing-down without finalizers", c.ID, c.CallSeq, ret)
			}
		case "tad":
			switch {
			case !c.Returned:
				cov.TadBlocked++

				final := L[len(L)-1]
				if final == nil || len(final.Fins) == 0 {
					// it could legitimately be blocked only if it never got to wait: it did (it is blocked in the helper)
					bad(c, "teardown-and-destroy-lost-wakeup", "TeardownAndDestroy still blocked at quiescence although %s is %s", c.ID, describe(final))
				}
			case c.Err == "":
				cov.TadOK++

				found := false

				for _, m := range o.Log[c.CallSeq:min(ret, len(o.Log))] {
					if m.Op == "destroy" && m.Key == key(c.ID) {
						found = true

						if m.Actor != c.Tag {
							cov.WinThirdPartyDestroy++
						}
					}
				}

				if !found {
					bad(c, "teardown-and-destroy-success-without-destroy", "TeardownAndDestroy returned nil but %s was not destroyed within [%d,%d)", c.ID, c.CallSeq, ret)
				}
			default:
				cov.TadErr++

				if c.Conflict && !c.OwnerConflict && !c.PhaseConflict {
					cov.WinPendingAtDestroy++
				}
			}

			// window: a finalizer removed between the helper's marking commit and its watch
			if w, ok := watchOf(o.Watches, c.Tag); ok {
				for _, m := range commitsOf(o.Log, c.Tag) {
					if m.Op == "update" && m.Post.TearingDown() {
						for _, x := range o.Log[m.Seq+1 : min(w.Hi, len(o.Log))] {
							if x.Key == key(c.ID) && x.Op == "update" && x.Pre != nil && len(x.Post.Fins) < len(x.Pre.Fins) {
								cov.WinFinRemovedBetweenMarkAndWatch++
							}
						}
					}
				}
			}
		case "watchfor":
			w, ok := watchOf(o.Watches, c.Tag)
			if !ok {
				continue
			}

			first := func(e int) int {
				for k := e; k < len(L); k++ {
					if CondHolds(c.Cond, c.CondN, L[k]) {
						return k
					}
				}

				return -1
			}

			if !c.Returned {
				cov.WatchForBlocked++

				if j := first(w.Hi); j >= 0 {
					bad(c, "watchfor-missed-state", "WatchFor(cond %d,n=%d) still blocked at quiescence although state %d of %s (%s) satisfies it (watch established in [%d,%d])",
						c.Cond, c.CondN, j, c.ID, describe(L[j]), w.Lo, w.Hi)
				}

				continue
			}

			if c.Err != "" {
				continue
			}

			cov.WatchForOK++
			okAny := false

			var want []string

			for e := w.Lo; e <= w.Hi && e < len(L); e++ {
				j := first(e)
				if j < 0 || j > ret {
					continue
				}

				want = append(want, fmt.Sprintf("e=%d->state %d %s", e, j, describe(L[j])))

				if c.Cond == 0 || snapEq(L[j], c.Res) {
					okAny = true
				}
			}

			if !okAny {
				bad(c, "watchfor-not-first-satisfying-state", "WatchFor(cond %d,n=%d) returned %s; admissible first satisfying states: %v (watch established in [%d,%d], returned at %d)",
					c.Cond, c.CondN, describe(c.Res), want, w.Lo, w.Hi, ret)
			}
		case "ctxteardown":
			if c.Err != "" || !c.Returned {
				continue
			}

			w, ok := watchOf(o.Watches, c.Tag)
			if !ok {
				continue
			}

			should := func(e int) bool {
				for k := e; k < len(L); k++ {
					if L[k] == nil || L[k].TearingDown() {
						return true
					}
				}

				return false
			}

			lo, hi := should(w.Lo), should(min(w.Hi, len(L)-1))
			if lo != hi {
				cov.CtxAmbiguous++

				continue
			}

			if c.CtxCancelled {
				cov.CtxCancelled++
			} else {
				cov.CtxLive++
			}

			if c.CtxCancelled != lo {
				sig := "teardown-context-not-cancelled"
				if c.CtxCancelled {
					sig = "teardown-context-cancelled-spuriously"
				}

				bad(c, sig, "ContextWithTeardown(%s): cancelled=%v (cause %q) but torn-down/absent state from establishment [%d,%d] on: %v", c.ID, c.CtxCancelled, c.CtxCause, w.Lo, w.Hi, lo)
			}
		}
	}

	return ps, cov
}

func describe(s *gp.Snap) string {
	if s == nil {
		return "absent"
	}

	return fmt.Sprintf("{v%d %s owner=%q fins=%v S=%v}", s.Ver, s.Phase, s.Owner, s.Fins, s.S)
}

func isPrefix(a, b []string) bool { return len(a) <= len(b) && slices.Equal(a, b[:len(a)]) }

func sameSet(a, b []string) bool {
	x, y := slices.Clone(a), slices.Clone(b)
	slices.Sort(x)
	slices.Sort(y)

	return slices.Equal(slices.Compact(x), slices.Compact(y))
}

func phaseOK(opt string, s *gp.Snap) bool {
	switch opt {
	case "any":
		return true
	case "tearingDown":
		return s.TearingDown()
	default:
		return !s.TearingDown()
	}
}

// stepOK reports whether post is exactly the call's mutation applied to from.
func stepOK(c *Call, from, post *gp.Snap) bool {
	if from == nil || post == nil || post.Ver != from.Ver+1 {
		return false
	}

	switch c.Op {
	case "uwc", "modify", "rawupdate":
		if c.Mut == "idem" {
			return slices.Equal(post.S, from.S) && sameSet(append(slices.Clone(from.Fins), IdemFinalizer), post.Fins) && from.Phase == post.Phase
		}

		return slices.Equal(post.S, append(slices.Clone(from.S), c.Token)) && sameSet(from.Fins, post.Fins) && from.Phase == post.Phase
	case "addfin":
		return sameSet(append(slices.Clone(from.Fins), c.Fins...), post.Fins) && slices.Equal(from.S, post.S) && from.Phase == post.Phase
	case "rmfin":
		return sameSet(slices.DeleteFunc(slices.Clone(from.Fins), func(f string) bool { return slices.Contains(c.Fins, f) }), post.Fins) && slices.Equal(from.S, post.S) && from.Phase == post.Phase
	case "teardown":
		return !from.TearingDown() && post.TearingDown() && sameSet(from.Fins, post.Fins) && slices.Equal(from.S, post.S)
	case "forcedestroy", "rmallfins":
		return len(post.Fins) == 0 && slices.Equal(from.S, post.S) && from.Phase == post.Phase
	}

	return false
}

// abaExplains reports whether commit m of call c is the call's mutation applied to a value of an EARLIER incarnation of the
// resource that was read during the call and happened to carry the same version number as the value it overwrote
// (destroy + re-create + updates back to the same version inside the helper's read-to-write window).
func abaExplains(o *Outcome, c *Call, m gp.Commit) bool {
	if c == nil || m.Pre == nil || m.Post == nil {
		return false
	}

	L := gp.StatesOf(o.Log, m.Key)

	for k := c.CallSeq; k <= m.Seq && k < len(L); k++ {
		if L[k] == nil || L[k].Ver != m.Pre.Ver || !stepOK(c, L[k], m.Post) {
			continue
		}

		for _, x := range o.Log[k:m.Seq] {
			if x.Key == m.Key && x.Op == "destroy" {
				return true
			}
		}
	}

	return false
}

func callOf(o *Outcome, tag string) *Call {
	for _, c := range o.Calls {
		if c.Tag == tag {
			return c
		}
	}

	return nil
}

// SigABA is the signature of the recorded known finding.
const SigABA = "aba-recreate-same-version"

// CheckC04 judges atomicity of the read-modify-write helpers.
//
//nolint:gocyclo,cyclop,gocognit,maintidx
func CheckC04(o *Outcome) ([]Problem, Cover) {
	var (
		ps  []Problem
		cov Cover
	)

	bad := func(c *Call, sig, f string, a ...any) {
		ps = append(ps, Problem{Sig: sig, Detail: fmt.Sprintf(f, a...), Call: c})
	}

	cov.Commits = len(o.Log)

	// global: within an incarnation nothing written is ever lost, and every update adds at most one token
	aba := map[int]bool{}

	for _, c := range o.Log {
		if c.Op != "update" || c.Pre == nil {
			continue
		}

		okS := isPrefix(c.Pre.S, c.Post.S) && len(c.Post.S) <= len(c.Pre.S)+1
		if okS && c.Post.Ver == c.Pre.Ver+1 && c.Post.Owner == c.Pre.Owner {
			continue
		}

		if abaExplains(o, callOf(o, c.Actor), c) {
			aba[c.Seq] = true
			cov.ABA++

			bad(callOf(o, c.Actor), SigABA, "commit %d by %s on %s: %s -> %s: the helper wrote its mutation of a value read from an earlier incarnation (destroyed and re-created to the same version meanwhile)",
				c.Seq, c.Actor, c.Key, describe(c.Pre), describe(c.Post))

			continue
		}

		switch {
		case !okS:
			bad(nil, "lost-or-duplicated-mutation", "commit %d by %s on %s: S %v -> %v (earlier mutations must be kept, at most one added)", c.Seq, c.Actor, c.Key, c.Pre.S, c.Post.S)
		case c.Post.Ver != c.Pre.Ver+1:
			bad(nil, "version-not-bumped-by-one", "commit %d: version %d -> %d", c.Seq, c.Pre.Ver, c.Post.Ver)
		default:
			bad(nil, "owner-changed-by-update", "commit %d: owner %q -> %q", c.Seq, c.Pre.Owner, c.Post.Owner)
		}
	}

	// how often each call's own token was newly written by that call
	tokenCommits := map[string]int{}

	for _, c := range o.Log {
		if c.Post == nil || !slices.Contains(c.Post.S, c.Actor) {
			continue
		}

		if c.Pre == nil || !slices.Contains(c.Pre.S, c.Actor) || aba[c.Seq] {
			tokenCommits[c.Actor]++
		}
	}

	for _, s := range o.Stuck {
		bad(nil, "helper-never-returned", "non-blocking call %s did not return within the virtual horizon (conflict retried forever?)", s)
	}

	for _, c := range o.Calls {
		if !c.Returned {
			continue
		}

		mine := commitsOf(o.Log, c.Tag)
		L := gp.StatesOf(o.Log, key(c.ID))
		ret := min(c.RetSeq, len(L)-1)

		if slices.ContainsFunc(mine, func(m gp.Commit) bool { return aba[m.Seq] }) {
			continue // already reported under the known-finding signature
		}

		if c.Err == "" {
			isABA := false

			for _, m := range mine {
				if m.Op == "update" && !stepOK(c, m.Pre, m.Post) && abaExplains(o, c, m) {
					isABA = true
					cov.ABA++

					bad(c, SigABA, "commit %d by %s on %s: %s -> %s: the helper wrote its mutation of a value read from an earlier incarnation (destroyed and re-created to the same version meanwhile)",
						m.Seq, m.Actor, m.Key, describe(m.Pre), describe(m.Post))
				}
			}

			if isABA {
				continue
			}
		}

		inInterval := func(pred func(*gp.Snap) bool) bool {
			for k := c.CallSeq; k <= ret; k++ {
				if pred(L[k]) {
					return true
				}
			}

			return false
		}

		switch c.Op {
		case "uwc", "modify":
			if c.Err != "" {
				cov.UwcErr++

				if c.OwnerConflict {
					cov.OwnerConflicts++
				}

				if c.PhaseConflict {
					cov.PhaseConflicts++
				}

				if len(mine) != 0 || tokenCommits[c.Token] != 0 {
					bad(c, "failed-call-had-effect", "%s returned error %q but committed %d writes (token seen %d times)", c.Op, c.Err, len(mine), tokenCommits[c.Token])
				} else {
					cov.ErrNoEffect++
				}

				continue
			}

			switch c.Mut {
			case "append":
				if len(mine) != 1 || tokenCommits[c.Token] != 1 {
					bad(c, "mutation-not-applied-exactly-once", "%s reported success but its mutation %s was committed %d times (%d commits by the call)", c.Op, c.Token, tokenCommits[c.Token], len(mine))

					continue
				}

				m := mine[0]

				switch m.Op {
				case "create":
					cov.ModifyCreate++

					if c.Op != "modify" {
						bad(c, "update-created-resource", "UpdateWithConflicts created %s", c.ID)
					}

					if m.Post.Owner != c.Owner || m.Post.Ver != 1 || !slices.Equal(m.Post.S, []string{c.Token}) {
						bad(c, "modify-create-wrong", "Modify created %s as %s, want owner %q v1 S=[%s]", c.ID, describe(m.Post), c.Owner, c.Token)
					}
				case "update":
					if c.Op == "modify" {
						cov.ModifyUpdate++
					} else {
						cov.UwcOK++
					}

					if m.Pre == nil || !slices.Equal(m.Post.S, append(slices.Clone(m.Pre.S), c.Token)) || !sameSet(m.Pre.Fins, m.Post.Fins) || m.Pre.Phase != m.Post.Phase {
						bad(c, "mutation-not-on-top-of-current", "%s commit %d: %s -> %s, want exactly +%s", c.Op, m.Seq, describe(m.Pre), describe(m.Post), c.Token)
					}

					if m.Pre != nil && m.Pre.Owner != c.Owner {
						bad(c, "owner-conflict-retried-into-success", "%s with owner option %q committed on a resource owned by %q", c.Op, c.Owner, m.Pre.Owner)
					}

					if m.Pre != nil && !phaseOK(c.Phase, m.Pre) {
						bad(c, "phase-conflict-retried-into-success", "%s expecting phase %s committed on a resource in phase %s", c.Op, c.Phase, m.Pre.Phase)
					}
				default:
					bad(c, "unexpected-commit", "%s committed a %s", c.Op, m.Op)
				}

				if c.Res != nil && !snapEq(c.Res, m.Post) {
					bad(c, "returned-object-differs-from-commit", "%s returned %s but committed %s", c.Op, describe(c.Res), describe(m.Post))
				}
			case "noop":
				cov.UwcNoop++

				// a no-op mutator on an existing resource writes nothing; Modify on an absent one creates it (with the untouched spec)
				if len(mine) > 1 || (len(mine) == 1 && !(c.Op == "modify" && mine[0].Op == "create")) {
					bad(c, "noop-mutator-wrote", "%s with a no-op mutator committed %d writes", c.Op, len(mine))

					continue
				}

				if len(mine) == 0 {
					if c.Res != nil && !inInterval(func(s *gp.Snap) bool { return snapEq(s, c.Res) }) {
						bad(c, "noop-returned-value-never-current", "%s (no-op) returned %s which was never the value of %s during the call [%d,%d]", c.Op, describe(c.Res), c.ID, c.CallSeq, ret)
					}

					if !inInterval(func(s *gp.Snap) bool { return s != nil && phaseOK(c.Phase, s) }) {
						bad(c, "phase-conflict-retried-into-success", "%s (no-op) expecting phase %s succeeded but %s never was in that phase during the call", c.Op, c.Phase, c.ID)
					}
				}
			case "idem":
				cov.UwcIdem++

				switch len(mine) {
				case 0:
					// nothing written: the change was there already - in a value that also satisfies the caller's expected phase
					if !inInterval(func(s *gp.Snap) bool {
						return s != nil && slices.Contains(s.Fins, IdemFinalizer) && phaseOK(c.Phase, s)
					}) {
						bad(c, "phase-conflict-retried-into-success", "%s (idempotent change, nothing written) expecting phase %s succeeded, but %s never had the change while in that phase during the call [%d,%d]",
							c.Op, c.Phase, c.ID, c.CallSeq, ret)
					}

					if c.Res != nil && !inInterval(func(s *gp.Snap) bool { return snapEq(s, c.Res) }) {
						bad(c, "noop-returned-value-never-current", "%s (idempotent change, nothing written) returned %s which was never the value of %s during the call [%d,%d]", c.Op, describe(c.Res), c.ID, c.CallSeq, ret)
					}
				case 1:
					m := mine[0]

					if m.Op != "update" || m.Pre == nil || !sameSet(append(slices.Clone(m.Pre.Fins), IdemFinalizer), m.Post.Fins) || !slices.Equal(m.Pre.S, m.Post.S) || m.Pre.Phase != m.Post.Phase {
						bad(c, "mutation-not-on-top-of-current", "%s (idempotent change) commit %d: %s -> %s", c.Op, m.Seq, describe(m.Pre), describe(m.Post))
					} else {
						if m.Pre.Owner != c.Owner {
							bad(c, "owner-conflict-retried-into-success", "%s with owner option %q committed on a resource owned by %q", c.Op, c.Owner, m.Pre.Owner)
						}

						if !phaseOK(c.Phase, m.Pre) {
							bad(c, "phase-conflict-retried-into-success", "%s expecting phase %s committed on a resource in phase %s", c.Op, c.Phase, m.Pre.Phase)
						}
					}

					if c.Res != nil && !snapEq(c.Res, m.Post) {
						bad(c, "returned-object-differs-from-commit", "%s returned %s but committed %s", c.Op, describe(c.Res), describe(m.Post))
					}
				default:
					bad(c, "mutation-not-applied-exactly-once", "%s (idempotent change) committed %d writes", c.Op, len(mine))
				}
			case "fail":
				bad(c, "failing-mutator-reported-success", "%s whose mutator fails reported success", c.Op)
			}
		case "addfin", "rmfin":
			add := c.Op == "addfin"

			if c.Err != "" {
				if len(mine) != 0 {
					bad(c, "failed-call-had-effect", "%s returned error %q but committed %d writes", c.Op, c.Err, len(mine))
				}

				continue
			}

			// nothing to do: every named finalizer is there already (add) / none of them is there (remove)
			done := func(s *gp.Snap) bool {
				for _, f := range c.Fins {
					if slices.Contains(s.Fins, f) != add {
						return false
					}
				}

				return true
			}

			switch len(mine) {
			case 0:
				if !inInterval(func(s *gp.Snap) bool { return s != nil && done(s) }) {
					bad(c, "finalizer-change-lost", "%s(%v) reported success without writing although %s never %s during the call", c.Op, c.Fins, c.ID, map[bool]string{true: "had all of them", false: "lacked all of them"}[add])
				}
			case 1:
				m := mine[0]
				want := slices.Clone(m.Pre.Fins)

				if add {
					want = append(want, c.Fins...)
				} else {
					want = slices.DeleteFunc(want, func(f string) bool { return slices.Contains(c.Fins, f) })
				}

				if !sameSet(want, m.Post.Fins) || !slices.Equal(m.Pre.S, m.Post.S) || m.Pre.Phase != m.Post.Phase {
					bad(c, "finalizer-change-not-on-top-of-current", "%s(%s) commit %d: %s -> %s", c.Op, c.Fin, m.Seq, describe(m.Pre), describe(m.Post))
				}
			default:
				bad(c, "mutation-not-applied-exactly-once", "%s(%s) committed %d writes", c.Op, c.Fin, len(mine))
			}
		case "teardown":
			if c.Err != "" {
				if len(mine) != 0 {
					bad(c, "failed-call-had-effect", "Teardown returned error %q but committed %d writes", c.Err, len(mine))
				}

				continue
			}

			switch len(mine) {
			case 0:
				if !inInterval(func(s *gp.Snap) bool { return s.TearingDown() }) {
					bad(c, "teardown-lost", "Teardown reported success without writing although %s was never tearing down during the call", c.ID)
				}
			case 1:
				m := mine[0]
				if m.Pre == nil || m.Pre.TearingDown() || !m.Post.TearingDown() || !sameSet(m.Pre.Fins, m.Post.Fins) || !slices.Equal(m.Pre.S, m.Post.S) {
					bad(c, "teardown-not-on-top-of-current", "Teardown commit %d: %s -> %s", m.Seq, describe(m.Pre), describe(m.Post))
				}

				if m.Pre != nil && m.Pre.Owner != c.Owner {
					bad(c, "owner-conflict-retried-into-success", "Teardown with owner option %q committed on a resource owned by %q", c.Owner, m.Pre.Owner)
				}

				// the returned flag reflects the value this call wrote (C04: "the returned object reflects it")
				if c.Ready != nil && *c.Ready != (len(m.Post.Fins) == 0) {
					bad(c, "teardown-result-does-not-reflect-its-commit", "Teardown returned ready=%v but the value it committed at %d is %s", *c.Ready, m.Seq, describe(m.Post))
				}
			default:
				bad(c, "mutation-not-applied-exactly-once", "Teardown committed %d writes", len(mine))
			}
		}
	}

	// unique finalizers added successfully and never removed must still be there (per incarnation)
	for _, c := range o.Calls {
		if c.Op == "addfin" && c.Returned && c.Err == "" && len(c.Fin) > 2 && c.Fin[:2] == "u-" {
			mine := commitsOf(o.Log, c.Tag)
			if len(mine) != 1 {
				continue
			}

			// follow the incarnation until it ends
			for _, x := range o.Log[mine[0].Seq+1:] {
				if x.Key != mine[0].Key {
					continue
				}

				if x.Op == "destroy" {
					bad(c, "destroyed-with-finalizers", "resource destroyed at %d while unique finalizer %s was never removed", x.Seq, c.Fin)

					break
				}

				if x.Op == "update" && !slices.Contains(x.Post.Fins, c.Fin) {
					if x.Pre != nil && slices.Contains(x.Pre.Fins, c.Fin) && !removerOf(o, x.Actor) && !aba[x.Seq] {
						if wc := callOf(o, x.Actor); abaExplains(o, wc, x) {
							// the writer's mutation was computed from a value of an earlier incarnation with the same version number:
							// the recorded ABA finding (here it shows only in the finalizer set, the token list happened to agree)
							aba[x.Seq] = true
							cov.ABA++

							bad(wc, SigABA, "commit %d by %s on %s: %s -> %s: the helper wrote its mutation of a value read from an earlier incarnation (destroyed and re-created to the same version meanwhile); finalizer %s of the new incarnation is gone",
								x.Seq, x.Actor, x.Key, describe(x.Pre), describe(x.Post), c.Fin)
						} else {
							bad(c, "finalizer-lost", "unique finalizer %s vanished in commit %d by %s", c.Fin, x.Seq, x.Actor)
						}
					}

					break
				}
			}
		}
	}

	// retries observed: helper calls that issued more store updates than they committed are not visible here; count conflicts through the op trace instead
	return ps, cov
}

func removerOf(o *Outcome, tag string) bool {
	for _, c := range o.Calls {
		if c.Tag == tag {
			return c.Op == "rmfin" || c.Op == "forcedestroy" || c.Op == "rmallfins"
		}
	}

	return false
}
