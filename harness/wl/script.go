package wl

import (
	"context"
	"encoding/binary"
	"fmt"
	"math/rand/v2"
	"testing/synctest"

	"github.com/cosi-project/runtime/pkg/resource"
	"github.com/cosi-project/runtime/pkg/state"
	"github.com/cosi-project/runtime/pkg/state/impl/inmem"

	"verif/harness/res"
)

// Cfg is a history configuration.
type Cfg struct{ Initial, Max, Gap int }

func (c Cfg) String() string { return fmt.Sprintf("(%d,%d,%d)", c.Initial, c.Max, c.Gap) }

// ScriptOpts selects the step mix of a script.
type ScriptOpts struct {
	Steps     int
	Bookmarks bool // resume-from-bookmark / garbage bookmark / tail steps (C12)
	// Foreign bookmarks minted by another process (must be rejected).
	Foreign []state.Bookmark
	// WrapState optionally wraps the state under test (e.g. remote loopback); nil = direct inmem.
	WrapState func(state.CoreState) state.CoreState
}

// Result is what one script observed.
type Result struct {
	Problems []Problem
	Trace    []string
	Recs     []*Rec
	Log      []Entry

	Writes, Watchers, Wraps, Growths, ErroredLegit int
	MaxLagNoError                                  int
	BoundaryLagHits                                int // a watcher survived lag == initial capacity exactly
	ResumeAccepted, ResumeRejected                 int
	NoopBookmarksResumed                           int
	ResumeMustAccept, ResumeMustReject             int
	TailChecked, GarbageRejected, ForgedAccepted   int
	FailedWrites                                   int
	BatchMax                                       int
	BookmarkVariants                               int
}

type swatch struct {
	rec    *Rec
	ch     chan state.Event
	agg    chan []state.Event
	cancel context.CancelFunc
	mode   int // 0 eager, 1 slow, 2 stalled, 3 stall-then-resume
	batch  int
	done   bool // errored seen
	maxLag int
	got    int // last received log idx + 1 (or start)
	sawErr bool
	// noopBM: the bookmark of the opening Noop of a watch that was itself started from a bookmark / with a tail and asked for a
	// bootstrap bookmark; chained: a watch resumed from it has been opened
	noopBM  state.Bookmark
	chained bool
}

type runner struct {
	rng   *rand.Rand
	cfg   Cfg
	opts  ScriptOpts
	w     *World
	other *World          // second kind: foreign-kind leakage + ahead-of-log bookmarks
	ctx   context.Context //nolint:containedctx
	ws    []*swatch
	res   *Result
	ids   []string
	bms   map[int]state.Bookmark // canonical bookmark per log idx (-1 allowed)
	obm   []state.Bookmark       // bookmarks of the other kind
}

func (r *runner) tracef(format string, a ...any) {
	r.res.Trace = append(r.res.Trace, fmt.Sprintf(format, a...))
}

func (r *runner) bad(sig, format string, a ...any) {
	r.res.Problems = append(r.res.Problems, Problem{Sig: sig, Detail: fmt.Sprintf(format, a...)})
}

// RunScript runs one seeded script inside the caller's synctest bubble.
func RunScript(rng *rand.Rand, cfg Cfg, opts ScriptOpts) *Result {
	ctx, cancel := context.WithCancel(context.Background())
	defer func() {
		cancel()
		synctest.Wait()
	}()

	var st state.CoreState = inmem.NewStateWithOptions(
		inmem.WithHistoryInitialCapacity(cfg.Initial),
		inmem.WithHistoryMaxCapacity(cfg.Max),
		inmem.WithHistoryGap(cfg.Gap),
	)("ns")

	if opts.WrapState != nil {
		st = opts.WrapState(st)
	}

	r := &runner{
		rng: rng, cfg: cfg, opts: opts, ctx: ctx,
		w:     NewWorld(st, "ns", res.TypeA, "a"),
		other: NewWorld(st, "ns", res.TypeB, "b"),
		res:   &Result{},
		ids:   []string{"x", "y", "z"}[:1+rng.IntN(3)],
		bms:   map[int]state.Bookmark{},
	}

	for step := 0; step < opts.Steps; step++ {
		switch p := rng.IntN(100); {
		case p < 38:
			r.burst()
		case p < 55:
			r.startWatcher()
		case p < 70:
			r.recvStep()
		case p < 74:
			r.cancelStep()
		case p < 78:
			r.otherKindWrites()
		default:
			if opts.Bookmarks {
				switch rng.IntN(4) {
				case 0, 1:
					r.resumeStep()
				case 2:
					r.tailStep()
				case 3:
					r.garbageStep()
				}
			} else {
				r.burst()
			}
		}

		r.drainEager()

		if len(r.res.Problems) > 0 {
			break
		}
	}

	// final drain: everything that is still reading must reach the end of the log
	for _, sw := range r.ws {
		if sw.mode == 3 || sw.mode == 1 {
			sw.mode = 0
			sw.rec.Stalled = false
		}
	}

	r.drainEager()

	g := r.w.Log()
	r.res.Log = g

	for _, sw := range r.ws {
		ps, st := CheckRec(g, sw.rec, cfg.Initial, true)
		r.res.Problems = append(r.res.Problems, ps...)
		r.res.Recs = append(r.res.Recs, sw.rec)

		if st.Errored {
			r.res.ErroredLegit++
		} else if sw.maxLag > r.res.MaxLagNoError {
			r.res.MaxLagNoError = sw.maxLag
		}

		if !st.Errored && sw.maxLag == cfg.Initial {
			r.res.BoundaryLagHits++
		}

		if st.MaxBatch > r.res.BatchMax {
			r.res.BatchMax = st.MaxBatch
		}
	}

	// the log itself must agree with the store (validates the harness's ground truth)
	list, err := st.List(ctx, resource.NewMetadata("ns", res.TypeA, "", resource.VersionUndefined))
	if err != nil {
		r.bad("list-failed", "final List: %v", err)
	} else {
		final := StateAt(g, len(g))
		got := map[string]Val{}

		for _, it := range list.Items {
			got[it.Metadata().ID()] = Val{Ver: it.Metadata().Version().Value(), Token: res.Token(it)}
		}

		if !sameState(final, got) {
			r.bad("replay-differs-from-list", "replay of the log %v != List %v", final, got)
		}
	}

	r.res.Writes = len(g)
	r.res.Watchers = len(r.ws)

	if len(g) > cfg.Initial {
		r.res.Growths = 1
	}

	if len(g) > cfg.Max {
		r.res.Wraps = len(g) / cfg.Max
	}

	return r.res
}

func (r *runner) burstSize() int {
	c := r.cfg
	sizes := []int{1, 1, 2, 3, c.Initial - 1, c.Initial, c.Initial + 1, c.Max - 1, c.Max, c.Max + 1, 2*c.Max + 1, c.Initial - c.Gap, c.Max - c.Gap}
	k := sizes[r.rng.IntN(len(sizes))]

	if k < 1 {
		k = 1
	}

	if k > 40 {
		k = 40 + r.rng.IntN(3)
	}

	return k
}

func (r *runner) oneWrite(w *World, ids []string) {
	id := ids[r.rng.IntN(len(ids))]

	var kind OpKind

	switch p := r.rng.IntN(100); {
	case !w.Exists(id):
		kind = OpCreate
		if p < 5 {
			kind = OpStaleUpdate // no-op (absent)
		}
	case p < 70:
		kind = OpUpdate
	case p < 88:
		kind = OpDestroy
	case p < 94:
		kind = OpStaleUpdate
	default:
		kind = OpDupCreate
	}

	committed, err := w.Write(r.ctx, kind, id, nil)
	if err != nil {
		r.bad("write-failed", "write %d on %s: %v", kind, id, err)
	}

	if !committed {
		r.res.FailedWrites++
	}
}

func (r *runner) burst() {
	k := r.burstSize()
	r.tracef("write %d", k)

	for i := 0; i < k; i++ {
		r.oneWrite(r.w, r.ids)
		r.sampleLag()
	}
}

func (r *runner) otherKindWrites() {
	k := 1 + r.rng.IntN(4)
	r.tracef("write-other-kind %d", k)

	for i := 0; i < k; i++ {
		r.oneWrite(r.other, []string{"x", "q"})
	}
}

func (r *runner) sampleLag() {
	n := r.w.Len()

	for _, sw := range r.ws {
		if sw.done || sw.rec.Cancelled {
			continue
		}

		if lag := n - sw.got; lag > sw.maxLag {
			sw.maxLag = lag
		}
	}
}

func (r *runner) startWatcher() {
	if len(r.ws) >= 10 {
		return
	}

	kinds := []string{"single", "kind", "agg"}
	rec := &Rec{Kind: kinds[r.rng.IntN(3)], FromIdx: -2}
	rec.Name = fmt.Sprintf("w%d-%s", len(r.ws), rec.Kind)

	var kopts []state.WatchKindOption

	if rec.Kind != "single" {
		if r.rng.IntN(2) == 0 {
			rec.Boot = true

			kopts = append(kopts, state.WithBootstrapContents(true))
		}

		if r.rng.IntN(3) == 0 {
			rec.BootBM = true

			kopts = append(kopts, state.WithBootstrapBookmark(true))
		}
	} else {
		rec.ID = r.ids[r.rng.IntN(len(r.ids))]
	}

	sw := r.open(rec, nil, kopts)
	if sw == nil {
		return
	}

	sw.mode = []int{0, 0, 1, 2, 3}[r.rng.IntN(5)]
	sw.rec.Stalled = sw.mode >= 2
	r.tracef("start %s id=%q boot=%v bootbm=%v mode=%d at %d", rec.Name, rec.ID, rec.Boot, rec.BootBM, sw.mode, rec.Lo)
}

// open establishes the watch described by rec; returns nil (and records nothing) if the call failed.
func (r *runner) open(rec *Rec, wopts []state.WatchOption, kopts []state.WatchKindOption) *swatch {
	sw, err := r.tryOpen(rec, wopts, kopts)
	if err != nil {
		r.bad("watch-establish-failed", "%s: %v", rec.Name, err)

		return nil
	}

	return sw
}

func (r *runner) tryOpen(rec *Rec, wopts []state.WatchOption, kopts []state.WatchKindOption) (*swatch, error) {
	ctx, cancel := context.WithCancel(r.ctx)
	sw := &swatch{rec: rec, cancel: cancel}
	rec.Lo = r.w.Len()

	var err error

	switch rec.Kind {
	case "single":
		sw.ch = make(chan state.Event)
		err = r.w.St.Watch(ctx, resource.NewMetadata("ns", res.TypeA, rec.ID, resource.VersionUndefined), sw.ch, wopts...)
	case "kind":
		sw.ch = make(chan state.Event)
		err = r.w.St.WatchKind(ctx, resource.NewMetadata("ns", res.TypeA, "", resource.VersionUndefined), sw.ch, kopts...)
	case "agg":
		sw.agg = make(chan []state.Event)
		err = r.w.St.WatchKindAggregated(ctx, resource.NewMetadata("ns", res.TypeA, "", resource.VersionUndefined), sw.agg, kopts...)
	}

	rec.Hi = r.w.Len()
	sw.got = rec.Lo

	if rec.FromIdx >= -1 {
		sw.got = rec.FromIdx + 1
	}

	if err != nil {
		cancel()

		return nil, err
	}

	r.ws = append(r.ws, sw)

	return sw, nil
}

// recv takes up to m events that are available now (deterministic under synctest).
func (r *runner) recv(sw *swatch, m int) int {
	n := 0

	for n < m && !sw.done && !sw.rec.Cancelled {
		var (
			evs []state.Event
			ok  bool
		)

		for attempt := 0; attempt < 2 && !ok; attempt++ {
			if sw.agg != nil {
				select {
				case evs, ok = <-sw.agg:
				default:
				}
			} else {
				select {
				case ev := <-sw.ch:
					evs, ok = []state.Event{ev}, true
				default:
				}
			}

			if !ok && attempt == 0 {
				synctest.Wait()
			}
		}

		if !ok {
			break
		}

		if sw.agg != nil && len(evs) == 0 {
			r.bad("empty-batch", "%s: empty aggregated batch", sw.rec.Name)
		}

		sw.batch++

		for _, ev := range evs {
			re := r.w.Convert(ev, sw.batch)

			if sw.sawErr {
				r.bad("event-after-errored", "%s: %+v after Errored", sw.rec.Name, re)
			}

			sw.rec.Append(re)
			re = sw.rec.Last()
			n++

			switch ev.Type {
			case state.Errored:
				sw.sawErr = true
				// keep reading once more to catch anything after Errored, then stop
			case state.Created, state.Updated, state.Destroyed:
				if ev.Resource != nil && (ev.Resource.Metadata().Type() != res.TypeA || ev.Resource.Metadata().Namespace() != "ns") {
					r.bad("event-foreign-kind", "%s: event of kind %s/%s leaked", sw.rec.Name, ev.Resource.Metadata().Namespace(), ev.Resource.Metadata().Type())
				}

				if sw.rec.Kind == "single" && ev.Resource != nil && ev.Resource.Metadata().ID() != sw.rec.ID {
					r.bad("event-foreign-id", "%s: event of id %s leaked", sw.rec.Name, ev.Resource.Metadata().ID())
				}

				if re.Idx >= 0 {
					if sw.noopBM != nil && !sw.chained { // tail watch: its first replayed event tells where it started
						r.chainFromNoop(sw, re.Idx-1)
					}

					sw.got = re.Idx + 1
					r.noteBookmark(re.Idx, ev.Bookmark, sw.rec.Name)
				}
			case state.Bootstrapped, state.Noop:
				// the opening Noop of a watch that replays history (from a bookmark / a tail) carries the bookmark of the position
				// just before its first replayed event: resuming from it must yield what this stream delivers after it
				if ev.Type == state.Noop && len(ev.Bookmark) > 0 && (sw.rec.FromIdx >= -1 || sw.rec.Tail > 0) && !sw.rec.AnyStart && sw.rec.Kind != "single" {
					sw.noopBM = append(state.Bookmark(nil), ev.Bookmark...)

					if sw.rec.FromIdx >= -1 {
						r.chainFromNoop(sw, sw.rec.FromIdx)
					}
				}

				// carries the bookmark of the position just before the start (scripts have no concurrent writes, so Lo == Hi == s)
				if len(ev.Bookmark) > 0 && sw.rec.Lo == sw.rec.Hi && sw.rec.FromIdx == -2 && sw.rec.Tail == 0 {
					if _, known := r.bms[sw.rec.Lo-1]; !known {
						r.bms[sw.rec.Lo-1] = append(state.Bookmark(nil), ev.Bookmark...)
					}
				}
			}
		}

		if sw.sawErr {
			// one more look for trailing events
			synctest.Wait()

			select {
			case ev := <-sw.ch:
				r.bad("event-after-errored", "%s: %s after Errored", sw.rec.Name, ev.Type)
			case evs := <-sw.agg:
				r.bad("event-after-errored", "%s: batch of %d after Errored", sw.rec.Name, len(evs))
			default:
			}

			sw.done = true
		}
	}

	return n
}

func (r *runner) noteBookmark(idx int, bm state.Bookmark, who string) {
	if len(bm) == 0 {
		r.bad("event-without-bookmark", "%s: log event %d delivered without a bookmark", who, idx)

		return
	}

	if old, ok := r.bms[idx]; ok {
		if string(old) != string(bm) {
			r.res.BookmarkVariants++ // info only: the statement asks for usable, not identical, bookmarks
		}

		return
	}

	r.bms[idx] = append(state.Bookmark(nil), bm...)
}

func (r *runner) drainEager() {
	for _, sw := range r.ws {
		switch sw.mode {
		case 0:
			r.recv(sw, 1<<30)
		case 1:
			r.recv(sw, 1+r.rng.IntN(2))
		}
	}
}

func (r *runner) recvStep() {
	if len(r.ws) == 0 {
		return
	}

	sw := r.ws[r.rng.IntN(len(r.ws))]
	if sw.mode == 2 {
		return
	}

	m := []int{1, 2, 1 << 30}[r.rng.IntN(3)]
	n := r.recv(sw, m)
	r.tracef("recv %s want %d got %d", sw.rec.Name, m, n)
}

func (r *runner) cancelStep() {
	if len(r.ws) == 0 || r.rng.IntN(3) != 0 {
		return
	}

	sw := r.ws[r.rng.IntN(len(r.ws))]
	if sw.rec.Cancelled {
		return
	}

	sw.cancel()
	synctest.Wait()

	sw.rec.Cancelled = true
	r.tracef("cancel %s", sw.rec.Name)

	// nothing may arrive after cancellation has settled, except an event that was already in flight:
	// the API gives no such guarantee, so we only stop reading.
}

// resumeStep restarts a watch from a bookmark of a delivered event and judges acceptance and continuation.
func (r *runner) resumeStep() {
	if len(r.bms) == 0 {
		return
	}

	w := r.w.Len()
	c := r.cfg

	// choose the log index whose bookmark is used, biased to the acceptance boundaries
	targets := []int{w - 1, w - 2, w - (c.Initial - c.Gap), w - (c.Initial - c.Gap) - 1, w - (c.Initial - c.Gap) + 1, w - (c.Max - c.Gap), w - (c.Max - c.Gap) - 1, w - c.Max, w - c.Max - 1, 0, r.rng.IntN(w + 1)}
	i := targets[r.rng.IntN(len(targets))]

	bm, ok := r.bms[i]
	if !ok {
		// nearest known
		best := -1 << 30

		for k := range r.bms {
			if abs(k-i) < abs(best-i) {
				best = k
			}
		}

		i = best
		bm = r.bms[i]
	}

	kinds := []string{"single", "kind", "agg"}
	rec := &Rec{Kind: kinds[r.rng.IntN(3)], FromIdx: i}
	rec.Name = fmt.Sprintf("w%d-resume-%s@%d", len(r.ws), rec.Kind, i)

	if rec.Kind == "single" {
		rec.ID = r.ids[r.rng.IntN(len(r.ids))]
	}

	kopts := []state.WatchKindOption{state.WithKindStartFromBookmark(bm)}

	if rec.Kind != "single" && r.rng.IntN(2) == 0 {
		rec.BootBM = true

		kopts = append(kopts, state.WithBootstrapBookmark(true))
	}

	sw, err := r.tryOpen(rec, []state.WatchOption{state.WithStartFromBookmark(bm)}, kopts)

	age := w - i // number of log entries from the bookmarked one (inclusive) to the end
	mustAccept := age <= c.Initial-c.Gap && i >= 0

	r.tracef("resume %s age=%d mustAccept=%v err=%v", rec.Name, age, mustAccept, err)

	if err != nil {
		r.res.ResumeRejected++

		if !state.IsInvalidWatchBookmarkError(err) {
			r.bad("bookmark-reject-wrong-class", "%s: rejected with a non invalid-bookmark error: %v", rec.Name, err)
		}

		if mustAccept {
			r.res.ResumeMustAccept++
			r.bad("recent-bookmark-rejected", "%s: bookmark of entry %d rejected with %d entries in the log, age %d <= initial-gap=%d", rec.Name, i, w, age, c.Initial-c.Gap)
		}

		return
	}

	if mustAccept {
		r.res.ResumeMustAccept++
	}

	r.res.ResumeAccepted++
	sw.mode = []int{0, 0, 1}[r.rng.IntN(3)]
	// accepted => exact continuation G[i+1:]; judged by CheckRec at the end (and a wrong first event is reported there)
}

// chainFromNoop opens a watch from the bootstrap bookmark (opening Noop) of sw, which stands for log index idx: the new watch must
// either be rejected loudly (only outside the always-accepted window) or deliver exactly G[idx+1:].
func (r *runner) chainFromNoop(sw *swatch, idx int) {
	sw.chained = true

	rec := &Rec{Kind: sw.rec.Kind, FromIdx: idx}
	rec.Name = fmt.Sprintf("w%d-resume-from-noop-of-%s@%d", len(r.ws), sw.rec.Name, idx)

	nsw, err := r.tryOpen(rec, nil, []state.WatchKindOption{state.WithKindStartFromBookmark(sw.noopBM)})
	r.tracef("resume %s err=%v", rec.Name, err)

	if err != nil {
		// a loud rejection is allowed for positions outside the always-accepted window (the most recent initial-gap events),
		// e.g. the position just before the oldest event a maximal tail replays
		age := r.w.Len() - idx

		switch {
		case !state.IsInvalidWatchBookmarkError(err):
			r.bad("bookmark-reject-wrong-class", "%s: rejected with a non invalid-bookmark error: %v", rec.Name, err)
		case age <= r.cfg.Initial-r.cfg.Gap && idx >= 0:
			r.bad("bootstrap-bookmark-not-usable", "%s: the bookmark of the opening Noop of %s (position %d of %d, within the always-accepted window) was rejected: %v", rec.Name, sw.rec.Name, idx, r.w.Len(), err)
		}

		return
	}

	nsw.mode = 0
	r.res.NoopBookmarksResumed++
}

func abs(a int) int {
	if a < 0 {
		return -a
	}

	return a
}

func (r *runner) tailStep() {
	w := r.w.Len()
	c := r.cfg
	ns := []int{1, 2, 3, c.Initial - c.Gap - 1, c.Initial - c.Gap, c.Initial - c.Gap + 1, c.Max - c.Gap, c.Max - c.Gap + 1, c.Max + 5, 1000}
	n := ns[r.rng.IntN(len(ns))]

	if n < 1 {
		n = 1
	}

	kinds := []string{"single", "kind", "agg"}
	rec := &Rec{Kind: kinds[r.rng.IntN(3)], FromIdx: -2, Tail: n}
	rec.Name = fmt.Sprintf("w%d-tail%d-%s", len(r.ws), n, rec.Kind)

	if rec.Kind == "single" {
		rec.ID = r.ids[r.rng.IntN(len(r.ids))]
	}

	id := rec.ID
	match := func(e Entry) bool { return id == "" || e.ID == id }
	rec.SetTailCandidates(TailCandidates(r.w.Log(), w, n, c.Initial, c.Max, c.Gap, match))

	kopts := []state.WatchKindOption{state.WithKindTailEvents(n)}

	if rec.Kind != "single" && r.rng.IntN(2) == 0 {
		rec.BootBM = true

		kopts = append(kopts, state.WithBootstrapBookmark(true))
	}

	sw := r.open(rec, []state.WatchOption{state.WithTailEvents(n)}, kopts)
	if sw == nil {
		return
	}

	sw.got = w // lag accounting: tail events are old ones
	if cs := rec.tailCandidates; len(cs) > 0 {
		sw.got = cs[0]
	}

	r.res.TailChecked++
	r.tracef("tail %s n=%d w=%d candidates=%v", rec.Name, n, w, rec.tailCandidates)
}

// garbageStep feeds malformed / foreign / ahead-of-log bookmarks; all must be rejected with the invalid-bookmark class.
func (r *runner) garbageStep() {
	var (
		bm        state.Bookmark
		what      string
		mayAccept bool
	)

	var anyValid state.Bookmark
	for _, b := range r.bms {
		anyValid = b

		break
	}

	forgedPos := int64(0) // < 0: a bookmark with a valid cookie whose position field was overwritten with this negative value

	k := r.rng.IntN(7)
	if young := r.w.Len()+2 <= r.cfg.Initial-r.cfg.Gap; young && r.rng.IntN(2) == 0 {
		k = 6 // while the whole log is still retained, positions before its start are the interesting garbage
	}

	switch {
	case k == 6 && anyValid != nil && len(anyValid) >= 8:
		// bookmarks are a cookie followed by a big-endian position (see the samples in any witness): positions before the start of
		// the log - the statement's "malformed" class; -1 is what a bootstrap bookmark over an empty log carries, meaning "from the
		// very beginning" for kind watches, and is below the first possible position of a single-resource watch
		forgedPos = []int64{-1, -1, -2, -3, -10, -50}[r.rng.IntN(6)]
		bm = append(state.Bookmark(nil), anyValid...)
		binary.BigEndian.PutUint64(bm[len(bm)-8:], uint64(forgedPos))
		what = fmt.Sprintf("valid bookmark with its position replaced by %d", forgedPos)
	case k == 0:
		n := r.rng.IntN(33)
		bm = make(state.Bookmark, n)

		for i := range bm {
			bm[i] = byte(r.rng.IntN(256))
		}

		what = fmt.Sprintf("random %d bytes", n)

		if n == 0 {
			return // an empty bookmark means "no bookmark" at the API level
		}
	case k == 1 && anyValid != nil:
		cut := r.rng.IntN(len(anyValid))
		if cut == 0 {
			return
		}

		bm = append(state.Bookmark(nil), anyValid[:cut]...)
		what = fmt.Sprintf("valid bookmark truncated to %d", cut)
	case k == 2 && anyValid != nil:
		bm = append(append(state.Bookmark(nil), anyValid...), byte(r.rng.IntN(256)))
		what = "valid bookmark with a trailing byte"
	case k == 3 && len(r.opts.Foreign) > 0:
		bm = r.opts.Foreign[r.rng.IntN(len(r.opts.Foreign))]
		what = "bookmark minted by another process"
	case k == 4 && anyValid != nil:
		bm = append(state.Bookmark(nil), anyValid...)
		bit := r.rng.IntN(len(bm) * 8)
		bm[bit/8] ^= 1 << (bit % 8)
		what = fmt.Sprintf("valid bookmark with bit %d flipped", bit)
		mayAccept = true // may decode to another position: then it must still be an exact continuation from somewhere
	default:
		// ahead of the log: a bookmark of the other kind whose position is beyond this kind's log
		// (a bookmark at exactly position == log length is the closest ahead-of-log value)
		for k := 0; k < 200 && r.other.Len() <= r.w.Len(); k++ {
			r.oneWrite(r.other, []string{"x", "q"})
		}

		r.collectOtherBookmarks()

		if len(r.obm) <= r.w.Len() || r.obm[len(r.obm)-1] == nil {
			return
		}

		bm = r.obm[len(r.obm)-1]
		what = fmt.Sprintf("bookmark of position %d of another kind while this log has %d entries", len(r.obm)-1, r.w.Len())
	}

	kinds := []string{"single", "kind", "agg"}
	rec := &Rec{Kind: kinds[r.rng.IntN(3)], FromIdx: -2, AnyStart: true}
	rec.Name = fmt.Sprintf("w%d-garbage-%s", len(r.ws), rec.Kind)

	if forgedPos == -1 && rec.Kind != "single" {
		// "from the very beginning": may be accepted while the beginning is still retained - then it is the exact log from entry 0
		mayAccept = true
		rec.AnyStart, rec.FromIdx = false, -1
	}

	if rec.Kind == "single" {
		rec.ID = r.ids[r.rng.IntN(len(r.ids))]
	}

	sw, err := r.tryOpen(rec, []state.WatchOption{state.WithStartFromBookmark(bm)}, []state.WatchKindOption{state.WithKindStartFromBookmark(bm)})
	r.tracef("garbage %s (%s) -> err=%v", rec.Name, what, err)

	if err != nil {
		if !state.IsInvalidWatchBookmarkError(err) {
			r.bad("bookmark-reject-wrong-class", "%s (%s): rejected with a non invalid-bookmark error: %v", rec.Name, what, err)
		}

		r.res.GarbageRejected++

		return
	}

	if !mayAccept {
		r.bad("garbage-bookmark-accepted", "%s: %s was accepted", rec.Name, what)
		sw.cancel()
		sw.rec.Cancelled = true

		return
	}

	r.res.ForgedAccepted++
	sw.mode = 0
}

// collectOtherBookmarks reads the other kind's log through a bookmark-carrying watch.
func (r *runner) collectOtherBookmarks() {
	n := r.other.Len()
	if n == 0 || n == len(r.obm) {
		return
	}

	ctx, cancel := context.WithCancel(r.ctx)
	defer cancel()

	ch := make(chan state.Event)

	if err := r.other.St.WatchKind(ctx, resource.NewMetadata("ns", res.TypeB, "", resource.VersionUndefined), ch, state.WithKindTailEvents(1)); err != nil {
		return
	}

	synctest.Wait()

	select {
	case ev := <-ch:
		if idx, ok := r.other.Locate(ev.Type, ev.Resource); ok {
			for len(r.obm) <= idx {
				r.obm = append(r.obm, nil)
			}

			r.obm[idx] = ev.Bookmark
		}
	default:
	}

	cancel()
	synctest.Wait()
}
