// Package wl (watch log) holds the ground-truth commit log of one resource kind and the
// oracles that compare what watchers received with it (engine E3 of DESIGN.md).
//
// All writes to the kind go through World.Write, which serialises them under one mutex, so
// the log order is the commit order. Every written value carries a unique token, so each
// delivered event identifies the log entry that produced it.
package wl

import (
	"context"
	"fmt"
	"maps"
	"sort"
	"sync"
	"sync/atomic"

	"github.com/cosi-project/runtime/pkg/resource"
	"github.com/cosi-project/runtime/pkg/state"

	"verif/harness/res"
)

// Entry is one committed change.
type Entry struct {
	Idx      int               `json:"idx"`
	Type     string            `json:"type"` // Created / Updated / Destroyed
	ID       string            `json:"id"`
	Ver      uint64            `json:"ver"`
	Token    string            `json:"token"`
	OldToken string            `json:"old_token,omitempty"`
	Labels   map[string]string `json:"labels,omitempty"`
	OldLabel map[string]string `json:"old_labels,omitempty"`
}

// Val is the value of one id in a model state.
type Val struct {
	Ver    uint64
	Token  string
	Labels map[string]string
}

// World is one kind of one state plus its ground-truth log.
type World struct {
	St  state.CoreState
	NS  string
	Typ resource.Type

	mu      sync.Mutex
	g       []Entry
	cur     map[string]resource.Resource
	index   map[string]int
	seq     int
	Started atomic.Int64 // writes whose call has started (>= published)
	Prefix  string       // token prefix

	FailedWritesPublished atomic.Int64
}

// NewWorld creates a world over st.
func NewWorld(st state.CoreState, ns string, typ resource.Type, prefix string) *World {
	return &World{St: st, NS: ns, Typ: typ, cur: map[string]resource.Resource{}, index: map[string]int{}, Prefix: prefix}
}

// Len is the number of committed entries.
func (w *World) Len() int { w.mu.Lock(); defer w.mu.Unlock(); return len(w.g) }

// Log returns a copy of the log.
func (w *World) Log() []Entry { w.mu.Lock(); defer w.mu.Unlock(); return append([]Entry(nil), w.g...) }

// Exists reports whether id currently exists.
func (w *World) Exists(id string) bool {
	w.mu.Lock()
	defer w.mu.Unlock()
	_, ok := w.cur[id]
	return ok
}

// OpKind is a write kind.
type OpKind int

// Write kinds.
const (
	OpCreate OpKind = iota
	OpUpdate
	OpDestroy
	OpStaleUpdate // must fail with a version conflict and publish nothing
	OpDupCreate   // must fail with already-exists and publish nothing
)

func key(typ, token string) string { return typ + "|" + token }

// Write performs one write on id under the world lock; labels (if non-nil) replace the labels.
// It returns whether something was committed.
func (w *World) Write(ctx context.Context, kind OpKind, id string, labels map[string]string) (bool, error) {
	w.mu.Lock()
	defer w.mu.Unlock()

	cur, exists := w.cur[id]

	switch kind {
	case OpCreate, OpDupCreate:
		if exists != (kind == OpDupCreate) {
			return false, nil
		}
	case OpUpdate, OpDestroy, OpStaleUpdate:
		if !exists {
			return false, nil
		}
	}

	w.seq++
	token := fmt.Sprintf("%s%d", w.Prefix, w.seq)

	w.Started.Add(1)

	switch kind {
	case OpCreate, OpDupCreate:
		r := res.New(w.NS, w.Typ, id)
		res.SpecOf(r).Token = token

		for k, v := range labels {
			r.Metadata().Labels().Set(k, v)
		}

		err := w.St.Create(ctx, r)
		if kind == OpDupCreate {
			if err == nil {
				return false, fmt.Errorf("duplicate create of %s succeeded", id)
			}

			return false, nil
		}

		if err != nil {
			return false, err
		}

		w.cur[id] = r.DeepCopy()
		w.append(Entry{Type: "Created", ID: id, Ver: r.Metadata().Version().Value(), Token: token, Labels: maps.Clone(labels)})
	case OpUpdate, OpStaleUpdate:
		r := cur.DeepCopy()
		res.SpecOf(r).Token = token

		oldLabels := maps.Clone(r.Metadata().Labels().Raw())

		if labels != nil {
			for k := range r.Metadata().Labels().Raw() {
				r.Metadata().Labels().Delete(k)
			}

			for k, v := range labels {
				r.Metadata().Labels().Set(k, v)
			}
		}

		if kind == OpStaleUpdate {
			r.Metadata().SetVersion(r.Metadata().Version().Next().Next())

			if err := w.St.Update(ctx, r); err == nil {
				return false, fmt.Errorf("stale update of %s succeeded", id)
			}

			return false, nil
		}

		if err := w.St.Update(ctx, r); err != nil {
			return false, err
		}

		w.append(Entry{
			Type: "Updated", ID: id, Ver: r.Metadata().Version().Value(), Token: token, OldToken: res.Token(cur),
			Labels: maps.Clone(r.Metadata().Labels().Raw()), OldLabel: oldLabels,
		})
		w.cur[id] = r.DeepCopy()
	case OpDestroy:
		if err := w.St.Destroy(ctx, cur.Metadata()); err != nil {
			return false, err
		}

		delete(w.cur, id)
		w.append(Entry{Type: "Destroyed", ID: id, Ver: cur.Metadata().Version().Value(), Token: res.Token(cur), Labels: maps.Clone(cur.Metadata().Labels().Raw())})
	}

	return true, nil
}

func (w *World) append(e Entry) {
	e.Idx = len(w.g)
	w.g = append(w.g, e)
	w.index[key(e.Type, e.Token)] = e.Idx
}

// Locate maps a delivered event to its log index.
func (w *World) Locate(typ state.EventType, r resource.Resource) (int, bool) {
	if r == nil || resource.IsTombstone(r) {
		return 0, false
	}

	w.mu.Lock()
	defer w.mu.Unlock()

	idx, ok := w.index[key(typ.String(), res.Token(r))]

	return idx, ok
}

// StateAt replays G[:j].
func StateAt(g []Entry, j int) map[string]Val {
	m := map[string]Val{}

	for _, e := range g[:j] {
		switch e.Type {
		case "Created", "Updated":
			m[e.ID] = Val{Ver: e.Ver, Token: e.Token, Labels: e.Labels}
		case "Destroyed":
			delete(m, e.ID)
		}
	}

	return m
}

// ---------------------------------------------------------------------------------------------

// RecEv is one received event as recorded by a consumer.
type RecEv struct {
	Type     string `json:"type"`
	ID       string `json:"id,omitempty"`
	Ver      uint64 `json:"ver,omitempty"`
	Token    string `json:"token,omitempty"`
	OldToken string `json:"old_token,omitempty"`
	OldVer   uint64 `json:"old_ver,omitempty"`
	HasOld   bool   `json:"has_old,omitempty"`
	Tomb     bool   `json:"tomb,omitempty"`
	Bookmark string `json:"bookmark,omitempty"`
	Err      string `json:"err,omitempty"`
	Batch    int    `json:"batch"`
	NS       string `json:"ns,omitempty"`
	RType    string `json:"rtype,omitempty"`
	// StartedAtRecv is World.Started when the consumer took this event (upper bound of what was published).
	StartedAtRecv int64          `json:"started_at_recv"`
	Idx           int            `json:"idx"` // log index (-1 if not a log event)
	RawBookmark   state.Bookmark `json:"-"`
}

// Rec is everything a consumer of one watch recorded.
type Rec struct {
	Name   string `json:"name"`
	Kind   string `json:"kind"` // single | kind | agg
	ID     string `json:"id,omitempty"`
	Lo     int    `json:"lo"` // len(G) before the watch call
	Hi     int    `json:"hi"` // len(G) after it returned
	Boot   bool   `json:"boot,omitempty"`
	BootBM bool   `json:"boot_bookmark,omitempty"`
	// FromIdx >= -1 when started from the bookmark of entry FromIdx (expected continuation G[FromIdx+1:]); -2 otherwise.
	FromIdx int `json:"from_idx"`
	// Tail > 0 when started with a tail request.
	Tail      int     `json:"tail,omitempty"`
	Events    []RecEv `json:"events"`
	Cancelled bool    `json:"cancelled,omitempty"`
	// Stalled: the consumer stopped reading on purpose (so completeness is not required).
	Stalled bool `json:"stalled,omitempty"`
	// OnlyID: a kind watch restricted (by an ID query) to this one id; such records are used without bootstrap contents
	OnlyID string `json:"only_id,omitempty"`
	// AnyStart: the start index is unconstrained (forged bookmark accepted): only contiguity is judged.
	AnyStart bool `json:"any_start,omitempty"`

	tailCandidates []int
	bootDone       bool
}

// Append records a received event; events of the establishment phase (initial event of a single-resource watch,
// bootstrap contents) are not log events even if their value coincides with one.
func (r *Rec) Append(e RecEv) {
	if r.FromIdx == -2 && r.Tail == 0 && !r.AnyStart { // (a watch started from a bookmark, forged or not, has no establishment phase)
		switch {
		case r.Kind == "single" && len(r.Events) == 0:
			e.Idx = -1
		case r.Kind != "single" && r.Boot && !r.bootDone:
			if e.Type == "Bootstrapped" {
				r.bootDone = true
			}

			e.Idx = -1
		}
	}

	r.Events = append(r.Events, e)
}

// Last returns the most recently appended event.
func (r *Rec) Last() RecEv { return r.Events[len(r.Events)-1] }

// Convert turns a delivered event into a RecEv.
func (w *World) Convert(ev state.Event, batch int) RecEv {
	r := RecEv{Type: ev.Type.String(), Batch: batch, Idx: -1, StartedAtRecv: w.Started.Load()}

	if len(ev.Bookmark) > 0 {
		r.Bookmark = fmt.Sprintf("%x", []byte(ev.Bookmark))
		r.RawBookmark = ev.Bookmark
	}

	if ev.Error != nil {
		r.Err = ev.Error.Error()
	}

	if ev.Resource != nil {
		md := ev.Resource.Metadata()
		r.ID, r.Ver, r.NS, r.RType = md.ID(), md.Version().Value(), md.Namespace(), md.Type()
		r.Tomb = resource.IsTombstone(ev.Resource)

		if !r.Tomb {
			r.Token = res.Token(ev.Resource)

			if idx, ok := w.Locate(ev.Type, ev.Resource); ok {
				r.Idx = idx
			}
		}
	}

	if ev.Old != nil {
		r.HasOld = true
		r.OldVer = ev.Old.Metadata().Version().Value()

		if !resource.IsTombstone(ev.Old) {
			r.OldToken = res.Token(ev.Old)
		}
	}

	return r
}

// Problem is one oracle failure.
type Problem struct {
	Sig    string `json:"sig"`
	Detail string `json:"detail"`
}

// Stats are coverage facts about one checked stream.
type Stats struct {
	LiveEvents int
	Errored    bool
	MaxBatch   int
	BootItems  int
}

// CheckRec compares a record with the log. initialCap is the configured initial history capacity.
// complete: the run reached quiescence with the consumer still reading (so it must have seen everything).
func CheckRec(g []Entry, r *Rec, initialCap int, complete bool) ([]Problem, Stats) {
	var (
		probs []Problem
		st    Stats
	)

	bad := func(sig, format string, a ...any) {
		probs = append(probs, Problem{Sig: sig, Detail: fmt.Sprintf("%s: ", r.Name) + fmt.Sprintf(format, a...)})
	}

	match := func(e Entry) bool {
		return (r.Kind != "single" || e.ID == r.ID) && (r.OnlyID == "" || e.ID == r.OnlyID)
	}
	complete = complete && !r.Cancelled && !r.Stalled

	evs := r.Events
	i := 0

	// ---- phase A: establishment -------------------------------------------------------------
	var candidates []int // possible start indices s

	switch {
	case r.AnyStart:
		for s := 0; s <= len(g); s++ {
			candidates = append(candidates, s)
		}
	case r.FromIdx >= -1:
		candidates = []int{r.FromIdx + 1}
	case r.Tail > 0:
		// handled by the tail oracle (C12): the caller pre-computes the admissible starts and passes them through TailStarts.
		candidates = tailStarts(g, r, match)
	case r.Kind == "single":
		if len(evs) == 0 {
			if complete {
				bad("no-initial-event", "single-resource watch delivered nothing")
			}

			return probs, st
		}

		first := evs[0]
		i = 1

		if first.Type == "Errored" {
			// the watch failed before it could deliver the initial state (remote transports); nothing may follow
			st.Errored = true

			if len(evs) > 1 {
				bad("event-after-errored", "%d events delivered after Errored", len(evs)-1)
			}

			return probs, st
		}

		for s := r.Lo; s <= r.Hi && s <= len(g); s++ {
			v, ok := StateAt(g, s)[r.ID]

			switch {
			case first.Type == "Created" && ok && v.Token == first.Token && v.Ver == first.Ver:
				candidates = append(candidates, s)
			case first.Type == "Destroyed" && !ok: // (a remote transport rebuilds the tombstone as a plain resource)
				candidates = append(candidates, s)
			}
		}

		if len(candidates) == 0 {
			bad("initial-event-wrong", "initial event %+v matches no state of %s in G[%d..%d]", first, r.ID, r.Lo, r.Hi)

			return probs, st
		}
	case r.Boot:
		snap := map[string]Val{}

		for ; i < len(evs) && evs[i].Type != "Bootstrapped"; i++ {
			e := evs[i]
			if e.Type == "Errored" {
				break
			}

			if e.Type != "Created" {
				bad("bootstrap-non-created", "event %d before Bootstrapped is %s", i, e.Type)

				return probs, st
			}

			if _, dup := snap[e.ID]; dup {
				bad("bootstrap-duplicate", "id %s twice in bootstrap contents", e.ID)
			}

			snap[e.ID] = Val{Ver: e.Ver, Token: e.Token}
		}

		st.BootItems = len(snap)

		if i >= len(evs) || evs[i].Type != "Bootstrapped" {
			if complete {
				bad("bootstrap-incomplete", "no Bootstrapped event (got %d events)", len(evs))
			}

			return probs, st
		}

		i++ // consume Bootstrapped

		for s := r.Lo; s <= r.Hi && s <= len(g); s++ {
			if sameState(StateAt(g, s), snap) {
				candidates = append(candidates, s)
			}
		}

		if len(candidates) == 0 {
			bad("bootstrap-snapshot-wrong", "bootstrap contents %v equal no state after G[:s], s in [%d,%d]", snap, r.Lo, r.Hi)

			return probs, st
		}
	default:
		for s := r.Lo; s <= r.Hi && s <= len(g); s++ {
			candidates = append(candidates, s)
		}
	}

	// optional Noop carrying the bootstrap bookmark
	if r.BootBM && i < len(evs) && evs[i].Type == "Noop" {
		i++
	}

	live := evs[i:]

	// ---- phase B: live events must be the matching entries of G from some candidate start, contiguously ------
	var lastProblems []Problem

	okAny := false

	bestProgress := -1

	var allDiag []string

	for _, s := range candidates {
		ps, lst := checkLive(g, r, live, s, match, initialCap, complete)
		if len(ps) == 0 {
			okAny = true
			st.LiveEvents, st.Errored, st.MaxBatch = lst.LiveEvents, lst.Errored, lst.MaxBatch

			break
		}

		if len(allDiag) < 4 {
			allDiag = append(allDiag, fmt.Sprintf("start %d: %s: %s", s, ps[0].Sig, ps[0].Detail))
		}

		// report the candidate that explains most of the stream
		if lst.LiveEvents > bestProgress {
			bestProgress = lst.LiveEvents
			lastProblems = ps
			st.Errored = lst.Errored
		}
	}

	if !okAny {
		for _, p := range lastProblems {
			probs = append(probs, Problem{Sig: p.Sig, Detail: fmt.Sprintf("%s: %s (candidate starts %v; per-candidate: %v)", r.Name, p.Detail, candidates, allDiag)})
		}

		if len(candidates) == 0 {
			bad("no-admissible-start", "no admissible start position")
		}
	}

	return probs, st
}

func sameState(a, b map[string]Val) bool {
	if len(a) != len(b) {
		return false
	}

	for k, v := range a {
		w, ok := b[k]
		if !ok || w.Token != v.Token || w.Ver != v.Ver {
			return false
		}
	}

	return true
}

func checkLive(g []Entry, r *Rec, live []RecEv, s int, match func(Entry) bool, initialCap int, complete bool) ([]Problem, Stats) {
	var (
		probs []Problem
		st    Stats
	)

	bad := func(sig, format string, a ...any) {
		probs = append(probs, Problem{Sig: sig, Detail: fmt.Sprintf(format, a...)})
	}

	cursor := s      // next log index to look at
	lastIdx := s - 1 // index of the last entry the consumer has (for the lag rule)
	batchSizes := map[int]int{}

	next := func() (Entry, bool) {
		for cursor < len(g) {
			e := g[cursor]
			cursor++

			if match(e) {
				return e, true
			}
		}

		return Entry{}, false
	}

	for k, ev := range live {
		switch ev.Type {
		case "Errored":
			st.Errored = true

			// lag bound: writes started by the time the consumer saw Errored minus what it had received
			lag := ev.StartedAtRecv - int64(lastIdx+1)
			if lag <= int64(initialCap) {
				bad("errored-without-lag", "Errored (%s) although the subscriber lagged at most %d <= initial capacity %d (last received idx %d)", ev.Err, lag, initialCap, lastIdx)
			}

			if k != len(live)-1 {
				bad("event-after-errored", "%d events delivered after Errored", len(live)-1-k)
			}

			return probs, st
		case "Created", "Updated", "Destroyed":
			exp, ok := next()
			if !ok {
				bad("extra-event", "event %d %+v has no counterpart in the log (log exhausted at %d)", k, ev, len(g))

				return probs, st
			}

			if ev.Idx != exp.Idx || ev.Type != exp.Type || ev.ID != exp.ID || ev.Ver != exp.Ver || ev.Token != exp.Token {
				sig := "stream-not-contiguous"

				switch {
				case ev.Idx >= 0 && ev.Idx < exp.Idx:
					sig = "stream-duplicate-or-reordered"
				case ev.Idx > exp.Idx:
					sig = "stream-gap"
				case ev.Idx < 0:
					sig = "stream-unknown-event"
				}

				bad(sig, "event %d is %+v, expected log entry %+v", k, ev, exp)

				return probs, st
			}

			if ev.Type == "Updated" {
				if !ev.HasOld {
					bad("updated-without-old", "Updated event %d has no Old", k)
				} else if ev.OldToken != exp.OldToken || ev.OldVer+1 != ev.Ver {
					bad("updated-old-wrong", "Updated event %d Old=(%s,v%d) new v%d, log says old token %s", k, ev.OldToken, ev.OldVer, ev.Ver, exp.OldToken)
				}
			}

			lastIdx = exp.Idx
			st.LiveEvents++
			batchSizes[ev.Batch]++
		case "Noop", "Bootstrapped":
			bad("unexpected-control-event", "event %d of type %s in the live phase", k, ev.Type)

			return probs, st
		}
	}

	for _, n := range batchSizes {
		if n > st.MaxBatch {
			st.MaxBatch = n
		}
	}

	if complete && !r.Cancelled && !r.Stalled {
		if e, ok := next(); ok {
			bad("stream-incomplete", "quiescent but log entry %+v (and later) was never delivered; last delivered idx %d of %d", e, lastIdx, len(g))
		}
	}

	return probs, st
}

// tailStarts computes the admissible start indices of a tail watch (filled in by SetTailBounds before the check).
func tailStarts(g []Entry, r *Rec, match func(Entry) bool) []int {
	return r.tailCandidates
}

// SetTailCandidates stores the admissible starts for a tail watch.
func (r *Rec) SetTailCandidates(c []int) { r.tailCandidates = c }

// TailCandidates computes admissible start indices for a tail request of n events issued when the log had
// w entries, under capacity settings (initial, max, gap): the delivered prefix is exactly the last l matching
// events with min(n,a) <= l <= min(n,b), a/b = matching events within the last (initial-gap)/(max-gap) entries.
func TailCandidates(g []Entry, w, n, initial, maxCap, gap int, match func(Entry) bool) []int {
	countIn := func(window int) int {
		lo := w - window
		if lo < 0 {
			lo = 0
		}

		c := 0

		for _, e := range g[lo:w] {
			if match(e) {
				c++
			}
		}

		return c
	}

	a, b := min(n, countIn(initial-gap)), min(n, countIn(maxCap-gap))

	// matching indices before w, newest first
	var idxs []int

	for k := w - 1; k >= 0; k-- {
		if match(g[k]) {
			idxs = append(idxs, k)
		}
	}

	var out []int

	for l := a; l <= b; l++ {
		if l == 0 {
			out = append(out, w)

			continue
		}

		if l <= len(idxs) {
			out = append(out, idxs[l-1])
		}
	}

	sort.Ints(out)

	return out
}
