package rtp

import (
	"fmt"
	"sort"

	"verif/harness/gp"
)

// KindHist is the sequence of states of one kind: States[i] holds after the first i commits of the kind; Seqs[i-1] is the
// global log index of the i-th commit.
type KindHist struct {
	Seqs   []int
	States []map[string]*gp.Snap
}

// BuildHist replays the commits of kind k.
func BuildHist(log []gp.Commit, k Kind) *KindHist {
	h := &KindHist{States: []map[string]*gp.Snap{{}}}
	cur := map[string]*gp.Snap{}

	for _, c := range log {
		if c.Op == "note" || c.Key.NS != k.NS || c.Key.Type != k.Type {
			continue
		}

		next := make(map[string]*gp.Snap, len(cur)+1)
		for id, v := range cur {
			next[id] = v
		}

		if c.Op == "destroy" {
			delete(next, c.Key.ID)
		} else {
			next[c.Key.ID] = c.Post
		}

		cur = next
		h.Seqs = append(h.Seqs, c.Seq)
		h.States = append(h.States, cur)
	}

	return h
}

// Idx returns how many commits of the kind lie in log[:j].
func (h *KindHist) Idx(j int) int { return sort.SearchInts(h.Seqs, j) }

func sameItems(a, b map[string]*gp.Snap) bool {
	if len(a) != len(b) {
		return false
	}

	for id, v := range a {
		if w, ok := b[id]; !ok || !Eq(v, w) {
			return false
		}
	}

	return true
}

// MatchList returns the history indices in [lo,hi] whose state equals items.
func (h *KindHist) MatchList(items map[string]*gp.Snap, lo, hi int) []int {
	var out []int

	for i := max(lo, 0); i <= hi && i < len(h.States); i++ {
		if sameItems(h.States[i], items) {
			out = append(out, i)
		}
	}

	return out
}

// MatchGet returns the history indices in [lo,hi] where id has value v (nil = absent).
func (h *KindHist) MatchGet(id string, v *gp.Snap, lo, hi int) []int {
	var out []int

	for i := max(lo, 0); i <= hi && i < len(h.States); i++ {
		if Eq(h.States[i][id], v) {
			out = append(out, i)
		}
	}

	return out
}

// CachedRead is a cached read made outside a probe (CachedState()).
type CachedRead struct {
	Reader string
	Read   Read
}

// CheckCache is the C15 oracle over all recorded cached reads: prefix consistency (never a partially bootstrapped view, never
// ahead of the store), monotonicity per reader, and "at least as new as the notification" for reads made inside MapInput.
//
//nolint:gocyclo,cyclop,gocognit
func CheckCache(w *World, extra []CachedRead) (ps []Problem, checked, mapChecked int) {
	log := w.Px.Log()
	cached := map[Kind]bool{}

	for _, k := range w.Cfg.Cached {
		cached[k] = true
	}

	hists := map[Kind]*KindHist{}
	boot := map[Kind]int{}

	for k := range cached {
		hists[k] = BuildHist(log, k)
		boot[k] = -1

		for _, wr := range w.Px.Watches() {
			if wr.Kind == "agg" && wr.Err == "" && wr.Key.NS == k.NS && wr.Key.Type == k.Type {
				boot[k] = hists[k].Idx(wr.Lo)

				break
			}
		}
	}

	bad := func(probe, sig, f string, a ...any) {
		ps = append(ps, Problem{Sig: sig, Probe: probe, Detail: fmt.Sprintf(f, a...)})
	}

	// lower bound (history index) already proven per reader and resource
	seen := map[string]int{}

	judge := func(reader string, rd Read, notBefore int, what string) {
		k := Kind{rd.Key.NS, rd.Key.Type}
		if !cached[k] || rd.Uncached || rd.Err != "" {
			return
		}

		h := hists[k]
		hi := h.Idx(rd.Hi)
		lo := boot[k]

		if lo < 0 {
			bad(reader, "cached-read-before-watch", "%s: cached read of %v returned although the kind was never watched", what, rd.Key)

			return
		}

		checked++

		var (
			matches []int
			monoKey string
		)

		if rd.List {
			matches = h.MatchList(rd.Items, 0, len(h.States))
			monoKey = reader + "|list|" + k.NS + "/" + k.Type
		} else {
			matches = h.MatchGet(rd.Key.ID, rd.Val, 0, len(h.States))
			monoKey = reader + "|get|" + rd.Key.String()
		}

		pick := -1

		for _, m := range matches {
			if m >= lo && m <= hi && m >= seen[monoKey] && m >= notBefore {
				pick = m

				break
			}
		}

		if pick >= 0 {
			seen[monoKey] = pick

			return
		}

		var desc string
		if rd.List {
			desc = fmt.Sprintf("%d items", len(rd.Items))
		} else {
			desc = Desc(rd.Val)
		}

		switch {
		case len(matches) == 0:
			bad(reader, "cached-read-matches-no-prefix", "%s: cached read of %v returned %s, which is the state after no prefix of the kind's commit log (torn / partially bootstrapped view)", what, rd.Key, desc)
		case matches[len(matches)-1] < lo:
			bad(reader, "cached-read-partial-bootstrap", "%s: cached read of %v returned %s = state after %d commits, older than the bootstrap snapshot (>= %d commits)", what, rd.Key, desc, matches[len(matches)-1], lo)
		case matches[0] > hi:
			bad(reader, "cached-read-ahead-of-store", "%s: cached read of %v returned a state (%d commits) not yet committed when the read returned (%d)", what, rd.Key, matches[0], hi)
		case notBefore > 0 && matches[len(matches)-1] < notBefore:
			bad(reader, "cached-read-older-than-notification", "%s: cached read of %v returned %s = state after at most %d commits of the kind, but the notification that woke the reader is commit #%d of the kind", what, rd.Key, desc, matches[len(matches)-1], notBefore)
		default:
			bad(reader, "cached-read-went-backwards", "%s: cached read of %v returned %s matching prefixes %v, but this reader had already seen prefix %d", what, rd.Key, desc, matches, seen[monoKey])
		}
	}

	// index of the commit that wrote each token, per kind
	tokIdx := map[string]int{}

	for k, h := range hists {
		for i, seq := range h.Seqs {
			c := log[seq]
			if c.Post != nil {
				tokIdx[k.NS+"/"+k.Type+"/"+c.Post.Labels["tok"]] = i + 1
			}
		}
	}

	for _, wk := range w.Wakes() {
		reader := wk.Probe
		if wk.Kind != "run" {
			reader += "|" + wk.Target.String()
		}

		for i, rd := range wk.Reads {
			notBefore := 0

			if wk.Kind == "map" && i == 0 && wk.TrigTok != "" {
				notBefore = tokIdx[rd.Key.NS+"/"+rd.Key.Type+"/"+wk.TrigTok]

				if cached[Kind{rd.Key.NS, rd.Key.Type}] {
					mapChecked++
				}
			}

			judge(reader+"|"+wk.Kind, rd, notBefore, fmt.Sprintf("%s %s #%d at %.1fms", wk.Probe, wk.Kind, wk.N, wk.AtMS))
		}
	}

	for _, e := range extra {
		judge(e.Reader, e.Read, 0, e.Reader)
	}

	return ps, checked, mapChecked
}
