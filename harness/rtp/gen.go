package rtp

import (
	"context"
	"fmt"
	"math/rand/v2"
	"strings"
	"sync"
	"testing/synctest"
	"time"

	"github.com/siderolabs/gen/optional"

	"github.com/cosi-project/runtime/pkg/controller"

	"verif/harness/gp"
	"verif/harness/res"
)

// Kinds is the universe of kinds used by generated scenarios.
var Kinds = []Kind{{"n1", res.TypeA}, {"n1", res.TypeB}, {"n2", res.TypeA}}

// IDs is the universe of ids.
var IDs = []string{"x", "y", "z"}

// GenOpts steers the configuration generator.
type GenOpts struct {
	MaxCtrls, MaxQ    int
	CachedProb        float64
	AllowFilterShadow bool // allow a DestroyReady input next to another input of the same kind in one controller
	NoLate            bool
	NoByIDMapped      bool // no queue-controller mapped inputs declared by ID
}

// GenCfg draws a runtime configuration.
func GenCfg(rng *rand.Rand, o GenOpts) Cfg {
	cfg := Cfg{MaxDelay: rng.IntN(4)}

	for _, k := range Kinds {
		if rng.Float64() < o.CachedProb {
			cfg.Cached = append(cfg.Cached, k)
		}
	}

	nc := rng.IntN(o.MaxCtrls + 1)
	nq := rng.IntN(o.MaxQ + 1)

	if nc+nq == 0 {
		nc = 1
	}

	for i := 0; i < nc; i++ {
		c := CtrlCfg{Name: fmt.Sprintf("C%d", i), LateAt: -1, Late: !o.NoLate && rng.IntN(3) == 0}
		used := map[string]bool{}
		kindsDR := map[Kind]bool{}
		kindsOther := map[Kind]bool{}

		draw := func() (controller.Input, bool) {
			k := Kinds[rng.IntN(len(Kinds))]
			in := controller.Input{Namespace: k.NS, Type: k.Type, Kind: []controller.InputKind{controller.InputWeak, controller.InputWeak, controller.InputStrong, controller.InputDestroyReady}[rng.IntN(4)]}

			if rng.IntN(5) < 2 {
				in.ID = optional.Some(IDs[rng.IntN(len(IDs))])
			}

			key := fmt.Sprintf("%s|%s|%v", in.Namespace, in.Type, in.ID)
			if used[key] {
				return in, false
			}

			if !o.AllowFilterShadow {
				if in.Kind == controller.InputDestroyReady && kindsOther[k] || in.Kind != controller.InputDestroyReady && kindsDR[k] {
					return in, false
				}
			}

			used[key] = true

			if in.Kind == controller.InputDestroyReady {
				kindsDR[k] = true
			} else {
				kindsOther[k] = true
			}

			return in, true
		}

		for n := 1 + rng.IntN(3); n > 0; n-- {
			if in, ok := draw(); ok {
				c.Inputs = append(c.Inputs, in)
			}
		}

		if rng.IntN(3) == 0 {
			if in, ok := draw(); ok {
				c.LateInputs = []controller.Input{in}
				c.LateAt = 1 + rng.IntN(2)
			}
		}

		// every fourth controller re-declares its inputs with other kinds on an early wake (destroy-ready -> weak/strong, weak <-> strong)
		if i%4 == 1 || (len(c.Inputs) > 0 && c.Inputs[0].Kind == controller.InputDestroyReady && i%2 == 0) {
			c.LateKindFlip = true

			if c.LateAt < 0 {
				c.LateAt = 1 + (i+len(c.Inputs))%2
			}
		}

		c.BusyBefore = []int{rng.IntN(4), rng.IntN(8), 0}
		c.BusyAfter = []int{rng.IntN(3), 0, rng.IntN(10)}
		cfg.Ctrls = append(cfg.Ctrls, c)
	}

	for i := 0; i < nq; i++ {
		q := QCfg{Name: fmt.Sprintf("Q%d", i), Late: !o.NoLate && rng.IntN(3) == 0, Concurrency: uint(1 + rng.IntN(3))}
		perm := rng.Perm(len(Kinds))
		p := Kinds[perm[0]]
		q.Inputs = append(q.Inputs, controller.Input{Namespace: p.NS, Type: p.Type, Kind: controller.InputQPrimary})

		for _, j := range perm[1:] {
			// now and then a mapped kind is declared by ID, twice: one resource as a plain mapped input, its sibling of the same kind as a
			// destroy-ready one (in either order) - each input keeps its own notification rule
			if !o.NoByIDMapped && len(IDs) >= 2 && rng.IntN(5) == 0 {
				a := rng.IntN(len(IDs))
				b := (a + 1 + rng.IntN(len(IDs)-1)) % len(IDs)
				pair := []controller.Input{
					{Namespace: Kinds[j].NS, Type: Kinds[j].Type, ID: optional.Some(IDs[a]), Kind: controller.InputQMapped},
					{Namespace: Kinds[j].NS, Type: Kinds[j].Type, ID: optional.Some(IDs[b]), Kind: controller.InputQMappedDestroyReady},
				}

				if rng.IntN(2) == 0 {
					pair[0], pair[1] = pair[1], pair[0]
				}

				q.Inputs = append(q.Inputs, pair...)
				cfg.ByIDMapped++

				continue
			}

			switch rng.IntN(4) {
			case 0, 1:
				q.Inputs = append(q.Inputs, controller.Input{Namespace: Kinds[j].NS, Type: Kinds[j].Type, Kind: controller.InputQMapped})
			case 2:
				q.Inputs = append(q.Inputs, controller.Input{Namespace: Kinds[j].NS, Type: Kinds[j].Type, Kind: controller.InputQMappedDestroyReady})
			}
		}

		q.Busy = []int{rng.IntN(4), rng.IntN(10), 0, 1}
		cfg.QCtrls = append(cfg.QCtrls, q)
	}

	return cfg
}

// Scenario drives a world through write phases separated by quiescent points.
type Scenario struct {
	W      *World
	Rng    *rand.Rand
	Ctx    context.Context //nolint:containedctx
	Cancel context.CancelFunc
	Trace  []string
	// Stats
	Writes, Coalesced int
}

func randFor(rng *rand.Rand) string {
	var ids []string

	for _, id := range IDs {
		if rng.IntN(3) == 0 {
			ids = append(ids, id)
		}
	}

	return strings.Join(ids, ",")
}

// RandomWrite performs one seeded external write.
func (s *Scenario) RandomWrite(rng *rand.Rand) {
	k := Kinds[rng.IntN(len(Kinds))]
	key := gp.Key{NS: k.NS, Type: k.Type, ID: IDs[rng.IntN(len(IDs))]}
	cur := s.W.Px.Shadow(key)

	var op WriteOp

	switch p := rng.IntN(100); {
	case cur == nil:
		op = WCreate
	case p < 45:
		op = WUpdate
	case p < 55:
		op = WAddFin
	case p < 68:
		op = WRmFin
	case p < 80:
		op = WTeardown
	default:
		op = WDestroy
	}

	err := s.W.Write(s.Ctx, op, key, randFor(rng))

	s.W.mu.Lock()
	s.Trace = append(s.Trace, fmt.Sprintf("%.0fms write op=%d %s err=%v", s.W.since(), op, key, err != nil))
	s.Writes++
	s.W.mu.Unlock()
}

// Burst runs n writes spread over nWriters goroutines with small random virtual gaps, and waits for them.
func (s *Scenario) Burst(n, nWriters int) { s.BurstFn(n, nWriters)() }

// BurstFn draws the writers' PRNGs now (on the caller's goroutine) and returns the function that runs the burst.
func (s *Scenario) BurstFn(n, nWriters int) func() {
	rngs := make([]*rand.Rand, nWriters)
	for i := range rngs {
		rngs[i] = rand.New(rand.NewPCG(s.Rng.Uint64(), uint64(i)))
	}

	return func() { s.burst(n, rngs) }
}

func (s *Scenario) burst(n int, rngs []*rand.Rand) {
	var wg sync.WaitGroup

	nWriters := len(rngs)

	for i := 0; i < nWriters; i++ {
		rng := rngs[i]
		cnt := n / nWriters

		wg.Add(1)

		go func() {
			defer wg.Done()

			for j := 0; j < cnt; j++ {
				s.RandomWrite(rng)

				if rng.IntN(3) != 0 { // two thirds of the writes are followed by a gap, one third land in the same instant
					time.Sleep(time.Duration(rng.IntN(4)) * time.Millisecond)
				}
			}
		}()
	}

	wg.Wait()
}

// Quiesce waits until nothing is runnable and no timer is due within the horizon.
func Quiesce(h time.Duration) {
	time.Sleep(h)
	synctest.Wait()
}

// Settle waits until nothing is runnable right now (does not advance the clock).
func Settle() { synctest.Wait() }
