package rtp

import (
	"fmt"
	"slices"
	"strings"

	"github.com/cosi-project/runtime/pkg/controller"

	"verif/harness/gp"
)

// Problem is one oracle failure.
type Problem struct {
	Sig    string `json:"sig"`
	Detail string `json:"detail"`
	Probe  string `json:"probe,omitempty"`
}

// Eq compares two observed values (nil = absent).
func Eq(a, b *gp.Snap) bool {
	if a == nil || b == nil {
		return a == b
	}

	fa, fb := slices.Clone(a.Fins), slices.Clone(b.Fins)
	slices.Sort(fa)
	slices.Sort(fb)

	return a.Ver == b.Ver && a.Owner == b.Owner && a.Phase == b.Phase && slices.Equal(fa, fb) && a.Token == b.Token && a.Labels["tok"] == b.Labels["tok"]
}

// Desc renders a value.
func Desc(s *gp.Snap) string {
	if s == nil {
		return "absent"
	}

	return fmt.Sprintf("{v%d %s fins=%v tok=%s for=%q owner=%q}", s.Ver, s.Phase, s.Fins, s.Labels["tok"], s.Labels["for"], s.Owner)
}

func destroyReady(s *gp.Snap) bool { return s != nil && s.TearingDown() && len(s.Fins) == 0 }

func lastWake(wakes []*Wake, probe, kind string, target *gp.Key) *Wake {
	var best *Wake

	for _, w := range wakes {
		if w.Probe != probe || w.Kind != kind {
			continue
		}

		if target != nil && w.Target != *target {
			continue
		}

		if best == nil || w.AtMS > best.AtMS || (w.AtMS == best.AtMS && w.N > best.N) {
			best = w
		}
	}

	return best
}

func findRead(w *Wake, k gp.Key, list bool) *Read {
	for i := range w.Reads {
		r := &w.Reads[i]
		if r.List == list && r.Key == k {
			return r
		}
	}

	return nil
}

// everExisted returns, per kind, the ids that existed at log position from or were written at/after it, with their last
// value (the value before destruction, if destroyed). presentOnly=false additionally requires a commit at/after from.
func everExisted(log []gp.Commit, from int, needCommitSince bool) map[Kind]map[string]*gp.Snap {
	out := map[Kind]map[string]*gp.Snap{}
	present := map[gp.Key]bool{}

	for _, c := range log {
		if c.Op == "note" {
			continue
		}

		if c.Seq < from {
			present[c.Key] = c.Op != "destroy"
		}
	}

	touched := map[gp.Key]bool{}

	for _, c := range log {
		if c.Op != "note" && c.Seq >= from {
			touched[c.Key] = true
		}
	}

	for _, c := range log {
		if c.Op == "note" {
			continue
		}

		if !touched[c.Key] && (needCommitSince || !present[c.Key]) {
			continue
		}

		k := Kind{c.Key.NS, c.Key.Type}
		if out[k] == nil {
			out[k] = map[string]*gp.Snap{}
		}

		if c.Post != nil {
			out[k][c.Key.ID] = c.Post
		} else if c.Pre != nil {
			out[k][c.Key.ID] = c.Pre
		}
	}

	return out
}

// SigFilterShadow is the signature of the recorded C05 finding (a DestroyReady input's filter shadows a sibling input of the same kind).
const SigFilterShadow = "destroyready-filter-shadows-sibling-input"

func hasDestroyReadySibling(inputs []controller.Input, in controller.Input) bool {
	for _, o := range inputs {
		if o.Kind == controller.InputDestroyReady && o.Namespace == in.Namespace && o.Type == in.Type {
			return true
		}
	}

	return false
}

// CheckWakeups is the C05 oracle, evaluated at a quiescent point: the last state each probe observed for its inputs is the current state.
//
//nolint:gocyclo,cyclop,gocognit
func CheckWakeups(w *World, skip func(probe string) bool) []Problem {
	var ps []Problem

	cur := w.Px.ShadowAll()
	log := w.Px.Log()
	wakes := w.Wakes()

	bad := func(probe, sig, f string, a ...any) {
		ps = append(ps, Problem{Sig: sig, Probe: probe, Detail: fmt.Sprintf(f, a...)})
	}

	for name, p := range w.Probes() {
		if w.RegErrs[name] != nil || (skip != nil && skip(name)) {
			continue
		}

		lw := lastWake(wakes, name, "run", nil)
		if lw == nil {
			bad(name, "controller-never-woke", "controller %s was never reconciled (no initial wake-up)", name)

			continue
		}

		inputs := p.CurrentInputs()

		for _, in := range inputs {
			k := gp.Key{NS: in.Namespace, Type: in.Type}
			id, byID := in.ID.Get()
			k.ID = id

			rd := findRead(lw, k, !byID)
			if rd == nil {
				continue // input added after this wake's reads (UpdateInputs in progress)
			}

			if rd.Err != "" {
				bad(name, "probe-read-error", "read of %v failed: %s", k, rd.Err)

				continue
			}

			check := func(id string, seen *gp.Snap) {
				now := cur[gp.Key{NS: in.Namespace, Type: in.Type, ID: id}]

				if in.Kind == controller.InputDestroyReady && !destroyReady(now) {
					return
				}

				if !Eq(seen, now) {
					sig := "stale-observation"
					if in.Kind != controller.InputDestroyReady && hasDestroyReadySibling(inputs, in) {
						sig = SigFilterShadow
					}

					bad(name, sig, "controller %s (input %s kind=%d byID=%v) last observed %s/%s/%s as %s on wake %d at %.1fms, but it is %s (no wake-up since)",
						name, in.Type, in.Kind, byID, in.Namespace, in.Type, id, Desc(seen), lw.N, lw.AtMS, Desc(now))
				}
			}

			if byID {
				check(id, rd.Val)
			} else {
				ids := map[string]bool{}
				for i := range rd.Items {
					ids[i] = true
				}

				for ck := range cur {
					if ck.NS == in.Namespace && ck.Type == in.Type {
						ids[ck.ID] = true
					}
				}

				for i := range ids {
					check(i, rd.Items[i])
				}
			}
		}
	}

	for name, q := range w.QProbes() {
		if w.RegErrs[name] != nil || (skip != nil && skip(name)) {
			continue
		}

		prim := q.primary()
		// only changes from the point where the controller was registered AND the kind's watch was established are owed to it
		cutoff := func(k Kind) int {
			c := w.StartSeq[name]

			for _, wr := range w.Px.Watches() {
				if wr.Kind == "agg" && wr.Err == "" && wr.Key.NS == k.NS && wr.Key.Type == k.Type {
					return max(c, wr.Hi)
				}
			}

			return len(log)
		}
		ever := everExisted(log, cutoff(prim), false)

		// every primary that ever existed (incl. pre-existing ones) was reconciled and its last reconcile saw the current state
		for id := range ever[prim] {
			k := gp.Key{NS: prim.NS, Type: prim.Type, ID: id}
			lw := lastWake(wakes, name, "reconcile", &k)

			if lw == nil {
				bad(name, "primary-never-reconciled", "queue controller %s never reconciled primary %v (now %s)", name, k, Desc(cur[k]))

				continue
			}

			rd := findRead(lw, k, false)
			if rd == nil || rd.Err != "" {
				bad(name, "probe-read-error", "reconcile of %v has no usable read: %+v", k, rd)

				continue
			}

			if !Eq(rd.Val, cur[k]) {
				bad(name, "stale-observation", "queue controller %s last reconciled %v at %.1fms seeing %s, but it is %s", name, k, lw.AtMS, Desc(rd.Val), Desc(cur[k]))
			}
		}

		// mapped inputs: every primary named by the mapper on the mapped resource's last value has seen its current state
		for _, in := range q.cfg.Inputs {
			if in.Kind != controller.InputQMapped && in.Kind != controller.InputQMappedDestroyReady {
				continue
			}

			mk := Kind{in.Namespace, in.Type}
			everMapped := everExisted(log, cutoff(mk), true)

			for mid, last := range everMapped[mk] {
				if id, byID := in.ID.Get(); byID && id != mid {
					continue
				}

				mkey := gp.Key{NS: mk.NS, Type: mk.Type, ID: mid}
				now := cur[mkey]

				if in.Kind == controller.InputQMappedDestroyReady && !destroyReady(now) {
					continue
				}

				for _, pid := range strings.Split(last.Labels["for"], ",") {
					if pid == "" {
						continue
					}

					pk := gp.Key{NS: prim.NS, Type: prim.Type, ID: pid}
					lw := lastWake(wakes, name, "reconcile", &pk)

					if lw == nil {
						bad(name, "mapped-change-never-reached-primary", "queue controller %s: mapped %v (last %s) names primary %s which was never reconciled", name, mkey, Desc(last), pid)

						continue
					}

					if in.ID.IsPresent() { // declared by ID: read by ID
						rd := findRead(lw, mkey, false)
						if rd == nil || rd.Err != "" {
							bad(name, "probe-read-error", "reconcile of %v has no usable read of %v: %+v", pk, mkey, rd)

							continue
						}

						if !Eq(rd.Val, now) {
							bad(name, "mapped-change-never-reached-primary", "queue controller %s: primary %s last reconciled at %.1fms saw mapped %v (declared by ID) as %s, but it is %s (its mapper names %s)",
								name, pid, lw.AtMS, mkey, Desc(rd.Val), Desc(now), pid)
						}

						continue
					}

					rd := findRead(lw, gp.Key{NS: mk.NS, Type: mk.Type}, true)
					if rd == nil || rd.Err != "" {
						bad(name, "probe-read-error", "reconcile of %v has no usable list of %v: %+v", pk, mk, rd)

						continue
					}

					if !Eq(rd.Items[mid], now) {
						bad(name, "mapped-change-never-reached-primary", "queue controller %s: primary %s last reconciled at %.1fms saw mapped %v as %s, but it is %s (its mapper names %s)",
							name, pid, lw.AtMS, mkey, Desc(rd.Items[mid]), Desc(now), pid)
					}
				}
			}
		}
	}

	return ps
}
