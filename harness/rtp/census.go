package rtp

import (
	"regexp"
	"runtime"
	"strings"
)

var bubbleRe = regexp.MustCompile(`^goroutine \d+(?: gp=\S+ m=\S+(?: mp=\S+)?)? \[[^\]]*synctest bubble (\d+)[^\]]*\]`)

// Census returns the goroutines of the caller's synctest bubble: total count and the stacks of those that are inside
// cosi-project/runtime code (or anything else that matches extra).
func Census(extra ...string) (total int, repo []string) {
	buf := make([]byte, 1<<20)

	for {
		n := runtime.Stack(buf, true)
		if n < len(buf) {
			buf = buf[:n]

			break
		}

		buf = make([]byte, 2*len(buf))
	}

	blocks := strings.Split(string(buf), "\n\n")
	if len(blocks) == 0 {
		return 0, nil
	}

	m := bubbleRe.FindStringSubmatch(blocks[0])
	if m == nil {
		return -1, nil // not in a bubble
	}

	mine := m[1]

	for _, b := range blocks {
		mm := bubbleRe.FindStringSubmatch(b)
		if mm == nil || mm[1] != mine {
			continue
		}

		total++

		hit := strings.Contains(b, "github.com/cosi-project/runtime/")
		for _, e := range extra {
			hit = hit || strings.Contains(b, e)
		}

		if hit {
			repo = append(repo, b)
		}
	}

	return total, repo
}
