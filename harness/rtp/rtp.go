// Package rtp (runtime probes) runs the real controller runtime over a gate+recording proxy with probe
// controllers of both flavours, seeded writers and fault plans, inside a synctest bubble. It records what every
// probe observed on every wake-up; the property oracles (C05, C15, C16, C17, C08, C09) read those records.
package rtp

import (
	"context"
	"errors"
	"fmt"
	"io"
	"math/rand/v2"
	"os"
	"slices"
	"strings"
	"sync"
	"sync/atomic"
	"time"

	"github.com/siderolabs/gen/optional"
	"github.com/siderolabs/gen/xerrors"
	"go.uber.org/zap"

	"github.com/cosi-project/runtime/pkg/controller"
	"github.com/cosi-project/runtime/pkg/controller/generic/qtransform"
	"github.com/cosi-project/runtime/pkg/controller/runtime"
	"github.com/cosi-project/runtime/pkg/controller/runtime/options"
	"github.com/cosi-project/runtime/pkg/resource"
	"github.com/cosi-project/runtime/pkg/state"
	"github.com/cosi-project/runtime/pkg/state/impl/inmem"
	"github.com/cosi-project/runtime/pkg/state/impl/namespaced"

	"verif/harness/gp"
	"verif/harness/res"
)

// Kind is a (namespace, type) pair.
type Kind struct{ NS, Type string }

// Read is one read performed by a probe through the runtime API.
type Read struct {
	Key      gp.Key              `json:"key"`
	List     bool                `json:"list,omitempty"`
	Uncached bool                `json:"uncached,omitempty"`
	Lo       int                 `json:"lo"`
	Hi       int                 `json:"hi"`
	Val      *gp.Snap            `json:"val,omitempty"`
	Items    map[string]*gp.Snap `json:"items,omitempty"`
	Err      string              `json:"err,omitempty"`
	NotFound bool                `json:"not_found,omitempty"`
}

// Wake is one invocation of a probe (a Run-loop wake-up, a Reconcile or a MapInput).
type Wake struct {
	Probe   string   `json:"probe"`
	Kind    string   `json:"kind"` // run | reconcile | map | hook
	N       int      `json:"n"`
	Target  gp.Key   `json:"target,omitempty"`
	AtMS    float64  `json:"at_ms"`
	EndMS   float64  `json:"end_ms"`
	Reads   []Read   `json:"reads,omitempty"`
	Fault   string   `json:"fault,omitempty"`
	TrigTok string   `json:"trig_tok,omitempty"`
	TrigFor string   `json:"trig_for,omitempty"`
	TrigTD  bool     `json:"trig_tearing_down,omitempty"`
	TrigFE  bool     `json:"trig_fins_empty,omitempty"`
	Mapped  []string `json:"mapped,omitempty"`
	Worker  int64    `json:"-"`
}

// CtrlCfg configures a probe controller.Controller.
type CtrlCfg struct {
	Name       string
	Inputs     []controller.Input
	Outputs    []controller.Output
	LateInputs []controller.Input // added through UpdateInputs on wake LateAt (if >= 0)
	LateAt     int
	// LateKindFlip: on wake LateAt the current inputs are re-declared with other kinds (destroy-ready -> weak or strong, weak <-> strong)
	LateKindFlip bool
	BusyBefore   []int // virtual ms per wake (cycled)
	BusyAfter    []int
	Late         bool                                                   // registered after Run has started
	Faults       map[int]string                                         // wake index -> "err" | "panic"
	ResetAt      int                                                    // call ResetRestartBackoff on this wake (if > 0)
	Script       func(ctx context.Context, r controller.Runtime, n int) `json:"-"` // optional extra behaviour on each wake (C08)
	// InputsHook, if set, runs inside Inputs() (i.e. while the runtime is in the middle of registering the controller)
	InputsHook func() `json:"-"`
}

// QCfg configures a probe controller.QController.
type QCfg struct {
	Name        string
	Inputs      []controller.Input
	Outputs     []controller.Output
	Concurrency uint
	// ConcurrencySet forces the Concurrency value to be passed even when it is 0 (invalid on purpose).
	ConcurrencySet bool
	Busy           []int
	Late           bool
	// Outcome by (kind,"id") invocation count: "ok" | "err" | "panic" | "requeue:<ms>" | "requeueerr:<ms>" | "skip"
	Outcomes   map[string][]string
	MapFaults  map[int]string // MapInput invocation index -> "err" | "panic"
	HookFaults []string       // run hook invocation outcomes: "err" | "panic" | "block"
	HasHook    bool
	Script     func(ctx context.Context, r controller.QRuntime, ptr resource.Pointer, n int) `json:"-"`
}

// Cfg configures a world.
type Cfg struct {
	Ctrls         []CtrlCfg
	QCtrls        []QCfg
	Cached        []Kind
	MaxDelay      int
	Metrics       bool
	NoGateOnReads bool
	// MergeBatches: the proxy re-batches aggregated watch events (a batch may absorb the batches that follow it)
	MergeBatches bool
	// ByIDMapped counts the mapped kinds of queue controllers that are declared by ID (a mapped and a destroy-ready sibling)
	ByIDMapped int
}

// World is one runtime under observation.
type World struct {
	Cfg   Cfg
	Px    *gp.Proxy
	St    state.State
	RT    *runtime.Runtime
	Start time.Time

	mu     sync.Mutex
	wakes  []*Wake
	tokSeq int

	RunErr      error
	RunReturned atomic.Bool
	runDone     chan struct{}
	RegErrs     map[string]error
	// StartSeq is the commit-log length after a controller's registration returned (late ones) or when Run was called (early ones).
	StartSeq map[string]int

	probes  map[string]*Probe
	qprobes map[string]*QProbe
}

func (w *World) since() float64 { return float64(time.Since(w.Start).Microseconds()) / 1000 }

func (w *World) record(k *Wake) {
	w.mu.Lock()
	w.wakes = append(w.wakes, k)
	w.mu.Unlock()
}

// Wakes returns a copy of all recorded wakes.
func (w *World) Wakes() []*Wake { w.mu.Lock(); defer w.mu.Unlock(); return slices.Clone(w.wakes) }

// NewWorld builds state, proxy, runtime and registers the early controllers.
func NewWorld(rng *rand.Rand, cfg Cfg) (*World, error) {
	inner := namespaced.NewState(func(ns resource.Namespace) state.CoreState { return inmem.NewState(ns) })
	px := gp.New(inner, rand.New(rand.NewPCG(rng.Uint64(), 7)), cfg.MaxDelay)
	px.MergeBatches = cfg.MergeBatches

	w := &World{Cfg: cfg, Px: px, St: state.WrapCore(px), Start: time.Now(), runDone: make(chan struct{}), RegErrs: map[string]error{}, StartSeq: map[string]int{}, probes: map[string]*Probe{}, qprobes: map[string]*QProbe{}}

	opts := []options.Option{options.WithMetrics(cfg.Metrics)}
	for _, k := range cfg.Cached {
		opts = append(opts, options.WithCachedResource(k.NS, k.Type))
	}

	rt, err := runtime.NewRuntime(w.St, zap.NewNop(), opts...)
	if err != nil {
		return nil, err
	}

	w.RT = rt

	for i := range cfg.Ctrls {
		if !cfg.Ctrls[i].Late {
			w.RegErrs[cfg.Ctrls[i].Name] = w.RegisterCtrl(&cfg.Ctrls[i])
		}
	}

	for i := range cfg.QCtrls {
		if !cfg.QCtrls[i].Late {
			w.RegErrs[cfg.QCtrls[i].Name] = w.RegisterQ(&cfg.QCtrls[i])
		}
	}

	return w, nil
}

// RegisterCtrl registers a probe controller.
func (w *World) RegisterCtrl(c *CtrlCfg) error {
	p := &Probe{w: w, cfg: c, inputs: slices.Clone(c.Inputs)}
	w.mu.Lock()
	w.probes[c.Name] = p
	w.mu.Unlock()

	return w.RT.RegisterController(p)
}

// RegisterQ registers a probe queue controller.
func (w *World) RegisterQ(c *QCfg) error {
	p := &QProbe{w: w, cfg: c, counts: map[string]int{}}
	w.mu.Lock()
	w.qprobes[c.Name] = p
	w.mu.Unlock()

	return w.RT.RegisterQController(p)
}

// RegisterLate registers all controllers marked Late.
func (w *World) RegisterLate() {
	for i := range w.Cfg.Ctrls {
		if w.Cfg.Ctrls[i].Late {
			w.RegErrs[w.Cfg.Ctrls[i].Name] = w.RegisterCtrl(&w.Cfg.Ctrls[i])
			w.StartSeq[w.Cfg.Ctrls[i].Name] = w.Px.Len()
		}
	}

	for i := range w.Cfg.QCtrls {
		if w.Cfg.QCtrls[i].Late {
			w.RegErrs[w.Cfg.QCtrls[i].Name] = w.RegisterQ(&w.Cfg.QCtrls[i])
			w.StartSeq[w.Cfg.QCtrls[i].Name] = w.Px.Len()
		}
	}
}

// Run starts the runtime in a goroutine.
func (w *World) Run(ctx context.Context) {
	n := w.Px.Len()

	for i := range w.Cfg.Ctrls {
		if !w.Cfg.Ctrls[i].Late {
			w.StartSeq[w.Cfg.Ctrls[i].Name] = n
		}
	}

	for i := range w.Cfg.QCtrls {
		if !w.Cfg.QCtrls[i].Late {
			w.StartSeq[w.Cfg.QCtrls[i].Name] = n
		}
	}

	go func() {
		defer close(w.runDone)

		w.RunErr = w.RT.Run(ctx)
		w.RunReturned.Store(true)
	}()
}

// WaitRun waits for Run to return.
func (w *World) WaitRun() { <-w.runDone }

// ---------------------------------------------------------------------------------------------
// writers

// Ptr builds a pointer.
func Ptr(k gp.Key) resource.Pointer {
	return resource.NewMetadata(k.NS, k.Type, k.ID, resource.VersionUndefined)
}

// NextTok returns a fresh unique token.
func (w *World) NextTok() string {
	w.mu.Lock()
	defer w.mu.Unlock()

	w.tokSeq++

	return fmt.Sprintf("t%d", w.tokSeq)
}

// WriteOp is a writer operation.
type WriteOp int

// Writer operations.
const (
	WCreate WriteOp = iota
	WUpdate
	WTeardown
	WAddFin
	WRmFin
	WDestroy
)

// Write performs one external write; forIDs populates the "for" label (mapping targets).
func (w *World) Write(ctx context.Context, op WriteOp, k gp.Key, forIDs string) error {
	ctx = gp.WithActor(ctx, "writer")
	tok := w.NextTok()

	switch op {
	case WCreate:
		r := res.New(k.NS, k.Type, k.ID)
		res.SpecOf(r).Token = tok
		r.Metadata().Labels().Set("tok", tok)
		r.Metadata().Labels().Set("for", forIDs)

		return w.St.Create(ctx, r)
	case WUpdate:
		_, err := w.St.UpdateWithConflicts(ctx, Ptr(k), func(r resource.Resource) error {
			res.SpecOf(r).Token = tok
			r.Metadata().Labels().Set("tok", tok)
			r.Metadata().Labels().Set("for", forIDs)

			return nil
		}, state.WithExpectedPhaseAny())

		return err
	case WTeardown:
		_, err := w.St.UpdateWithConflicts(ctx, Ptr(k), func(r resource.Resource) error {
			r.Metadata().SetPhase(resource.PhaseTearingDown)
			r.Metadata().Labels().Set("tok", tok)

			return nil
		}, state.WithExpectedPhaseAny())

		return err
	case WAddFin:
		_, err := w.St.UpdateWithConflicts(ctx, Ptr(k), func(r resource.Resource) error {
			r.Metadata().Finalizers().Add("ext")
			r.Metadata().Labels().Set("tok", tok)

			return nil
		}, state.WithExpectedPhaseAny())

		return err
	case WRmFin:
		_, err := w.St.UpdateWithConflicts(ctx, Ptr(k), func(r resource.Resource) error {
			r.Metadata().Finalizers().Remove("ext")
			r.Metadata().Labels().Set("tok", tok)

			return nil
		}, state.WithExpectedPhaseAny())

		return err
	case WDestroy:
		cur, err := w.St.Get(ctx, Ptr(k))
		if err != nil {
			return err
		}

		return w.St.Destroy(ctx, Ptr(k), state.WithDestroyOwner(cur.Metadata().Owner()))
	}

	return nil
}

// ---------------------------------------------------------------------------------------------
// probe controller.Controller

// Probe is a recording controller.
type Probe struct {
	w      *World
	cfg    *CtrlCfg
	n      atomic.Int64
	runs   atomic.Int64
	mu     sync.Mutex
	inputs []controller.Input
	// RunStarts are the virtual times (ms) at which Run was entered.
	RunStarts []float64
}

// Name implements controller.Controller.
func (p *Probe) Name() string { return p.cfg.Name }

// Inputs implements controller.Controller.
func (p *Probe) Inputs() []controller.Input {
	if p.cfg.InputsHook != nil {
		p.cfg.InputsHook()
	}

	return slices.Clone(p.cfg.Inputs)
}

// Outputs implements controller.Controller.
func (p *Probe) Outputs() []controller.Output { return slices.Clone(p.cfg.Outputs) }

// CurrentInputs returns the inputs currently declared.
func (p *Probe) CurrentInputs() []controller.Input {
	p.mu.Lock()
	defer p.mu.Unlock()
	return slices.Clone(p.inputs)
}

// Starts returns the Run entry times.
func (p *Probe) Starts() []float64 {
	p.mu.Lock()
	defer p.mu.Unlock()
	return slices.Clone(p.RunStarts)
}

func sleepCtx(ctx context.Context, ms int) {
	if ms <= 0 {
		return
	}

	select {
	case <-ctx.Done():
	case <-time.After(time.Duration(ms) * time.Millisecond):
	}
}

func cyc(s []int, n int) int {
	if len(s) == 0 {
		return 0
	}

	return s[n%len(s)]
}

// Run implements controller.Controller.
func (p *Probe) Run(ctx context.Context, r controller.Runtime, _ *zap.Logger) error {
	p.mu.Lock()
	p.RunStarts = append(p.RunStarts, p.w.since())
	p.mu.Unlock()
	p.runs.Add(1)

	for {
		select {
		case <-ctx.Done():
			return nil
		case <-r.EventCh():
		}

		n := int(p.n.Add(1)) - 1
		wk := &Wake{Probe: p.cfg.Name, Kind: "run", N: n, AtMS: p.w.since()}

		sleepCtx(ctx, cyc(p.cfg.BusyBefore, n))

		if p.cfg.LateAt >= 0 && n == p.cfg.LateAt && (len(p.cfg.LateInputs) > 0 || p.cfg.LateKindFlip) {
			p.mu.Lock()
			all := slices.Clone(p.inputs)

			if p.cfg.LateKindFlip {
				for i := range all {
					switch all[i].Kind {
					case controller.InputDestroyReady:
						all[i].Kind = []controller.InputKind{controller.InputWeak, controller.InputStrong}[i%2]
					case controller.InputWeak:
						all[i].Kind = controller.InputStrong
					case controller.InputStrong:
						all[i].Kind = controller.InputWeak
					}
				}
			}

			all = append(all, p.cfg.LateInputs...)
			p.mu.Unlock()

			if err := r.UpdateInputs(all); err == nil {
				p.mu.Lock()
				p.inputs = all
				p.mu.Unlock()
			} else {
				wk.Fault = "updateinputs: " + err.Error()
			}
		}

		for _, in := range p.CurrentInputs() {
			wk.Reads = append(wk.Reads, doRead(ctx, p.w, r, r, in))
		}

		if p.cfg.Script != nil {
			p.cfg.Script(ctx, r, n)
		}

		if p.cfg.ResetAt > 0 && n == p.cfg.ResetAt {
			r.ResetRestartBackoff()
		}

		wk.EndMS = p.w.since()
		fault := p.cfg.Faults[n]

		if fault != "" {
			wk.Fault = fault
		}

		p.w.record(wk)

		switch fault {
		case "err":
			return InjErr(n, fmt.Sprintf("verif: injected failure of %s on wake %d", p.cfg.Name, n))
		case "panic":
			panic(fmt.Sprintf("verif: injected panic of %s on wake %d", p.cfg.Name, n))
		}

		sleepCtx(ctx, cyc(p.cfg.BusyAfter, n))
	}
}

type reader interface {
	Get(context.Context, resource.Pointer, ...state.GetOption) (resource.Resource, error)
	List(context.Context, resource.Kind, ...state.ListOption) (resource.List, error)
}

func doRead(ctx context.Context, w *World, rd reader, _ controller.UncachedReader, in controller.Input) Read {
	k := gp.Key{NS: in.Namespace, Type: in.Type}
	rec := Read{Key: k, Lo: w.Px.Len()}

	if id, ok := in.ID.Get(); ok {
		rec.Key.ID = id

		got, err := rd.Get(ctx, Ptr(rec.Key))

		switch {
		case err == nil:
			rec.Val = gp.SnapOf(got)
		case state.IsNotFoundError(err):
			rec.NotFound = true
		default:
			rec.Err = err.Error()
		}
	} else {
		rec.List = true

		list, err := rd.List(ctx, resource.NewMetadata(in.Namespace, in.Type, "", resource.VersionUndefined))
		if err != nil {
			rec.Err = err.Error()
		} else {
			rec.Items = map[string]*gp.Snap{}
			for _, it := range list.Items {
				rec.Items[it.Metadata().ID()] = gp.SnapOf(it)
			}
		}
	}

	rec.Hi = w.Px.Len()

	return rec
}

// ---------------------------------------------------------------------------------------------
// probe controller.QController

// QProbe is a recording queue controller.
type QProbe struct {
	w      *World
	cfg    *QCfg
	mu     sync.Mutex
	counts map[string]int
	mapN   atomic.Int64
	hookN  atomic.Int64
	active map[string]int
	// Overlaps counts invocations that overlapped another invocation of the same key.
	Overlaps  atomic.Int64
	Shutdowns atomic.Int64
}

// Name implements controller.QController.
func (p *QProbe) Name() string { return p.cfg.Name }

// Settings implements controller.QController.
func (p *QProbe) Settings() controller.QSettings {
	s := controller.QSettings{
		Inputs:       slices.Clone(p.cfg.Inputs),
		Outputs:      slices.Clone(p.cfg.Outputs),
		ShutdownHook: func() { p.Shutdowns.Add(1) },
	}

	if p.cfg.Concurrency > 0 || p.cfg.ConcurrencySet {
		s.Concurrency = optional.Some(p.cfg.Concurrency)
	}

	if p.cfg.HasHook {
		s.RunHook = p.hook
	}

	return s
}

func (p *QProbe) hook(ctx context.Context, _ *zap.Logger, _ controller.QRuntime) error {
	n := int(p.hookN.Add(1)) - 1
	wk := &Wake{Probe: p.cfg.Name, Kind: "hook", N: n, AtMS: p.w.since()}

	outcome := "block"
	if n < len(p.cfg.HookFaults) {
		outcome = p.cfg.HookFaults[n]
	}

	wk.Fault = outcome
	p.w.record(wk)

	switch outcome {
	case "err":
		return InjErr(n, "verif: injected run hook failure")
	case "panic":
		panic("verif: injected run hook panic")
	}

	<-ctx.Done()

	return nil
}

func (p *QProbe) enter(key string) {
	p.mu.Lock()
	defer p.mu.Unlock()

	if p.active == nil {
		p.active = map[string]int{}
	}

	p.active[key]++

	if p.active[key] > 1 {
		p.Overlaps.Add(1)
	}
}

func (p *QProbe) leave(key string) {
	p.mu.Lock()
	p.active[key]--
	p.mu.Unlock()
}

// Reconcile implements controller.QController.
func (p *QProbe) Reconcile(ctx context.Context, _ *zap.Logger, r controller.QRuntime, ptr resource.Pointer) error {
	k := gp.KeyOf(ptr)
	ks := "reconcile|" + k.String()

	p.enter(ks)
	defer p.leave(ks)

	p.mu.Lock()
	n := p.counts[ks]
	p.counts[ks]++
	p.mu.Unlock()

	wk := &Wake{Probe: p.cfg.Name, Kind: "reconcile", N: n, Target: k, AtMS: p.w.since()}

	sleepCtx(ctx, cyc(p.cfg.Busy, n))

	// read the item itself, then every mapped input kind
	wk.Reads = append(wk.Reads, doRead(ctx, p.w, r, r, controller.Input{Namespace: k.NS, Type: k.Type, ID: optional.Some(k.ID)}))

	for _, in := range p.cfg.Inputs {
		if in.Kind == controller.InputQMapped || in.Kind == controller.InputQMappedDestroyReady {
			wk.Reads = append(wk.Reads, doRead(ctx, p.w, r, r, in))
		}
	}

	if p.cfg.Script != nil {
		p.cfg.Script(ctx, r, ptr, n)
	}

	outcome := "ok"
	if o := p.cfg.Outcomes[k.ID]; n < len(o) {
		outcome = o[n]
	}

	wk.Fault = outcome
	wk.EndMS = p.w.since()
	p.w.record(wk)

	switch {
	case outcome == "err":
		return InjErr(n, fmt.Sprintf("verif: injected reconcile failure %s #%d", k.ID, n))
	case outcome == "panic":
		panic(fmt.Sprintf("verif: injected reconcile panic %s #%d", k.ID, n))
	case outcome == "skip":
		return xerrors.NewTaggedf[qtransform.SkipReconcileTag]("verif: skip %s #%d", k.ID, n)
	case strings.HasPrefix(outcome, "requeue:"):
		return controller.NewRequeueInterval(parseMS(outcome))
	case strings.HasPrefix(outcome, "requeueerr:"):
		return controller.NewRequeueErrorf(parseMS(outcome), "verif: requeue with error %s #%d", k.ID, n)
	}

	return nil
}

func parseMS(s string) time.Duration {
	var ms int

	_, _ = fmt.Sscanf(s[strings.Index(s, ":")+1:], "%d", &ms)

	return time.Duration(ms) * time.Millisecond
}

// MapInput implements controller.QController.
func (p *QProbe) MapInput(ctx context.Context, _ *zap.Logger, r controller.QRuntime, md controller.ReducedResourceMetadata) ([]resource.Pointer, error) {
	k := gp.KeyOf(md)
	ks := "map|" + k.String()

	p.enter(ks)
	defer p.leave(ks)

	n := int(p.mapN.Add(1)) - 1
	wk := &Wake{Probe: p.cfg.Name, Kind: "map", N: n, Target: k, AtMS: p.w.since(), TrigTD: md.Phase() == resource.PhaseTearingDown, TrigFE: md.FinalizersEmpty()}

	if md.Labels() != nil {
		wk.TrigTok, _ = md.Labels().Get("tok")
		wk.TrigFor, _ = md.Labels().Get("for")
	}

	// the read made from within the mapper: must be at least as new as the notification
	wk.Reads = append(wk.Reads, doRead(ctx, p.w, r, r, controller.Input{Namespace: k.NS, Type: k.Type, ID: optional.Some(k.ID)}))

	fault := p.cfg.MapFaults[n]
	wk.Fault = fault

	var out []resource.Pointer

	if fault == "" {
		prim := p.primary()

		for _, id := range strings.Split(wk.TrigFor, ",") {
			if id != "" {
				out = append(out, resource.NewMetadata(prim.NS, prim.Type, id, resource.VersionUndefined))
				wk.Mapped = append(wk.Mapped, id)
			}
		}
	}

	wk.EndMS = p.w.since()
	p.w.record(wk)

	switch fault {
	case "err":
		return nil, InjErr(n, fmt.Sprintf("verif: injected MapInput failure #%d", n))
	case "panic":
		panic(fmt.Sprintf("verif: injected MapInput panic #%d", n))
	}

	return out, nil
}

func (p *QProbe) primary() Kind {
	for _, in := range p.cfg.Inputs {
		if in.Kind == controller.InputQPrimary {
			return Kind{in.Namespace, in.Type}
		}
	}

	return Kind{}
}

// Probes returns the registered probe controllers.
func (w *World) Probes() map[string]*Probe {
	w.mu.Lock()
	defer w.mu.Unlock()
	return mapsClone(w.probes)
}

// QProbes returns the registered queue probes.
func (w *World) QProbes() map[string]*QProbe {
	w.mu.Lock()
	defer w.mu.Unlock()
	return mapsClone(w.qprobes)
}

func mapsClone[K comparable, V any](m map[K]V) map[K]V {
	out := make(map[K]V, len(m))
	for k, v := range m {
		out[k] = v
	}

	return out
}

// deadlineErr is an error of the net.Error kind (an I/O call of the controller timed out).
type deadlineErr struct{ msg string }

func (e deadlineErr) Error() string   { return e.msg }
func (e deadlineErr) Timeout() bool   { return true }
func (e deadlineErr) Temporary() bool { return true }

// InjErr builds the n-th injected failure. The runtime is alive when these are returned, so each of them is a failure of the controller
// and nothing else - whatever it wraps: the expired deadline of a call the controller made with its own, shorter time limit, an
// end-of-stream, a timeout of the net.Error kind, several errors joined. (Errors wrapping context.Canceled are not injected: the code
// under test reads them as "shutting down", and the statement does not say how a controller's own cancelled sub-context is to be read.)
func InjErr(n int, msg string) error {
	switch n % 5 {
	case 1:
		return fmt.Errorf("%s: %w", msg, context.DeadlineExceeded)
	case 2:
		return fmt.Errorf("%s: %w", msg, io.EOF)
	case 3:
		return errors.Join(errors.New(msg), deadlineErr{"i/o timeout"}, os.ErrDeadlineExceeded)
	default:
		return errors.New(msg)
	}
}
