// Package gctl runs the generic controllers (transform, qtransform, destroy, cleanup) in the real runtime over the
// gate+recording proxy, with external actors driving inputs, foreign finalizers on outputs and child resources, inside a
// synctest bubble. It serves C06 (convergence to the mapped image) and C07 (finalizer ordering safety over the write log).
package gctl

import (
	"context"
	"errors"
	"fmt"
	"math/rand/v2"
	"regexp"
	"sync"
	"sync/atomic"
	"testing/synctest"
	"time"

	"github.com/siderolabs/gen/optional"
	"github.com/siderolabs/gen/xerrors"
	"go.uber.org/zap"

	"github.com/cosi-project/runtime/pkg/controller"
	"github.com/cosi-project/runtime/pkg/controller/generic/cleanup"
	"github.com/cosi-project/runtime/pkg/controller/generic/destroy"
	"github.com/cosi-project/runtime/pkg/controller/generic/qtransform"
	"github.com/cosi-project/runtime/pkg/controller/generic/transform"
	"github.com/cosi-project/runtime/pkg/controller/runtime"
	"github.com/cosi-project/runtime/pkg/controller/runtime/options"
	"github.com/cosi-project/runtime/pkg/resource"
	"github.com/cosi-project/runtime/pkg/state"
	"github.com/cosi-project/runtime/pkg/state/impl/inmem"
	"github.com/cosi-project/runtime/pkg/state/impl/namespaced"

	"verif/harness/gp"
	"verif/harness/res"
)

// NS is the namespace all harness types live in (their resource definitions' default namespace).
const NS = "default"

// Opts selects the controllers of a scenario.
type Opts struct {
	T             string // "" | "plain" | "finalizers" | "ignoretd"
	QT            bool
	QTConc        uint
	QTIgnoreWhile bool   // secondary configuration: WithIgnoreTeardownWhile("extin")
	CL            string // "" | "remove" | "hasno" | "combine"
	Destroy       bool
	MaxDelay      int
	Cached        bool
	FailFirst     int // the first n transform invocations of each controller fail
	// PostponeRemoval: the FinalizerRemovalFunc of T ("finalizers") and QT postpones the removal (T: error tagged SkipReconcileTag, the
	// documented way; QT: plain error, retried with back-off) until the harness lifts the hold after the first quiescent point
	PostponeRemoval bool
	Steps           int
	Actors          int
}

// Outcome is what a scenario observed.
type Outcome struct {
	Opts        Opts
	Log         []gp.Commit
	Stage1      map[gp.Key]*gp.Snap // store at the first quiescent point (foreign finalizers as the actors left them)
	Stage2      map[gp.Key]*gp.Snap // store after all foreign finalizers were removed and the system went quiet again
	Final       map[gp.Key]*gp.Snap // after the final external destroys
	Trace       []string
	DestroyErrs []string
	RunErr      string
	Transforms  int64
	// HoldLiftedAt is the log length when the postponement of finalizer removals was lifted (PostponeRemoval scenarios)
	HoldLiftedAt int
	RegErrs      []string
}

func key(typ, id string) gp.Key { return gp.Key{NS: NS, Type: typ, ID: id} }

func ptr(typ, id string) resource.Pointer {
	return resource.NewMetadata(NS, typ, id, resource.VersionUndefined)
}

var ids = []string{"x", "y", "z"}

type noteHandler struct {
	inner cleanup.Handler[*res.A]
	px    *gp.Proxy
}

func (h *noteHandler) FinalizerRemoval(ctx context.Context, r controller.Runtime, l *zap.Logger, in *res.A) error {
	err := h.inner.FinalizerRemoval(ctx, r, l, in)
	if err == nil {
		h.px.Note("CL", gp.KeyOf(in.Metadata()), "handler-ok")
	}

	return err
}

func (h *noteHandler) Inputs() []controller.Input   { return h.inner.Inputs() }
func (h *noteHandler) Outputs() []controller.Output { return h.inner.Outputs() }

// Run executes one scenario; must be called inside a synctest bubble.
//
//nolint:gocyclo,cyclop,gocognit,maintidx
func Run(rng *rand.Rand, o Opts) *Outcome {
	out := &Outcome{Opts: o}

	inner := namespaced.NewState(func(ns resource.Namespace) state.CoreState { return inmem.NewState(ns) })
	px := gp.New(inner, rand.New(rand.NewPCG(rng.Uint64(), 3)), o.MaxDelay)
	st := state.WrapCore(px)

	ropts := []options.Option{options.WithMetrics(false)}
	if o.Cached {
		ropts = append(ropts, options.WithCachedResource(NS, res.TypeA), options.WithCachedResource(NS, res.TypeB), options.WithCachedResource(NS, res.TypeC))
	}

	rt, err := runtime.NewRuntime(st, zap.NewNop(), ropts...)
	if err != nil {
		out.RunErr = err.Error()

		return out
	}

	var transforms atomic.Int64

	mkTransform := func(name string) func(context.Context, controller.Reader, *zap.Logger, *res.A, *res.B) error {
		var n atomic.Int64

		trng := rand.New(rand.NewPCG(rng.Uint64(), 11))

		var mu sync.Mutex

		return func(ctx context.Context, _ controller.Reader, _ *zap.Logger, in *res.A, b *res.B) error {
			k := n.Add(1)
			transforms.Add(1)

			mu.Lock()
			d := trng.IntN(8)
			mu.Unlock()

			if d > 0 {
				select {
				case <-ctx.Done():
					return ctx.Err()
				case <-time.After(time.Duration(d) * time.Millisecond):
				}
			}

			if int(k) <= o.FailFirst {
				return fmt.Errorf("verif: transient transform failure %s #%d", name, k)
			}

			b.TypedSpec().Token = in.TypedSpec().Token

			return nil
		}
	}

	var hold atomic.Bool

	hold.Store(o.PostponeRemoval)

	reg := func(err error) {
		if err != nil {
			out.RegErrs = append(out.RegErrs, err.Error())
		}
	}

	switch o.T {
	case "plain", "finalizers", "ignoretd":
		var topts []transform.ControllerOption

		settings := transform.Settings[*res.A, *res.B]{
			Name:            "T",
			MapMetadataFunc: func(in *res.A) *res.B { return res.NewB(NS, in.Metadata().ID()) },
			TransformFunc:   mkTransform("T"),
		}

		switch o.T {
		case "finalizers":
			topts = append(topts, transform.WithInputFinalizers())
			settings.FinalizerRemovalFunc = func(context.Context, controller.Reader, *zap.Logger, *res.A) error {
				if hold.Load() {
					return xerrors.NewTaggedf[transform.SkipReconcileTag]("verif: finalizer removal postponed")
				}

				return nil
			}
		case "ignoretd":
			topts = append(topts, transform.WithIgnoreTearingDownInputs())
		}

		reg(rt.RegisterController(transform.NewController(settings, topts...)))
	}

	if o.QT {
		tf := mkTransform("QT")
		qopts := []qtransform.ControllerOption{qtransform.WithConcurrency(max(o.QTConc, 1))}

		if o.QTIgnoreWhile {
			qopts = append(qopts, qtransform.WithIgnoreTeardownWhile("extin"))
		}

		var qtRemoval func(context.Context, controller.Reader, *zap.Logger, *res.A) error

		if o.PostponeRemoval {
			qtRemoval = func(context.Context, controller.Reader, *zap.Logger, *res.A) error {
				if hold.Load() {
					return errors.New("verif: finalizer removal postponed")
				}

				return nil
			}
		}

		reg(rt.RegisterQController(qtransform.NewQController(qtransform.Settings[*res.A, *res.C]{
			Name:                 "QT",
			FinalizerRemovalFunc: qtRemoval,
			MapMetadataFunc:      func(in *res.A) *res.C { return res.NewC(NS, in.Metadata().ID()) },
			UnmapMetadataFunc:    func(c *res.C) *res.A { return res.NewA(NS, c.Metadata().ID()) },
			TransformFunc: func(ctx context.Context, r controller.Reader, l *zap.Logger, in *res.A, c *res.C) error {
				if DropToken(in.TypedSpec().Token) {
					// this input content has no image: the documented way to ask for the output to be removed
					transforms.Add(1)

					return xerrors.NewTaggedf[qtransform.DestroyOutputTag]("verif: input content %s has no image", in.TypedSpec().Token)
				}

				b := res.NewB(NS, "tmp")
				if err := tf(ctx, r, l, in, b); err != nil {
					return err
				}

				c.TypedSpec().Token = b.TypedSpec().Token

				return nil
			},
		}, qopts...)))
	}

	childQuery := func(in *res.A) state.ListOption {
		return state.WithLabelQuery(resource.LabelEqual("parent", in.Metadata().ID()))
	}

	switch o.CL {
	case "remove":
		reg(rt.RegisterController(cleanup.NewController(cleanup.Settings[*res.A]{Name: "CL", Handler: &noteHandler{px: px, inner: cleanup.RemoveOutputs[*res.D](childQuery)}})))
	case "hasno":
		reg(rt.RegisterController(cleanup.NewController(cleanup.Settings[*res.A]{Name: "CL", Handler: &noteHandler{px: px, inner: cleanup.HasNoOutputs[*res.D](childQuery)}})))
	case "combine":
		reg(rt.RegisterController(cleanup.NewController(cleanup.Settings[*res.A]{Name: "CL", Handler: &noteHandler{px: px, inner: cleanup.Combine(
			cleanup.RemoveOutputs[*res.D](childQuery),
			cleanup.HasNoOutputs[*res.B](func(in *res.A) state.ListOption {
				return state.WithIDQuery(resource.IDRegexpMatch(mustRegexp("^" + in.Metadata().ID() + "$")))
			}),
		)}})))
	}

	if o.Destroy {
		reg(rt.RegisterQController(destroy.NewController[*res.A](optional.Some[uint](2))))
	}

	ctx, cancel := context.WithCancel(context.Background())
	runDone := make(chan struct{})

	var runErr error

	go func() {
		defer close(runDone)

		runErr = rt.Run(ctx)
	}()

	var (
		mu    sync.Mutex
		trace []string
		seq   atomic.Int64
	)

	note := func(f string, a ...any) {
		mu.Lock()
		trace = append(trace, fmt.Sprintf("%dms ", time.Now().UnixMilli()%100000)+fmt.Sprintf(f, a...))
		mu.Unlock()
	}

	actx := gp.WithActor(ctx, "ext")

	// external actors
	act := func(arng *rand.Rand) {
		id := ids[arng.IntN(len(ids))]
		tok := fmt.Sprintf("t%d", seq.Add(1))

		var err error

		switch p := arng.IntN(100); {
		case p < 22: // create or update an input
			if px.Shadow(key(res.TypeA, id)) == nil {
				in := res.NewA(NS, id)
				in.TypedSpec().Token = tok
				err = st.Create(actx, in)
				note("create in/%s tok=%s err=%v", id, tok, err)
			} else {
				_, err = st.UpdateWithConflicts(actx, ptr(res.TypeA, id), func(r resource.Resource) error {
					res.SpecOf(r).Token = tok

					return nil
				}, state.WithExpectedPhaseAny())
				note("update in/%s tok=%s err=%v", id, tok, err)
			}

			// now and then the content is replaced right away by one that has no image (the output, perhaps just created, has to go)
			if o.QT && arng.IntN(4) == 0 {
				n := seq.Add(1)
				for n%6 != 0 {
					n = seq.Add(1)
				}

				dtok := fmt.Sprintf("t%d", n)

				if arng.IntN(2) == 0 {
					time.Sleep(time.Duration(1+arng.IntN(3)) * time.Millisecond)
				}

				_, err = st.UpdateWithConflicts(actx, ptr(res.TypeA, id), func(r resource.Resource) error {
					res.SpecOf(r).Token = dtok

					return nil
				}, state.WithExpectedPhaseAny())
				note("update in/%s tok=%s (no image) err=%v", id, dtok, err)
			}
		case p < 36:
			_, err = st.Teardown(actx, ptr(res.TypeA, id))
			note("teardown in/%s err=%v", id, err)
		case p < 50:
			err = st.Destroy(actx, ptr(res.TypeA, id))
			note("destroy in/%s err=%v", id, err)
		case p < 62: // foreign finalizer on an output
			typ := []string{res.TypeB, res.TypeC}[arng.IntN(2)]
			err = st.AddFinalizer(actx, ptr(typ, id), "ext")
			note("addfin out %s/%s err=%v", typ[:1], id, err)
		case p < 78:
			typ := []string{res.TypeB, res.TypeC}[arng.IntN(2)]
			err = st.RemoveFinalizer(actx, ptr(typ, id), "ext")
			note("rmfin out %s/%s err=%v", typ[:1], id, err)
		case p < 86: // a child of an input (for the cleanup controller)
			cid := fmt.Sprintf("%s-child%d", id, arng.IntN(2))
			d := res.NewD(NS, cid)
			d.Metadata().Labels().Set("parent", id)
			d.TypedSpec().Token = tok

			if arng.IntN(3) == 0 {
				d.Metadata().Finalizers().Add("ext")
			}

			if px.Shadow(key(res.TypeA, id)) != nil && !px.Shadow(key(res.TypeA, id)).TearingDown() {
				err = st.Create(actx, d)
				note("create child %s err=%v", cid, err)
			}
		case p < 92:
			cid := fmt.Sprintf("%s-child%d", id, arng.IntN(2))
			err = st.RemoveFinalizer(actx, ptr(res.TypeD, cid), "ext")
			note("rmfin child %s err=%v", cid, err)
		case p < 96:
			cid := fmt.Sprintf("%s-child%d", id, arng.IntN(2))
			err = teardownDestroy(actx, st, ptr(res.TypeD, cid))
			note("remove child %s err=%v", cid, err)
		case p >= 98:
			// a transient store fault: the next Destroy / Update issued by anybody (mostly the controllers) fails once
			op := []string{"destroy", "destroy", "update"}[arng.IntN(3)]
			px.FailNext(op, 1)
			note("store will fail the next %s", op)
		default:
			if o.QTIgnoreWhile {
				if arng.IntN(2) == 0 {
					err = st.AddFinalizer(actx, ptr(res.TypeA, id), "extin")
				} else {
					err = st.RemoveFinalizer(actx, ptr(res.TypeA, id), "extin")
				}

				note("extin finalizer toggle in/%s err=%v", id, err)
			}
		}

		_ = err
	}

	_ = act

	var wg sync.WaitGroup

	for a := 0; a < max(o.Actors, 1); a++ {
		arng := rand.New(rand.NewPCG(rng.Uint64(), uint64(a)))

		wg.Add(1)

		go func() {
			defer wg.Done()

			for s := 0; s < o.Steps; s++ {
				act(arng)

				switch arng.IntN(5) {
				case 0:
				case 1, 2:
					time.Sleep(time.Duration(arng.IntN(6)) * time.Millisecond)
				case 3:
					time.Sleep(time.Duration(arng.IntN(40)) * time.Millisecond)
				case 4:
					time.Sleep(time.Duration(arng.IntN(2000)) * time.Millisecond)
				}
			}
		}()
	}

	wg.Wait()

	quiesce := func() {
		time.Sleep(45 * time.Minute)
		synctest.Wait()
	}

	quiesce()
	px.ClearFailures() // (an injected store fault nobody ran into must not hit the harness's own stage-2 operations)
	out.Stage1 = px.ShadowAll()

	// stage 2: remove every foreign finalizer; children of torn-down inputs are removed by their (external) owner when the
	// cleanup handler only waits for them
	for k, v := range px.ShadowAll() {
		for _, f := range v.Fins {
			if f == "ext" || f == "extin" {
				_ = st.RemoveFinalizer(actx, ptr(k.Type, k.ID), f)
			}
		}
	}

	if o.PostponeRemoval {
		// lift the hold; a postponed (skipped) reconcile is only repeated on the next input event, so touch every torn-down input
		hold.Store(false)

		out.HoldLiftedAt = px.Len()

		for k, v := range px.ShadowAll() {
			if k.Type == res.TypeA && v.TearingDown() {
				_, _ = st.UpdateWithConflicts(actx, ptr(k.Type, k.ID), func(r resource.Resource) error {
					r.Metadata().Labels().Set("poke", "1")

					return nil
				}, state.WithExpectedPhaseAny())
			}
		}
	}

	if o.CL == "hasno" {
		for k := range px.ShadowAll() {
			if k.Type == res.TypeD {
				_ = teardownDestroy(actx, st, ptr(k.Type, k.ID))
			}
		}
	}

	quiesce()
	out.Stage2 = px.ShadowAll()

	// finally every torn-down input must be destroyable by its (external) owner
	for k, v := range px.ShadowAll() {
		if k.Type == res.TypeA && v.TearingDown() {
			if err := st.Destroy(actx, ptr(k.Type, k.ID)); err != nil {
				out.DestroyErrs = append(out.DestroyErrs, fmt.Sprintf("%s: %v", k, err))
			}
		}
	}

	quiesce()
	out.Final = px.ShadowAll()
	out.Log = px.Log()
	out.Transforms = transforms.Load()

	select {
	case <-runDone:
		out.RunErr = fmt.Sprintf("Run returned early: %v", runErr)
	default:
	}

	cancel()
	<-runDone
	synctest.Wait()

	mu.Lock()
	out.Trace = trace
	mu.Unlock()

	return out
}

// DropToken reports whether an input content (token "t<n>") is one for which the queue transform asks for NO output (every sixth).
func DropToken(tok string) bool {
	n := 0
	if _, err := fmt.Sscanf(tok, "t%d", &n); err != nil {
		return false
	}

	return n%6 == 0
}

func mustRegexp(s string) *regexp.Regexp { return regexp.MustCompile(s) }

func teardownDestroy(ctx context.Context, st state.State, p resource.Pointer) error {
	ready, err := st.Teardown(ctx, p)
	if err != nil {
		return err
	}

	if !ready {
		return errors.New("not ready")
	}

	return st.Destroy(ctx, p)
}
