package gctl

import (
	"fmt"
	"slices"
	"strings"

	"verif/harness/gp"
	"verif/harness/res"
)

// Problem is one oracle failure.
type Problem struct {
	Sig    string `json:"sig"`
	Detail string `json:"detail"`
}

type ctl struct {
	name    string
	outType string
	fin     bool // puts its finalizer on inputs
	liveTD  bool // treats tearing-down inputs as live (transform WithIgnoreTearingDownInputs)
}

func controllers(o Opts) []ctl {
	var cs []ctl

	switch o.T {
	case "plain":
		cs = append(cs, ctl{name: "T", outType: res.TypeB})
	case "finalizers":
		cs = append(cs, ctl{name: "T", outType: res.TypeB, fin: true})
	case "ignoretd":
		cs = append(cs, ctl{name: "T", outType: res.TypeB, liveTD: true})
	}

	if o.QT {
		cs = append(cs, ctl{name: "QT", outType: res.TypeC, fin: true})
	}

	return cs
}

func hasForeign(s *gp.Snap) bool {
	return s != nil && slices.ContainsFunc(s.Fins, func(f string) bool { return f == "ext" })
}

func desc(s *gp.Snap) string {
	if s == nil {
		return "absent"
	}

	return fmt.Sprintf("{v%d %s owner=%q fins=%v tok=%s}", s.Ver, s.Phase, s.Owner, s.Fins, s.Token)
}

// SigQTIgnore is the signature of the recorded finding for the secondary qtransform configuration.
const SigQTIgnore = "qtransform-ignore-teardown-output-without-input-finalizer"

// CheckC06 judges convergence at the two quiescent points.
//
//nolint:gocyclo,cyclop,gocognit
func CheckC06(o *Outcome) []Problem {
	var ps []Problem

	bad := func(sig, f string, a ...any) { ps = append(ps, Problem{Sig: sig, Detail: fmt.Sprintf(f, a...)}) }

	if o.RunErr != "" {
		bad("runtime-stopped", "%s", o.RunErr)
	}

	for _, e := range o.RegErrs {
		bad("registration-failed", "%s", e)
	}

	abaIDs := abaOverwrites(o)

	for id, ats := range abaIDs {
		bad(SigABA, "input %s: commit(s) %v replace the finalizers of a re-created input with a set derived from an earlier incarnation of the same version", id, ats)
	}

	for _, c := range controllers(o.Opts) {
		live := func(in *gp.Snap) bool {
			if in == nil {
				return false
			}

			if c.name == "QT" && DropToken(in.Token) {
				return false // the transform asks for the output to be destroyed for this content (whatever the phase)
			}

			if o.Opts.QTIgnoreWhile && c.name == "QT" && in.TearingDown() && slices.Contains(in.Fins, "extin") {
				return true
			}

			return c.liveTD || !in.TearingDown()
		}

		for stage, st := range map[string]map[gp.Key]*gp.Snap{"stage1": o.Stage1, "stage2": o.Stage2} {
			for _, id := range ids {
				if len(abaIDs[id]) > 0 {
					continue // this input's finalizers were hit by an ABA overwrite (reported on its own below)
				}

				in := st[key(res.TypeA, id)]
				out := st[key(c.outType, id)]

				if out != nil && out.Owner != c.name {
					bad("output-not-owned-by-controller", "%s %s: output %s/%s is %s", stage, c.name, c.outType[:1], id, desc(out))

					continue
				}

				held := out != nil && out.TearingDown() && hasForeign(out)

				if stage == "stage2" && hasForeign(out) {
					bad("harness-foreign-finalizer-left", "%s: %s", stage, desc(out))
				}

				sigFor := func(sig string) string {
					if o.Opts.QTIgnoreWhile && c.name == "QT" {
						return SigQTIgnore
					}

					return sig
				}

				switch {
				case live(in):
					switch {
					case out == nil:
						bad(sigFor("missing-output"), "%s %s: input %s is %s but its image does not exist", stage, c.name, id, desc(in))
					case held:
						// a held previous-generation output legitimately blocks the new image
					case out.TearingDown():
						bad(sigFor("output-stuck-tearing-down"), "%s %s: input %s is %s, its image is %s (tearing down without a foreign finalizer)", stage, c.name, id, desc(in), desc(out))
					case out.Token != in.Token:
						bad(sigFor("stale-output"), "%s %s: input %s is %s but its image carries %s", stage, c.name, id, desc(in), desc(out))
					}

					if c.fin && out != nil && !held && !slices.Contains(in.Fins, c.name) && !in.TearingDown() {
						bad(sigFor("output-without-input-finalizer"), "%s %s: input %s is %s (no %s finalizer) while its image exists", stage, c.name, id, desc(in), c.name)
					}
				default:
					// while the removal of the controller's finalizer is postponed by the user's removal function (stage 1 only) the
					// output of a torn-down input legitimately stays, together with the finalizer
					postponed := o.Opts.PostponeRemoval && c.fin && stage == "stage1" && in != nil && slices.Contains(in.Fins, c.name)

					switch {
					case postponed:
						// (whether the output was taken away during the postponement is judged on the log below)
					case out != nil && !held:
						bad(sigFor("orphaned-output"), "%s %s: input %s is %s but output %s still exists and is not held by a foreign finalizer", stage, c.name, id, desc(in), desc(out))
					case out == nil && in != nil && in.TearingDown() && slices.Contains(in.Fins, c.name) &&
						!(o.Opts.QTIgnoreWhile && c.name == "QT" && slices.Contains(in.Fins, "extin")): // (a teardown that is being ignored releases nothing)
						bad(sigFor("finalizer-not-released"), "%s %s: input %s is %s: torn down, output gone, but the controller's finalizer is still there", stage, c.name, id, desc(in))
					}
				}
			}

			// while the user's function postpones the finalizer removal the controller must leave the output alone
			// (judged for uncached kinds only: reading through a lagging cache the controller may not have seen its own finalizer on
			// the input yet, treats the input as not its business and cleans the output up - the statement does not forbid that)
			if o.Opts.PostponeRemoval && !o.Opts.Cached && c.fin && stage == "stage1" {
				shadow := map[gp.Key]*gp.Snap{}
				dropSeen := map[string]bool{} // the input carried a content without image at some point of the current output generation's life

				for _, cm := range o.Log {
					if cm.Seq >= o.HoldLiftedAt {
						break
					}

					if cm.Key.Type == res.TypeA && cm.Post != nil && c.name == "QT" && DropToken(cm.Post.Token) {
						dropSeen[cm.Key.ID] = true
					}

					if cm.Op == "create" && cm.Key.Type == c.outType {
						if in := shadow[key(res.TypeA, cm.Key.ID)]; in == nil || !DropToken(in.Token) {
							dropSeen[cm.Key.ID] = false
						}
					}

					if cm.Op == "destroy" && cm.Key.Type == c.outType {
						// (an output removal decided for a content without image may still be in flight when the input is torn down)
						if in := shadow[key(res.TypeA, cm.Key.ID)]; in != nil && in.TearingDown() && slices.Contains(in.Fins, c.name) && !dropSeen[cm.Key.ID] {
							bad("output-destroyed-while-finalizer-removal-postponed", "%s: output %s/%s destroyed at %d while input is %s and the removal function postpones", c.name, c.outType[:1], cm.Key.ID, cm.Seq, desc(in))
						}
					}

					switch cm.Op {
					case "create", "update":
						shadow[cm.Key] = cm.Post
					case "destroy":
						delete(shadow, cm.Key)
					}
				}
			}

			// outputs for ids outside the input universe
			for k, v := range st {
				if k.Type == c.outType && !slices.Contains(ids, k.ID) {
					bad("unexpected-output", "%s %s: %s %s", stage, c.name, k, desc(v))
				}
			}
		}
	}

	// the cleanup controller and the final destroys
	for _, id := range ids {
		in := o.Stage2[key(res.TypeA, id)]
		if in == nil || !in.TearingDown() {
			continue
		}

		if o.Opts.Destroy && len(in.Fins) == 0 {
			bad("destroy-controller-left-input", "input %s is %s at stage 2 although the destroy controller is running", id, desc(in))
		}

		if slices.Contains(in.Fins, "CL") {
			children := 0

			for k, v := range o.Stage2 {
				if k.Type == res.TypeD && v.Labels["parent"] == id {
					children++
				}
			}

			if children == 0 && (o.Opts.CL != "combine" || o.Stage2[key(res.TypeB, id)] == nil) {
				bad("cleanup-finalizer-not-released", "input %s is %s: no dependent outputs remain but the cleanup finalizer is still there", id, desc(in))
			}
		}
	}

	for _, e := range o.DestroyErrs {
		if slices.ContainsFunc(ids, func(id string) bool {
			return len(abaIDs[id]) > 0 && strings.HasPrefix(e, key(res.TypeA, id).String()+":")
		}) {
			continue
		}

		sig := "torn-down-input-not-destroyable"
		if o.Opts.QTIgnoreWhile {
			sig = SigQTIgnore
		}

		bad(sig, "final destroy failed: %s", e)
	}

	return ps
}

// SigABA is the signature of the recorded finding "ABA on restarting versions" (C04, DESIGN section 4 #9) as it shows in controller-driven
// lifecycles: an input is destroyed and re-created, and a conflict-retrying helper of a controller (AddFinalizer, RemoveFinalizer ...)
// that had read the EARLIER incarnation at version v writes its result over the NEW incarnation once that reached v as well - the
// finalizers the new incarnation had collected are silently replaced.
const SigABA = "aba-recreate-same-version"

// abaOverwrites returns, per input id, the log positions of update commits on inputs that can only be explained as such an overwrite:
// the finalizer set written is not "the previous value with one finalizer added or removed", but it is exactly that for a state of an
// earlier incarnation of the same id that carried the same version number.
func abaOverwrites(o *Outcome) map[string][]int {
	out := map[string][]int{}
	older := map[string]map[uint64][]*gp.Snap{} // id -> version -> states of earlier incarnations
	cur := map[string]map[uint64]*gp.Snap{}     // id -> version -> state of the current incarnation

	oneStep := func(from, to []string) bool {
		a, b := map[string]bool{}, map[string]bool{}
		for _, f := range from {
			a[f] = true
		}

		for _, f := range to {
			b[f] = true
		}

		diff := 0

		for f := range a {
			if !b[f] {
				diff++
			}
		}

		for f := range b {
			if !a[f] {
				diff++
			}
		}

		return diff <= 1
	}

	for _, c := range o.Log {
		if c.Key.Type != res.TypeA {
			continue
		}

		id := c.Key.ID

		switch c.Op {
		case "create":
			cur[id] = map[uint64]*gp.Snap{c.Post.Ver: c.Post}
		case "destroy":
			if older[id] == nil {
				older[id] = map[uint64][]*gp.Snap{}
			}

			for v, s := range cur[id] {
				older[id][v] = append(older[id][v], s)
			}

			delete(cur, id)
		case "update":
			if c.Pre != nil && c.Actor != "ext" && !oneStep(c.Pre.Fins, c.Post.Fins) {
				for _, p := range older[id][c.Pre.Ver] {
					if oneStep(p.Fins, c.Post.Fins) {
						out[id] = append(out[id], c.Seq)

						break
					}
				}
			}

			if cur[id] == nil {
				cur[id] = map[uint64]*gp.Snap{}
			}

			cur[id][c.Post.Ver] = c.Post
		}
	}

	return out
}

// CheckC07 runs the safety monitors over every prefix of the write log.
//
//nolint:gocyclo,cyclop,gocognit
func CheckC07(o *Outcome) ([]Problem, map[string]int) {
	var ps []Problem

	cov := map[string]int{}
	curTainted := false // the commit under judgement concerns an input whose finalizers were hit by an ABA overwrite (reported on its own)
	bad := func(sig, f string, a ...any) {
		if curTainted {
			cov["violations_attributed_to_aba_overwrite"]++

			return
		}

		if o.Opts.QTIgnoreWhile {
			sig = SigQTIgnore
		}

		ps = append(ps, Problem{Sig: sig, Detail: fmt.Sprintf(f, a...)})
	}

	aba := abaOverwrites(o)
	tainted := func(id string, seq int) bool { // an ABA overwrite hit this input at or before seq
		for _, at := range aba[id] {
			if at <= seq {
				return true
			}
		}

		return false
	}

	for id, ats := range aba {
		cov["aba_overwrites"] += len(ats)

		ps = append(ps, Problem{Sig: SigABA, Detail: fmt.Sprintf("input %s: commit(s) %v replace the finalizers of a re-created input with a set derived from an earlier incarnation of the same version", id, ats)})
	}

	cs := controllers(o.Opts)
	state := map[gp.Key]*gp.Snap{}
	handlerOK := map[string]int{}  // input id -> seq of the latest "handler-ok" note of the current incarnation
	lateChild := map[gp.Key]bool{} // children created (by the harness's racing actors) after their parent was already tearing down or gone

	for _, c := range o.Log {
		id := c.Key.ID
		curTainted = tainted(id, c.Seq)

		switch {
		case c.Op == "note":
			if c.Note == "handler-ok" {
				handlerOK[id] = c.Seq
				cov["cleanup_handler_ok"]++
			}
		case c.Op == "create" && c.Key.Type == res.TypeA:
			delete(handlerOK, id)
		case c.Op == "create" && c.Key.Type == res.TypeD:
			parent := state[key(res.TypeA, c.Post.Labels["parent"])]
			lateChild[c.Key] = parent == nil || parent.TearingDown()

			if lateChild[c.Key] {
				cov["late_children_exempted"]++
			}
		}

		for _, ct := range cs {
			if !ct.fin {
				continue
			}

			switch {
			// an output first exists => the input exists and carries the finalizer
			case c.Op == "create" && c.Key.Type == ct.outType && c.Post.Owner == ct.name:
				cov["output_creates"]++

				in := state[key(res.TypeA, id)]
				if in == nil || !slices.Contains(in.Fins, ct.name) {
					bad("output-created-without-input-finalizer", "commit %d: %s created output %s/%s while the input is %s", c.Seq, ct.name, ct.outType[:1], id, desc(in))
				}

				if in != nil && in.TearingDown() {
					cov["window_output_created_for_tearing_down_input"]++
				}
			// the finalizer leaves the input => the output is gone
			case c.Op == "update" && c.Key.Type == res.TypeA && c.Pre != nil && slices.Contains(c.Pre.Fins, ct.name) && !slices.Contains(c.Post.Fins, ct.name):
				cov["finalizer_releases"]++

				if out := state[key(ct.outType, id)]; out != nil && out.Owner == ct.name {
					bad("finalizer-released-before-output-destroyed", "commit %d by %q: finalizer %s removed from input %s while output is %s", c.Seq, c.Actor, ct.name, id, desc(out))
				}
			// the input disappears => no output derived from it exists
			case c.Op == "destroy" && c.Key.Type == res.TypeA:
				cov["input_destroys"]++

				if out := state[key(ct.outType, id)]; out != nil && out.Owner == ct.name {
					bad("input-destroyed-while-output-exists", "commit %d: input %s destroyed while %s's output is %s", c.Seq, id, ct.name, desc(out))
				}
			}
		}

		// any controller output is destroyed only after being marked tearing-down and with no finalizers
		if c.Op == "destroy" && c.Pre != nil && (c.Pre.Owner == "T" || c.Pre.Owner == "QT") {
			cov["output_destroys"]++

			if !c.Pre.TearingDown() || len(c.Pre.Fins) > 0 {
				bad("output-destroyed-without-teardown", "commit %d: output %s destroyed in state %s", c.Seq, c.Key, desc(c.Pre))
			}
		}

		// the cleanup controller releases its finalizer only after its handler succeeded and the dependents are gone
		if c.Op == "update" && c.Key.Type == res.TypeA && c.Pre != nil && slices.Contains(c.Pre.Fins, "CL") && !slices.Contains(c.Post.Fins, "CL") {
			cov["cleanup_releases"]++

			if !c.Pre.TearingDown() {
				bad("cleanup-finalizer-released-on-running-input", "commit %d: %s", c.Seq, desc(c.Pre))
			}

			if _, ok := handlerOK[id]; !ok {
				bad("cleanup-finalizer-released-without-handler-success", "commit %d: cleanup finalizer removed from %s but the removal handler never returned success for this incarnation", c.Seq, id)
			}

			for k, v := range state {
				if k.Type == res.TypeD && v.Labels["parent"] == id && !lateChild[k] {
					bad("cleanup-finalizer-released-with-dependents", "commit %d: cleanup finalizer removed from %s while dependent %s is %s", c.Seq, id, k, desc(v))
				}
			}
		}

		// coverage windows
		if c.Op == "update" && c.Key.Type == res.TypeA && c.Pre != nil && !c.Pre.TearingDown() && c.Post.TearingDown() {
			for _, ct := range cs {
				if ct.fin && slices.Contains(c.Pre.Fins, ct.name) && state[key(ct.outType, id)] == nil {
					cov["window_teardown_between_addfinalizer_and_modify"]++
				}
			}
		}

		if c.Op == "create" && (c.Key.Type == res.TypeB || c.Key.Type == res.TypeC) && c.Pre == nil {
			// re-creation right after a destroy of the previous generation
			cov["output_generations"]++
		}

		if c.Op == "update" && (c.Key.Type == res.TypeB || c.Key.Type == res.TypeC) && c.Pre != nil && c.Pre.TearingDown() && len(c.Post.Fins) > len(c.Pre.Fins) {
			cov["window_foreign_finalizer_on_tearing_down_output"]++
		}

		// apply
		switch c.Op {
		case "create", "update":
			state[c.Key] = c.Post
		case "destroy":
			delete(state, c.Key)
		}
	}

	return ps, cov
}
