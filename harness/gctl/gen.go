package gctl

import "math/rand/v2"

// GenOpts draws a scenario configuration (shared with C07).
func GenOpts(rng *rand.Rand, k int) Opts {
	o := Opts{
		T:        []string{"plain", "finalizers", "finalizers", "ignoretd", ""}[rng.IntN(5)],
		QT:       rng.IntN(3) != 0,
		QTConc:   uint(1 + rng.IntN(3)),
		CL:       []string{"", "", "remove", "hasno", "combine"}[rng.IntN(5)],
		Destroy:  rng.IntN(2) == 0,
		MaxDelay: rng.IntN(4),
		Cached:   rng.IntN(3) == 0,
		Steps:    10 + rng.IntN(30),
		Actors:   1 + rng.IntN(3),
	}

	if rng.IntN(3) == 0 {
		o.FailFirst = 1 + rng.IntN(4)
	}

	if o.T == "" && !o.QT {
		o.QT = true
	}

	if o.CL == "combine" && (o.T == "" || o.T == "ignoretd") { // HasNoOutputs[B] needs a transform controller that removes B for torn-down inputs
		o.CL = "remove"
	}

	if o.QT && k%5 == 3 {
		o.QTIgnoreWhile = true // secondary configuration
	}

	if (o.T == "finalizers" || o.QT) && !o.QTIgnoreWhile && k%4 == 1 {
		o.PostponeRemoval = true // the user's finalizer-removal function postpones until after the first quiescent point
	}

	return o
}
