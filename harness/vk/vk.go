// Package vk is the shared verdict/evidence kit used by every check.
//
// A check is a Go test that calls vk.Run; the kit reads VERIF_TIER / VERIF_SEED,
// collects what the monitors observed, applies /verif/known_findings.json, prints
// VIOLATION / KNOWN-FINDING lines, writes /verif/evidence/<id>.json and decides the
// exit status of the test binary (0 held, 1 violated, 3 inconclusive).
package vk

import (
	"crypto/sha256"
	"encoding/hex"
	"encoding/json"
	"fmt"
	"math/rand/v2"
	"os"
	"path/filepath"
	"sort"
	"strconv"
	"strings"
	"sync"
	"testing"
	"time"
)

// Root is the /verif directory (overridable for tests of the kit itself).
func Root() string {
	if r := os.Getenv("VERIF_ROOT"); r != "" {
		return r
	}

	return "/verif"
}

// OutRoot is where evidence/ and artifacts/ are written: VERIF_OUT when set (scratch runs against a
// modified copy of the repository must not touch the committed evidence), else Root().
func OutRoot() string {
	if r := os.Getenv("VERIF_OUT"); r != "" {
		return r
	}

	return Root()
}

// Finding is one entry of known_findings.json.
type Finding struct {
	Property  string `json:"property"`
	Status    string `json:"status"` // "known" | "fixed"
	Signature string `json:"signature"`
	What      string `json:"what"`
	Commit    string `json:"commit,omitempty"`
}

// C is the per-run context.
type C struct {
	T     *testing.T
	ID    string
	Level string
	Tier  string
	Seed  int64

	mu          sync.Mutex
	start       time.Time
	evals       int64
	distinct    map[string]struct{}
	samples     []any
	counters    map[string]int64
	required    []string
	wanted      []string
	violations  int
	known       map[string]int
	inconcl     []string
	rule        string
	assumptions []string
	exhaustive  bool
	findings    []Finding
	extra       map[string]any
	vioSigs     map[string]int
}

// Run executes a check body and finalises evidence and exit status.
func Run(t *testing.T, id, level string, body func(c *C)) {
	c := &C{
		T: t, ID: id, Level: level,
		Tier:     envOr("VERIF_TIER", "quick"),
		start:    time.Now(),
		distinct: map[string]struct{}{},
		counters: map[string]int64{},
		known:    map[string]int{},
		extra:    map[string]any{},
		vioSigs:  map[string]int{},
	}

	if c.Tier != "quick" && c.Tier != "thorough" {
		c.Tier = "quick"
	}

	seed, err := strconv.ParseInt(envOr("VERIF_SEED", "1"), 10, 64)
	if err != nil {
		seed = 1
	}

	c.Seed = seed
	c.loadFindings()

	func() {
		defer func() {
			if r := recover(); r != nil {
				c.Violation("harness-or-target-panic", map[string]any{"panic": fmt.Sprint(r), "stack": string(stack())})
			}
		}()

		body(c)
	}()

	c.finish()
}

func envOr(k, d string) string {
	if v := os.Getenv(k); v != "" {
		return v
	}

	return d
}

// Thorough reports whether the thorough tier was requested.
func (c *C) Thorough() bool { return c.Tier == "thorough" }

// N picks a size by tier; VERIF_SCALE (float) scales both.
func (c *C) N(quick, thorough int) int {
	n := quick
	if c.Thorough() {
		n = thorough
	}

	if s := os.Getenv("VERIF_SCALE"); s != "" {
		if f, err := strconv.ParseFloat(s, 64); err == nil && f > 0 {
			n = int(float64(n) * f)
			if n < 1 {
				n = 1
			}
		}
	}

	return n
}

// Rand returns a PRNG determined by (seed, stream).
func (c *C) Rand(stream uint64) *rand.Rand {
	return rand.New(rand.NewPCG(uint64(c.Seed), stream))
}

// Rule records how cases are generated and what makes one non-trivial.
func (c *C) Rule(s string) { c.mu.Lock(); c.rule = s; c.mu.Unlock() }

// Assume records an assumption / trusted-base item.
func (c *C) Assume(s string) { c.mu.Lock(); c.assumptions = append(c.assumptions, s); c.mu.Unlock() }

// Exhaustive marks the run as having enumerated its finite space.
func (c *C) Exhaustive(b bool) { c.mu.Lock(); c.exhaustive = b; c.mu.Unlock() }

// Case records one evaluated case; key identifies it for distinctness; nontrivial by the rule.
func (c *C) Case(key string, nontrivial bool) {
	c.mu.Lock()
	defer c.mu.Unlock()

	c.evals++

	if nontrivial {
		h := sha256.Sum256([]byte(key))
		c.distinct[string(h[:12])] = struct{}{}
	}
}

// Evals adds n evaluations that are not tracked for distinctness.
func (c *C) Evals(n int) { c.mu.Lock(); c.evals += int64(n); c.mu.Unlock() }

// Sample keeps up to 6 written-out cases.
func (c *C) Sample(v any) {
	c.mu.Lock()
	defer c.mu.Unlock()

	if len(c.samples) < 6 {
		c.samples = append(c.samples, v)
	}
}

// Count adds to a named counter reported in evidence.
func (c *C) Count(name string, n int) { c.mu.Lock(); c.counters[name] += int64(n); c.mu.Unlock() }

// Get returns a counter value.
func (c *C) Get(name string) int64 { c.mu.Lock(); defer c.mu.Unlock(); return c.counters[name] }

// Require makes the run inconclusive if the named counter is still zero at the end.
func (c *C) Require(names ...string) {
	c.mu.Lock()
	c.required = append(c.required, names...)
	c.mu.Unlock()
}

// Want names coverage counters for rare race windows / patterns whose absence in ONE run is reported (evidence
// "coverage_gaps", a COVERAGE-GAP line) but does not make the run inconclusive: whether a seed reaches such a window is a
// property of the seed, not of the code under test. Counters without which the monitor has observed nothing belong in Require.
func (c *C) Want(names ...string) { c.mu.Lock(); c.wanted = append(c.wanted, names...); c.mu.Unlock() }

// Extra stores an arbitrary value in coverage.
func (c *C) Extra(k string, v any) { c.mu.Lock(); c.extra[k] = v; c.mu.Unlock() }

// Inconclusive records an inconclusive case.
func (c *C) Inconclusive(reason string) {
	c.mu.Lock()
	defer c.mu.Unlock()

	if len(c.inconcl) < 50 {
		c.inconcl = append(c.inconcl, reason)
	}

	c.counters["inconclusive"]++
}

func (c *C) loadFindings() {
	b, err := os.ReadFile(filepath.Join(Root(), "known_findings.json"))
	if err != nil {
		return
	}

	var all struct {
		Findings []Finding `json:"findings"`
	}

	if err := json.Unmarshal(b, &all); err != nil {
		fmt.Printf("WARNING: known_findings.json unreadable: %v\n", err)

		return
	}

	for _, f := range all.Findings {
		if f.Property == c.ID {
			c.findings = append(c.findings, f)
		}
	}
}

// Violation reports a violated case. sig is a stable signature of the witness
// (call site / input class / history shape); a "known" entry of known_findings.json whose
// signature equals sig turns it into a KNOWN-FINDING line. Returns true if it counted as an
// (unlisted) violation.
func (c *C) Violation(sig string, detail any) bool {
	c.mu.Lock()
	defer c.mu.Unlock()

	for _, f := range c.findings {
		if f.Status == "known" && f.Signature == sig {
			if c.known[sig] == 0 {
				fmt.Printf("KNOWN-FINDING: property=%s %s [%s]\n", c.ID, f.What, sig)
			}

			c.known[sig]++

			return false
		}
	}

	c.violations++
	c.vioSigs[sig]++

	if c.vioSigs[sig] > 3 { // keep at most 3 replays per signature
		return true
	}

	dir := filepath.Join(OutRoot(), "artifacts", c.ID)
	_ = os.MkdirAll(dir, 0o755)

	path := filepath.Join(dir, fmt.Sprintf("%s-seed%d-%s-%d.json", c.Tier, c.Seed, sanitize(sig), c.vioSigs[sig]))

	b, err := json.MarshalIndent(map[string]any{
		"property": c.ID, "signature": sig, "seed": c.Seed, "tier": c.Tier, "detail": detail,
	}, "", " ")
	if err != nil {
		b = []byte(fmt.Sprintf("{\"property\":%q,\"signature\":%q,\"detail\":%q}", c.ID, sig, fmt.Sprintf("%+v", detail)))
	}

	_ = os.WriteFile(path, b, 0o644)

	fmt.Printf("VIOLATION property=%s replay=%s\n", c.ID, path)
	fmt.Printf("  signature: %s\n", sig)

	return true
}

// Violations returns the number of unlisted violations so far.
func (c *C) Violations() int { c.mu.Lock(); defer c.mu.Unlock(); return c.violations }

func sanitize(s string) string {
	var b strings.Builder

	for _, r := range s {
		switch {
		case r >= 'a' && r <= 'z', r >= 'A' && r <= 'Z', r >= '0' && r <= '9', r == '-', r == '_':
			b.WriteRune(r)
		default:
			b.WriteByte('_')
		}

		if b.Len() > 60 {
			break
		}
	}

	return b.String()
}

// Hash is a short stable hash for case keys.
func Hash(parts ...any) string {
	h := sha256.New()

	for _, p := range parts {
		fmt.Fprintf(h, "%v|", p)
	}

	return hex.EncodeToString(h.Sum(nil)[:10])
}

func (c *C) finish() {
	c.mu.Lock()

	inconclusive := false

	var missing []string

	for _, r := range c.required {
		if c.counters[r] == 0 {
			missing = append(missing, r)
		}
	}

	if len(missing) > 0 {
		inconclusive = true
	}

	if c.evals > 0 && float64(c.counters["inconclusive"]) > 0.05*float64(c.evals) {
		inconclusive = true
	}

	if c.evals == 0 || len(c.distinct) < 2 {
		inconclusive = true
	}

	cov := map[string]any{
		"evaluations":         c.evals,
		"distinct_nontrivial": len(c.distinct),
		"rule":                c.rule,
		"samples":             c.samples,
		"counters":            c.counters,
		"exhaustive":          c.exhaustive,
	}

	for k, v := range c.extra {
		cov[k] = v
	}

	if len(c.inconcl) > 0 {
		cov["inconclusive_reasons"] = c.inconcl
	}

	if len(missing) > 0 {
		cov["required_counters_zero"] = missing
	}

	var gaps []string

	for _, r := range c.wanted {
		if c.counters[r] == 0 {
			gaps = append(gaps, r)
		}
	}

	if len(gaps) > 0 {
		cov["coverage_gaps"] = gaps
	}

	if len(c.known) > 0 {
		cov["known_findings_hit"] = c.known
	}

	if c.samples == nil {
		cov["samples"] = []any{}
	}

	ev := map[string]any{
		"property_id": c.ID,
		"tier":        c.Tier,
		"seed":        c.Seed,
		"level":       c.Level,
		"coverage":    cov,
		"assumptions": c.assumptions,
		"wall_s":      time.Since(c.start).Seconds(),
		"violations":  c.violations,
		"verdict":     verdict(c.violations, inconclusive),
	}

	violations := c.violations
	c.mu.Unlock()

	b, err := json.MarshalIndent(ev, "", " ")
	if err != nil {
		fmt.Printf("evidence marshal failed: %v\n", err)
		os.Exit(3)
	}

	out := envOr("VERIF_EVIDENCE", filepath.Join(OutRoot(), "evidence", c.ID+".json"))
	_ = os.MkdirAll(filepath.Dir(out), 0o755)

	if err := os.WriteFile(out, b, 0o644); err != nil {
		fmt.Printf("evidence write failed: %v\n", err)
		os.Exit(3)
	}

	keys := make([]string, 0, len(c.counters))
	for k := range c.counters {
		keys = append(keys, k)
	}

	sort.Strings(keys)

	fmt.Printf("SUMMARY property=%s tier=%s seed=%d evaluations=%d distinct_nontrivial=%d violations=%d verdict=%s wall=%.1fs\n",
		c.ID, c.Tier, c.Seed, c.evals, len(c.distinct), violations, verdict(violations, inconclusive), time.Since(c.start).Seconds())

	for _, k := range keys {
		fmt.Printf("  counter %-40s %d\n", k, c.counters[k])
	}

	if len(gaps) > 0 {
		fmt.Printf("COVERAGE-GAP property=%s windows not reached by this seed: %v\n", c.ID, gaps)
	}

	switch {
	case violations > 0:
		os.Exit(1)
	case inconclusive:
		fmt.Printf("INCONCLUSIVE property=%s missing=%v reasons=%v\n", c.ID, missing, c.inconcl)
		os.Exit(3)
	}
}

func verdict(v int, inc bool) string {
	switch {
	case v > 0:
		return "violated"
	case inc:
		return "inconclusive"
	default:
		return "held-on-observed"
	}
}
