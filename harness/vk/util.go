package vk

import (
	"fmt"
	"runtime/debug"
)

func stack() []byte { return debug.Stack() }

// Try runs f and reports a recovered panic (nil if none) with its stack.
func Try(f func()) (p any, st string) {
	defer func() {
		if r := recover(); r != nil {
			p = r
			st = string(debug.Stack())
		}
	}()

	f()

	return nil, ""
}

// Sprint is fmt.Sprint, re-exported for brevity in checks.
func Sprint(a ...any) string { return fmt.Sprint(a...) }
