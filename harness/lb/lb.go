// Package lb is the loopback gRPC transport (engine E5): an implementation of v1alpha1.StateClient that proto-marshals every
// request, unmarshals it into a fresh message and dispatches it to the real server.State handlers in-process (responses
// likewise), with channel shims for the streams. No sockets, so it runs inside a synctest bubble. Handler panics are recovered
// and recorded (grpc-go does not recover them: a recorded panic means "the server process would have died"). A fault plan
// can fail Recv at chosen message indices, fail stream establishments and hide RPCs (Unimplemented) to emulate an old server.
package lb

import (
	"context"
	"errors"
	"fmt"
	"io"
	"runtime/debug"
	"sync"

	"google.golang.org/grpc"
	"google.golang.org/grpc/codes"
	"google.golang.org/grpc/metadata"
	"google.golang.org/grpc/status"
	"google.golang.org/protobuf/proto"

	"github.com/cosi-project/runtime/api/v1alpha1"
)

// Panic records a recovered handler panic.
type Panic struct {
	Method string
	Value  string
	Stack  string
}

// Client is the loopback StateClient.
type Client struct {
	Srv v1alpha1.StateServer

	mu     sync.Mutex
	panics []Panic
	// Hidden RPC names ("Teardown", "TeardownAndDestroy") answer Unimplemented.
	hidden map[string]bool
	calls  map[string]int
	// watch fault plan
	failRecvAt           map[int]map[int]codes.Code // stream number (0-based, in order of establishment) -> message index -> code
	failEstablish        int                        // fail the next n Watch establishments (after the first stream) with Unavailable
	failEstablishForever bool
	streams              int
	// Buffer is the per-stream message buffer (emulates transport flow-control window).
	Buffer int

	failHits []FailHit
	// lastBookmark[stream] is the bookmark of the last event of the last message delivered on that Watch stream
	// (nil if that event carried none) and delivered[stream] the number of data messages delivered.
	lastBookmark map[int][]byte
	delivered    map[int]int
}

// FailHit records an injected Recv failure that actually happened.
type FailHit struct {
	Stream, Index int
	// LastBookmark is what the client had as resume point when the failure hit (nil = none).
	LastBookmark []byte
	Delivered    int
}

// FailHits returns the injected failures that were actually hit.
func (c *Client) FailHits() []FailHit {
	c.mu.Lock()
	defer c.mu.Unlock()
	return append([]FailHit(nil), c.failHits...)
}

// New creates a loopback client around a server implementation.
func New(srv v1alpha1.StateServer) *Client {
	return &Client{Srv: srv, hidden: map[string]bool{}, calls: map[string]int{}, failRecvAt: map[int]map[int]codes.Code{}, Buffer: 16, lastBookmark: map[int][]byte{}, delivered: map[int]int{}}
}

// Hide makes an RPC answer Unimplemented.
func (c *Client) Hide(method string) { c.mu.Lock(); c.hidden[method] = true; c.mu.Unlock() }

// Calls returns how often a method was invoked (including hidden ones).
func (c *Client) Calls(method string) int { c.mu.Lock(); defer c.mu.Unlock(); return c.calls[method] }

// Panics returns the recovered handler panics.
func (c *Client) Panics() []Panic {
	c.mu.Lock()
	defer c.mu.Unlock()
	return append([]Panic(nil), c.panics...)
}

// FailRecv makes the stream-th Watch stream fail its idx-th Recv (0 = the establishment acknowledgement) with code.
func (c *Client) FailRecv(stream, idx int, code codes.Code) {
	c.mu.Lock()
	defer c.mu.Unlock()

	if c.failRecvAt[stream] == nil {
		c.failRecvAt[stream] = map[int]codes.Code{}
	}

	c.failRecvAt[stream][idx] = code
}

// FailEstablish makes the next n Watch establishments fail with Unavailable (n < 0: forever).
func (c *Client) FailEstablish(n int) {
	c.mu.Lock()
	defer c.mu.Unlock()

	if n < 0 {
		c.failEstablishForever = true
	} else {
		c.failEstablish = n
	}
}

// Streams returns the number of Watch streams established so far.
func (c *Client) Streams() int { c.mu.Lock(); defer c.mu.Unlock(); return c.streams }

func (c *Client) note(method string) bool {
	c.mu.Lock()
	defer c.mu.Unlock()

	c.calls[method]++

	return c.hidden[method]
}

// wireErr converts a handler error the way grpc-go carries it to the client: a code and a message.
func wireErr(err error) error {
	if err == nil {
		return nil
	}

	if errors.Is(err, context.Canceled) {
		return status.Error(codes.Canceled, err.Error())
	}

	if errors.Is(err, context.DeadlineExceeded) {
		return status.Error(codes.DeadlineExceeded, err.Error())
	}

	if s, ok := status.FromError(err); ok {
		return status.Error(s.Code(), s.Message())
	}

	return status.Error(codes.Unknown, err.Error())
}

func roundTrip[M proto.Message](in M, fresh M) (M, error) {
	b, err := proto.Marshal(in)
	if err != nil {
		return fresh, status.Error(codes.Internal, "marshal: "+err.Error())
	}

	if err := proto.Unmarshal(b, fresh); err != nil {
		return fresh, status.Error(codes.Internal, "unmarshal: "+err.Error())
	}

	return fresh, nil
}

func unary[Req, Resp proto.Message](c *Client, method string, ctx context.Context, req Req, freshReq Req, freshResp Resp, h func(context.Context, Req) (Resp, error)) (resp Resp, err error) {
	if c.note(method) {
		return freshResp, status.Error(codes.Unimplemented, "method "+method+" not implemented")
	}

	if ctx.Err() != nil {
		return freshResp, wireErr(ctx.Err())
	}

	r, err := roundTrip(req, freshReq)
	if err != nil {
		return freshResp, err
	}

	var out Resp

	func() {
		defer func() {
			if p := recover(); p != nil {
				c.mu.Lock()
				c.panics = append(c.panics, Panic{Method: method, Value: fmt.Sprint(p), Stack: string(debug.Stack())})
				c.mu.Unlock()

				err = status.Error(codes.Unavailable, "server crashed: "+fmt.Sprint(p))
			}
		}()

		out, err = h(ctx, r)
	}()

	if err != nil {
		return freshResp, wireErr(err)
	}

	return roundTrip(out, freshResp)
}

// Get implements v1alpha1.StateClient.
func (c *Client) Get(ctx context.Context, in *v1alpha1.GetRequest, _ ...grpc.CallOption) (*v1alpha1.GetResponse, error) {
	return unary(c, "Get", ctx, in, &v1alpha1.GetRequest{}, &v1alpha1.GetResponse{}, c.Srv.Get)
}

// Create implements v1alpha1.StateClient.
func (c *Client) Create(ctx context.Context, in *v1alpha1.CreateRequest, _ ...grpc.CallOption) (*v1alpha1.CreateResponse, error) {
	return unary(c, "Create", ctx, in, &v1alpha1.CreateRequest{}, &v1alpha1.CreateResponse{}, c.Srv.Create)
}

// Update implements v1alpha1.StateClient.
func (c *Client) Update(ctx context.Context, in *v1alpha1.UpdateRequest, _ ...grpc.CallOption) (*v1alpha1.UpdateResponse, error) {
	return unary(c, "Update", ctx, in, &v1alpha1.UpdateRequest{}, &v1alpha1.UpdateResponse{}, c.Srv.Update)
}

// Destroy implements v1alpha1.StateClient.
func (c *Client) Destroy(ctx context.Context, in *v1alpha1.DestroyRequest, _ ...grpc.CallOption) (*v1alpha1.DestroyResponse, error) {
	return unary(c, "Destroy", ctx, in, &v1alpha1.DestroyRequest{}, &v1alpha1.DestroyResponse{}, c.Srv.Destroy)
}

// Teardown implements v1alpha1.StateClient.
func (c *Client) Teardown(ctx context.Context, in *v1alpha1.TeardownRequest, _ ...grpc.CallOption) (*v1alpha1.TeardownResponse, error) {
	return unary(c, "Teardown", ctx, in, &v1alpha1.TeardownRequest{}, &v1alpha1.TeardownResponse{}, c.Srv.Teardown)
}

// TeardownAndDestroy implements v1alpha1.StateClient.
func (c *Client) TeardownAndDestroy(ctx context.Context, in *v1alpha1.TeardownAndDestroyRequest, _ ...grpc.CallOption) (*v1alpha1.TeardownAndDestroyResponse, error) {
	return unary(c, "TeardownAndDestroy", ctx, in, &v1alpha1.TeardownAndDestroyRequest{}, &v1alpha1.TeardownAndDestroyResponse{}, c.Srv.TeardownAndDestroy)
}

// ---- streams ---------------------------------------------------------------------------------------------------------

type msgOrErr[T any] struct {
	msg *T
	err error
}

type stream[T any] struct {
	ctx    context.Context //nolint:containedctx
	cancel context.CancelFunc
	ch     chan msgOrErr[T]
	recvN  int
	fail   map[int]codes.Code
	dead   error
	fresh  func() *T
	onFail func(idx int)
	onMsg  func(*T)
}

func (s *stream[T]) Recv() (*T, error) {
	if s.dead != nil {
		return nil, s.dead
	}

	if code, ok := s.fail[s.recvN]; ok {
		if s.onFail != nil {
			s.onFail(s.recvN)
		}

		s.recvN++
		s.dead = status.Error(code, "verif: injected transport failure")
		s.cancel() // the server side sees the stream context cancelled, as with a broken connection

		return nil, s.dead
	}

	s.recvN++

	select {
	case m := <-s.ch:
		if m.err != nil {
			s.dead = m.err

			return nil, m.err
		}

		if s.onMsg != nil {
			s.onMsg(m.msg)
		}

		return m.msg, nil
	case <-s.ctx.Done():
		// prefer a message / final status that is already there
		select {
		case m := <-s.ch:
			if m.err != nil {
				s.dead = m.err

				return nil, m.err
			}

			return m.msg, nil
		default:
		}

		s.dead = wireErr(s.ctx.Err())

		return nil, s.dead
	}
}

func (s *stream[T]) Header() (metadata.MD, error) { return nil, nil }
func (s *stream[T]) Trailer() metadata.MD         { return nil }
func (s *stream[T]) CloseSend() error             { return nil }
func (s *stream[T]) Context() context.Context     { return s.ctx }
func (s *stream[T]) SendMsg(any) error            { return nil }
func (s *stream[T]) RecvMsg(any) error            { return errors.New("not supported") }

type serverStream[T any] struct {
	ctx context.Context //nolint:containedctx
	ch  chan msgOrErr[T]
	mk  func() *T
}

func (s *serverStream[T]) Send(m *T) error {
	pm, ok := any(m).(proto.Message)
	if !ok {
		return errors.New("not a proto message")
	}

	b, err := proto.Marshal(pm)
	if err != nil {
		return status.Error(codes.Internal, err.Error())
	}

	fresh := s.mk()
	if err := proto.Unmarshal(b, any(fresh).(proto.Message)); err != nil { //nolint:forcetypeassert
		return status.Error(codes.Internal, err.Error())
	}

	select {
	case s.ch <- msgOrErr[T]{msg: fresh}:
		return nil
	case <-s.ctx.Done():
		return wireErr(s.ctx.Err())
	}
}

func (s *serverStream[T]) SetHeader(metadata.MD) error  { return nil }
func (s *serverStream[T]) SendHeader(metadata.MD) error { return nil }
func (s *serverStream[T]) SetTrailer(metadata.MD)       {}
func (s *serverStream[T]) Context() context.Context     { return s.ctx }
func (s *serverStream[T]) SendMsg(any) error            { return errors.New("not supported") }
func (s *serverStream[T]) RecvMsg(any) error            { return errors.New("not supported") }

func startStream[T any](c *Client, method string, ctx context.Context, mk func() *T, fail map[int]codes.Code, run func(*serverStream[T]) error) *stream[T] {
	sctx, cancel := context.WithCancel(ctx)
	ch := make(chan msgOrErr[T], c.Buffer)
	st := &stream[T]{ctx: sctx, cancel: cancel, ch: ch, fail: fail}
	ss := &serverStream[T]{ctx: sctx, ch: ch, mk: mk}

	go func() {
		var err error

		func() {
			defer func() {
				if p := recover(); p != nil {
					c.mu.Lock()
					c.panics = append(c.panics, Panic{Method: method, Value: fmt.Sprint(p), Stack: string(debug.Stack())})
					c.mu.Unlock()

					err = status.Error(codes.Unavailable, "server crashed: "+fmt.Sprint(p))
				}
			}()

			err = run(ss)
		}()

		final := io.EOF
		if err != nil {
			final = wireErr(err)
		}

		select {
		case ch <- msgOrErr[T]{err: final}:
		case <-sctx.Done():
		}
	}()

	return st
}

// List implements v1alpha1.StateClient.
func (c *Client) List(ctx context.Context, in *v1alpha1.ListRequest, _ ...grpc.CallOption) (grpc.ServerStreamingClient[v1alpha1.ListResponse], error) {
	c.note("List")

	req, err := roundTrip(in, &v1alpha1.ListRequest{})
	if err != nil {
		return nil, err
	}

	return startStream(c, "List", ctx, func() *v1alpha1.ListResponse { return &v1alpha1.ListResponse{} }, nil, func(ss *serverStream[v1alpha1.ListResponse]) error {
		return c.Srv.List(req, ss)
	}), nil
}

// Watch implements v1alpha1.StateClient.
func (c *Client) Watch(ctx context.Context, in *v1alpha1.WatchRequest, _ ...grpc.CallOption) (grpc.ServerStreamingClient[v1alpha1.WatchResponse], error) {
	c.note("Watch")

	c.mu.Lock()
	n := c.streams

	if n > 0 && (c.failEstablishForever || c.failEstablish > 0) {
		if c.failEstablish > 0 {
			c.failEstablish--
		}

		c.mu.Unlock()

		return nil, status.Error(codes.Unavailable, "verif: injected establishment failure")
	}

	c.streams++
	fail := c.failRecvAt[n]
	c.mu.Unlock()

	req, err := roundTrip(in, &v1alpha1.WatchRequest{})
	if err != nil {
		return nil, err
	}

	st := startStream(c, "Watch", ctx, func() *v1alpha1.WatchResponse { return &v1alpha1.WatchResponse{} }, fail, func(ss *serverStream[v1alpha1.WatchResponse]) error {
		return c.Srv.Watch(req, ss)
	})

	st.onMsg = func(m *v1alpha1.WatchResponse) {
		if len(m.Event) == 0 {
			return // establishment acknowledgement
		}

		c.mu.Lock()
		c.delivered[n]++
		c.lastBookmark[n] = m.Event[len(m.Event)-1].Bookmark
		c.mu.Unlock()
	}

	st.onFail = func(idx int) {
		c.mu.Lock()
		defer c.mu.Unlock()

		// the client's resume point: the last bookmark seen on any stream so far
		var last []byte

		for i := 0; i <= n; i++ {
			if c.delivered[i] > 0 {
				last = c.lastBookmark[i]
			}
		}

		c.failHits = append(c.failHits, FailHit{Stream: n, Index: idx, LastBookmark: last, Delivered: c.delivered[n]})
	}

	return st, nil
}
