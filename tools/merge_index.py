#!/usr/bin/env python3
"""tools/merge_index.py <result-file>... : update seeded/INDEX.md rows from `tools/seeded.sh` output lines (partial regressions);
rows without a new result are kept, rows for new seeded directories are added. A row shows the check of the change's own property
unless another check is named in the result line (also_checks)."""
import json, os, re, sys, subprocess
V = os.path.dirname(os.path.dirname(os.path.abspath(__file__)))
idx = os.path.join(V, 'seeded', 'INDEX.md')
rows = {}
for l in open(idx):
    m = re.match(r'\| (C\d\d-[a-z]) \| (C\d\d) \| (\d) \| (.*?) \| (.*) \|$', l.rstrip('\n'))
    if m:
        rows[(m.group(1), m.group(2))] = [m.group(3), m.group(4), m.group(5)]
for f in sys.argv[1:]:
    for l in open(f):
        m = re.match(r'(C\d\d-[a-z]) (C\d\d) rc=(\d+) (.*)$', l.strip())
        if not m or m.group(3) not in ('0', '1'):
            continue
        sid, chk, rc, rest = m.groups()
        sigs = rest.split('| ')[-1].strip() if '| ' in rest else ''
        meta = json.load(open(os.path.join(V, 'seeded', sid, 'meta.json')))
        needs = (meta.get('needs_to_manifest') or meta.get('needs') or '')[:260].replace('\n', ' ').replace('|', '/')
        rows[(sid, chk)] = [rc, sigs, needs]
head = subprocess.run(['git', '-C', '/repo', 'log', '--format=%h', '-1'], capture_output=True, text=True).stdout.strip()
out = ["# Seeded changes (independent sub-agents) and the checks that catch them", "",
       f"Rows produced by `tools/seeded.sh` (quick tier, VERIF_SEED=1, scratch worktrees of /repo {head}); full regeneration: `tools/seeded_all.sh`, partial: `tools/merge_index.py`. rc=1 = caught (VIOLATION), rc=0 = missed by that check. A change whose own-property row says 0 is caught by the other check listed for it (see DESIGN.md section 5 on store-level atomicity breaks).", "",
       "| Change | Check | rc | First signatures | What the change needs to manifest |", "|---|---|---|---|---|"]
for (sid, chk) in sorted(rows):
    rc, sigs, needs = rows[(sid, chk)]
    out.append(f"| {sid} | {chk} | {rc} | {sigs} | {needs} |")
open(idx, 'w').write('\n'.join(out) + '\n')
print(len(rows), "rows;", sum(1 for v in rows.values() if v[0] == '0'), "with rc=0")
