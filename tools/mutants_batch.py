#!/usr/bin/env python3
"""tools/mutants_batch.py <file.jsonl> [jobs]: each line {"id":..,"file":..,"pat":..,"rep":..,"note":..}; runs tools/mutant.sh in parallel, prints one block per mutant."""
import json, subprocess, sys, concurrent.futures as cf
lines=[json.loads(l) for l in open(sys.argv[1]) if l.strip() and not l.startswith('#')]
jobs=int(sys.argv[2]) if len(sys.argv)>2 else 4
def run(m):
    r=subprocess.run(['/verif/tools/mutant.sh',m['id'],m['file'],m['pat'],m['rep'],str(m.get('count',1))],capture_output=True,text=True)
    out=(r.stdout+r.stderr).strip().splitlines()
    return m,[l for l in out if 'WARNING conda' not in l][-6:]
with cf.ThreadPoolExecutor(jobs) as ex:
    for m,out in ex.map(run,lines):
        print('==',m['id'],m.get('note',''))
        for l in out: print('   ',l[:180])
