#!/usr/bin/env python3
"""tools/mkbriefs.py <suffix> <outdir> : write one sub-agent brief per property (property text + what earlier
seeded changes already did, so that a new one uses another mechanism and site). Nothing about the checks goes in."""
import json, sys, os, glob
suffix, out = sys.argv[1], sys.argv[2]
os.makedirs(out, exist_ok=True)
props = [json.loads(l) for l in open('/verif/properties.jsonl')]
for p in props:
    pid = p['id']
    earlier = []
    for d in sorted(glob.glob(f'/verif/seeded/{pid}-*/meta.json')):
        m = json.load(open(d))
        earlier.append(f"- files {m.get('files')}: " + (m.get('summary') or '')[:420].replace('\n', ' '))
    wt = f"/tmp/sw/{pid}"
    txt = f"""You are helping to evaluate a verification effort by playing the adversary. You work ONLY inside the scratch git worktree
{wt} (a checkout of the Go repository cosi-project/runtime). Do not read or write anything under /verif or /repo, and do not
look at other directories under /tmp/sw.

The property (given; it should hold for the code in the worktree):

  id: {pid}
  title: {p['title']}
  statement: {p['statement']}
  quantifier: {p.get('quantifier')}
  anchors (where it lives in the code): {json.dumps(p.get('anchors'))}

Your task: make ONE realistic change to the production code (non-test .go files) in the worktree that BREAKS this property while
  (1) the repository still compiles (`go build ./...`),
  (2) the existing test suite still passes with the change (run at least the packages you touched and ./pkg/state/... ./pkg/controller/...
      ./pkg/safe/... ./pkg/resource/... ./pkg/keystorage/... - ideally `go test -count=1 -vet=off ./...`), and
  (3) the break needs something specific to manifest - a particular interleaving, a crash or fault at a particular point, a multi-step
      sequence of operations, an unusual input, or two cooperating sites that each look fine alone. NOT a change that ordinary use
      would expose at once, and not a contrived `if id == "magic"` special case: it should look like a plausible refactoring, optimisation,
      or bug fix gone wrong that a reviewer could let through.

Earlier rounds already produced the following changes for this property. Use a DIFFERENT mechanism and preferably a different code site:
{chr(10).join(earlier) if earlier else '(none)'}

Environment: every shell command needs `export GOPROXY=off GOFLAGS=-mod=mod` first (no network; the Go toolchain switches to the
cached go1.26.5 automatically; do not set GOSUMDB or GOTOOLCHAIN). `go test -race` works. NEVER use `git stash` (the stash is shared with
other jobs working in sibling worktrees): use `git diff > file`, `git checkout -- .` and `git apply` instead. 16 cores are shared with other jobs, so
run only the packages you need while iterating.

Deliverables, all inside {wt}/SEEDED/ (create the directory):
  * patch.diff      - `git diff` of your production-code change only (must apply with `git apply` to a clean checkout of the worktree's HEAD)
  * <name>_test.go.txt - a demonstration: a Go test file (package of the directory it is to be placed in; only public or package-internal API,
                      no new dependencies) that PASSES on the unchanged tree and FAILS with your patch, deterministically or nearly so
                      (if it needs an interleaving, force it with wrappers/hooks in the test, not with sleeps and luck). Test function names
                      must start with TestSeeded.
  * meta.json       - {{"property": "{pid}", "summary": "...what was changed and why it breaks the property...", "files": [...],
                      "needs_to_manifest": "...the specific interleaving / fault / sequence / input...",
                      "why_existing_tests_pass": "...", "demo": {{"place_at": "<path in the repo where the test file goes, ending in _test.go>",
                      "run": "<command>", "fails_with_patch": true, "passes_without": true, "notes": "..."}}, "full_suite": "<what you ran and the result>"}}
Before you finish: verify yourself, from a clean state, that the demo passes without the patch and fails with it, and that the existing tests
pass with the patch. Leave the worktree with the patch applied or not - only SEEDED/ matters. Reply with a 5-line summary.
"""
    open(f"{out}/{pid}.md", 'w').write(txt)
print("ok", len(props))
