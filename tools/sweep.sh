#!/usr/bin/env bash
# tools/sweep.sh <id> <tier> <seed>...   run a check at several seeds, print one line each
ID="$1"; TIER="$2"; shift 2
for s in "$@"; do
  out=$(VERIF_SEED=$s /verif/run.sh "$ID" "$TIER" 2>&1); rc=$?
  echo "seed=$s rc=$rc $(echo "$out" | grep -E '^(SUMMARY|VIOLATION|INCONCLUSIVE)' | head -3 | tr '\n' ' ')"
done
