#!/usr/bin/env bash
# tools/runall.sh [tier] : run every claimed check once (VERIF_SEED default 1), print one line each
TIER="${1:-quick}"
cd /verif
for id in $(jq -r '.checks[].property_id' MANIFEST.json); do
  s=$(date +%s)
  out=$(./run.sh "$id" "$TIER" 2>&1); rc=$?
  e=$(( $(date +%s) - s ))
  echo "$id rc=$rc ${e}s $(echo "$out" | grep -E '^(SUMMARY|VIOLATION|INCONCLUSIVE|KNOWN)' | head -2 | cut -c1-170 | tr '\n' ' ')"
done
