#!/usr/bin/env bash
# tools/verify_seeded.sh <seeded-dir> [full] : confirm in a scratch worktree that (1) the demo passes on the unchanged tree,
# (2) fails with the patch, (3) the existing tests of the touched packages (or the full suite with "full") pass with the patch.
set -u
D="$(cd "$1" && pwd)"; FULL="${2:-}"
export GOPROXY=off GOFLAGS=-mod=mod
WT=$(mktemp -d /tmp/vs-XXXXXX); rmdir "$WT"
git -C /repo worktree add -q "$WT" HEAD || exit 2
trap 'git -C /repo worktree remove --force "$WT" 2>/dev/null; rm -rf "$WT"' EXIT
PLACE=$(jq -r '.demo.place_at' "$D/meta.json")
DEMO=$(ls "$D"/*_test.go "$D"/_*_test.go 2>/dev/null | head -1)
[ -n "$DEMO" ] && [ "$PLACE" != null ] || { echo "cannot find demo/place_at"; exit 2; }
PKG="./$(dirname "$PLACE")"
RUNRE=$(grep -oE 'func (Test[A-Za-z0-9_]+)' "$DEMO" | awk '{print $2}' | paste -sd'|')
{
echo "verified $(date -u +%FT%TZ) at /repo $(git -C /repo log --format=%h -1); demo $DEMO -> $PLACE; tests: $RUNRE"
cd "$WT"; cp "$DEMO" "$PLACE"
echo "--- demo on the unchanged tree (expect ok)"
go test -count=1 -vet=off "$PKG" -run "^($RUNRE)\$" 2>&1 | tail -4; r1=${PIPESTATUS[0]}
git apply "$D/patch.diff" || { echo "PATCH DOES NOT APPLY"; exit 2; }
echo "--- demo with the patch (expect FAIL)"
go test -count=1 -vet=off "$PKG" -run "^($RUNRE)\$" 2>&1 | tail -6; r2=${PIPESTATUS[0]}
rm -f "$PLACE"
echo "--- existing tests with the patch (expect ok)"
if [ "$FULL" = full ]; then go test -count=1 -vet=off ./... 2>&1 | grep -v '^?' | grep -v '^ok' | tail -15; r3=${PIPESTATUS[0]}
else PKGS=$(git diff --name-only | xargs -n1 dirname | sort -u | sed 's|^|./|' | paste -sd' '); go test -count=1 -vet=off $PKGS ./pkg/state/... ./pkg/controller/... ./pkg/safe/... 2>&1 | grep -v '^?' | grep -v '^ok' | tail -15; r3=${PIPESTATUS[0]}; fi
echo "RESULT demo_without_patch=$r1 demo_with_patch=$r2 existing_tests_with_patch=$r3"
} 2>&1 | tee "$D/confirmed.txt" | tail -14
