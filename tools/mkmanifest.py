#!/usr/bin/env python3
"""Regenerate /verif/MANIFEST.json from tools/checks.json (one entry per claimed property)."""
import json, os, subprocess, sys
root = os.path.dirname(os.path.dirname(os.path.abspath(__file__)))
props = [json.loads(l) for l in open(os.path.join(root, 'properties.jsonl'))]
table = json.load(open(os.path.join(root, 'tools', 'checks.json')))
checks, na = [], []
for p in props:
    pid = p['id']
    e = table.get(pid)
    if e and e.get('claimed'):
        checks.append({
            "property_id": pid,
            "quick_cmd": f"./run.sh {pid} quick",
            "thorough_cmd": f"./run.sh {pid} thorough",
            "evidence_file": f"/verif/evidence/{pid}.json",
            "replay_cmd_template": f"./run.sh {pid} --replay {{path}}",
            "engine": e.get("engine", "harness"),
            "level_claimed": {"category": e["level"], "text": e["text"], "design_ref": f"DESIGN.md §3 {pid}"},
            "level_note": e["note"],
            "technique": e["technique"],
        })
    else:
        na.append({"property_id": pid, "reason": (e or {}).get("reason", "check not built yet in this round; runtime monitoring is applicable (see DESIGN.md)")})
hooks = json.load(open(os.path.join(root, 'tools', 'hooks.json')))
m = {
    "version": 1,
    "setup_cmd": "./run.sh setup",
    "hooks": hooks,
    "engines": json.load(open(os.path.join(root, 'tools', 'engines.json'))),
    "checks": checks,
    "not_applicable": na,
    "notes": "Runtime monitoring and sanitizers only: every check builds /repo's working tree with -tags verif -race and runs monitors (oracles over recorded histories/event logs, invariants at quiescent points) over seeded hostile workloads. See DESIGN.md. Exit 3 = inconclusive (never on the unchanged tree).",
}
json.dump(m, open(os.path.join(root, 'MANIFEST.json'), 'w'), indent=1)
print(f"claimed {len(checks)} / not_applicable {len(na)}")
