#!/usr/bin/env bash
# tools/mutant.sh <id> <file-in-repo> <python-regex> <replacement> [count]  : apply a one-off source mutation to /repo, run the quick check, restore.
set -u
ID="$1"; F="/repo/$2"; PAT="$3"; REP="$4"; CNT="${5:-1}"
cd /repo && git diff --quiet || { echo "repo dirty"; exit 2; }
python3 - "$F" "$PAT" "$REP" "$CNT" <<'PY'
import re,sys
f,pat,rep,cnt=sys.argv[1:5]
s=open(f).read()
n,k=re.subn(pat,rep,s,count=int(cnt),flags=re.S)
if k==0: print("PATTERN NOT FOUND"); sys.exit(1)
open(f,'w').write(n)
PY
[ $? -eq 0 ] || exit 2
git -C /repo diff --stat | tail -1
cd /verif && VERIF_EVIDENCE=/tmp/mutant-evidence.json ./run.sh "$ID" quick | grep -E '^(VIOLATION|SUMMARY|INCONCLUSIVE|KNOWN|  signature)' | sort | uniq -c | sort -rn | head -12
git -C /repo checkout -- . 
