#!/usr/bin/env bash
# tools/mutant.sh <id> <file-in-repo> <python-regex> <replacement> [count]
# Applies a one-off source mutation to a scratch worktree of /repo's HEAD and runs the quick check (TIER=thorough for the other
# tier) against it; /repo and the committed evidence are not touched.
set -u
ID="$1"; REL="$2"; PAT="$3"; REP="$4"; CNT="${5:-1}"
V="$(cd "$(dirname "${BASH_SOURCE[0]}")/.." && pwd)"
WT=$(mktemp -d /tmp/mu-XXXXXX); OUT=$(mktemp -d /tmp/muo-XXXXXX)
trap 'git -C /repo worktree remove --force "$WT/r" 2>/dev/null; rm -rf "$WT" "$OUT"' EXIT
git -C /repo worktree add -q --detach "$WT/r" HEAD || { echo "worktree failed"; exit 2; }
python3 - "$WT/r/$REL" "$PAT" "$REP" "$CNT" <<'PY'
import re,sys
f,pat,rep,cnt=sys.argv[1:5]
s=open(f).read()
n,k=re.subn(pat,rep,s,count=int(cnt),flags=re.S)
if k==0: print("PATTERN NOT FOUND"); sys.exit(1)
open(f,'w').write(n)
PY
[ $? -eq 0 ] || exit 2
git -C "$WT/r" diff --stat | tail -1
cd "$V" && VERIF_REPO="$WT/r" VERIF_OUT="$OUT" ./run.sh "$ID" "${TIER:-quick}" | grep -E '^(VIOLATION|SUMMARY|INCONCLUSIVE|KNOWN|  signature)' | sed -E 's/replay=.*//' | sort | uniq -c | sort -rn | head -12
