#!/usr/bin/env bash
# tools/import_seeded.sh <worktree> <seeded-id>   copy <worktree>/SEEDED into seeded/<seeded-id>, verify it, run the property's check
set -u
WT="$1"; SID="$2"; V=/verif; D="$V/seeded/$SID"
[ -f "$WT/SEEDED/patch.diff" ] && [ -f "$WT/SEEDED/meta.json" ] || { echo "$SID: incomplete deliverables"; ls "$WT/SEEDED"; exit 2; }
mkdir -p "$D"
cp "$WT/SEEDED/patch.diff" "$WT/SEEDED/meta.json" "$D/"
demo=$(ls "$WT"/SEEDED/*_test.go.txt | head -1)
cp "$demo" "$D/seeded_demo_test.go"
"$V/tools/verify_seeded.sh" "$D" > /tmp/import-$SID.log 2>&1
tail -1 "$D/confirmed.txt"
P=$(jq -r .property "$D/meta.json")
"$V/tools/seeded.sh" "$D" "$P"
