#!/usr/bin/env bash
# tools/soak.sh <tier> <jobs> <seeds...> [-- <ids...>]
# Runs every claimed check (or the given ids) at each seed, <jobs> in parallel (so the machine is loaded: timing-dependent false
# alarms show up), with evidence/artifacts under ./soak-out (never the committed evidence). Prints one line per run; any rc!=0
# line is a finding to triage. Artifacts of failing runs are kept in soak-out/fail-<id>-<seed>/.
TIER="$1"; J="$2"; shift 2
SEEDS=(); IDS=()
while [ $# -gt 0 ] && [ "$1" != "--" ]; do SEEDS+=("$1"); shift; done
[ "${1:-}" = "--" ] && { shift; IDS=("$@"); }
V="$(cd "$(dirname "${BASH_SOURCE[0]}")/.." && pwd)"; cd "$V"
[ ${#IDS[@]} -eq 0 ] && IDS=($(jq -r '.checks[].property_id' MANIFEST.json))
O="$V/soak-out"; mkdir -p "$O"
one() {
  id="$1"; seed="$2"; out="$O/o-$id-$seed"
  s=$(date +%s)
  res=$(VERIF_SEED=$seed VERIF_OUT="$out" ./run.sh "$id" "$TIER" 2>&1); rc=$?
  e=$(( $(date +%s) - s ))
  echo "$id seed=$seed rc=$rc ${e}s $(echo "$res" | grep -E '^(SUMMARY|VIOLATION|INCONCLUSIVE)' | head -2 | sed -E 's/replay=[^ ]*//' | cut -c1-150 | tr '\n' ' ') $(echo "$res" | grep -E '^  signature' | sort | uniq -c | head -3 | tr '\n' ' ')"
  if [ $rc -ne 0 ]; then mkdir -p "$O/fail-$id-$seed"; cp -r "$out/artifacts/$id/." "$O/fail-$id-$seed/" 2>/dev/null; fi
  rm -rf "$out"
}
export -f one; export O TIER
for seed in "${SEEDS[@]}"; do for id in "${IDS[@]}"; do echo "$id $seed"; done; done | xargs -P "$J" -L1 bash -c 'one $0 $1'
