#!/usr/bin/env bash
# tools/seeded.sh <seeded-dir> <check-id>... : apply a seeded change to /repo, run the given quick checks, restore /repo.
# prints one line per check: id, exit code, first signatures
set -u
D="$(cd "$1" && pwd)"; shift
cd /repo && git diff --quiet || { echo "repo dirty"; exit 2; }
git -C /repo apply "$D/patch.diff" || { echo "patch does not apply"; exit 2; }
trap 'git -C /repo checkout -- . ; git -C /repo clean -fdq -- pkg 2>/dev/null' EXIT
for id in "$@"; do
  out=$(cd /verif && VERIF_EVIDENCE=/tmp/seeded-evidence.json ./run.sh "$id" "${TIER:-quick}" 2>&1); rc=$?
  sigs=$(echo "$out" | grep -E '^  signature:' | sort | uniq -c | sort -rn | head -4 | tr '\n' ';')
  echo "$(basename "$D") $id rc=$rc $(echo "$out" | grep -E '^(SUMMARY|INCONCLUSIVE)' | head -1 | cut -c1-120) $sigs"
done
