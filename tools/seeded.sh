#!/usr/bin/env bash
# tools/seeded.sh <seeded-dir> <check-id>...
# Runs the given quick checks (TIER=thorough for the other tier) against a scratch worktree of /repo's HEAD carrying the
# seeded change; /repo itself and the committed evidence are never touched, so several of these can run in parallel.
# Prints one line per check: seeded id, check, exit code, summary, first signatures.
set -u
D="$(cd "$1" && pwd)"; shift
V="$(cd "$(dirname "${BASH_SOURCE[0]}")/.." && pwd)"
WT=$(mktemp -d /tmp/sd-XXXXXX); OUT=$(mktemp -d /tmp/sdo-XXXXXX)
trap 'git -C /repo worktree remove --force "$WT/r" 2>/dev/null; rm -rf "$WT" "$OUT"' EXIT
git -C /repo worktree add -q --detach "$WT/r" HEAD || { echo "worktree failed"; exit 2; }
git -C "$WT/r" apply "$D/patch.diff" || { echo "$(basename "$D") PATCH DOES NOT APPLY"; exit 2; }
for id in "$@"; do
  out=$(cd "$V" && VERIF_REPO="$WT/r" VERIF_OUT="$OUT" ./run.sh "$id" "${TIER:-quick}" 2>&1); rc=$?
  sigs=$(echo "$out" | grep -E '^  signature:' | sed 's/  signature: //' | sort | uniq -c | sort -rn | head -4 | awk '{printf "%s x%s; ", $2, $1}')
  echo "$(basename "$D") $id rc=$rc $(echo "$out" | grep -E '^(SUMMARY|INCONCLUSIVE)' | head -1 | sed -E 's/property=[A-Z0-9]+ //; s/distinct_nontrivial=[0-9]+ //' | cut -c1-110) | $sigs"
done
