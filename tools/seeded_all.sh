#!/usr/bin/env bash
# tools/seeded_all.sh [jobs] : run every seeded change against the check of its own property (plus the extra checks listed in
# meta.json "also_checks"), in parallel scratch worktrees; writes seeded/INDEX.md
V="$(cd "$(dirname "${BASH_SOURCE[0]}")/.." && pwd)"; J="${1:-4}"
cd "$V"
ls -d seeded/*/ | while read d; do
  p=$(jq -r .property "$d/meta.json"); also=$(jq -r '(.also_checks // []) | join(" ")' "$d/meta.json")
  echo "$d $p $also" | sed "s/ *$//"
done | xargs -P "$J" -L1 ./tools/seeded.sh > /tmp/seeded_all.out 2>&1
sort /tmp/seeded_all.out > /tmp/seeded_all.sorted
{
echo "# Seeded changes (independent sub-agents) and the checks that catch them"
echo
echo "Produced by \`tools/seeded_all.sh\` at /repo $(git -C /repo log --format=%h -1), quick tier, VERIF_SEED=${VERIF_SEED:-1}. rc=1 = caught (VIOLATION), rc=0 = missed."
echo
echo "| Change | Check | rc | First signatures | What the change needs to manifest |"
echo "|---|---|---|---|---|"
while read -r sid chk rc rest; do
  sigs="${rest##*| }"
  needs=$(jq -r '(.needs_to_manifest // .needs // "") | .[0:260]' "seeded/$sid/meta.json" | tr '\n|' ' /')
  echo "| $sid | $chk | ${rc#rc=} | $sigs | $needs |"
done < /tmp/seeded_all.sorted
} > seeded/INDEX.md
cat /tmp/seeded_all.sorted
