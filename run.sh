#!/usr/bin/env bash
# run.sh <property-id> quick|thorough            run the check for one property
# run.sh <property-id> --replay <path>            show a recorded witness and re-run its seed/tier
# run.sh setup                                     build tools, warm the -race build cache
#
# Contract: exit 0 = held on everything observed; exit 1 + "VIOLATION property=<id> replay=<path>";
# exit 3 = inconclusive (watchdog, build failure, monitor observed nothing) - never on the unchanged tree.
set -u
ROOT="$(cd "$(dirname "${BASH_SOURCE[0]}")" && pwd)"
H="$ROOT/harness"
export GOPROXY=off GOFLAGS=-mod=mod
unset GOSUMDB GOTOOLCHAIN 2>/dev/null || true
export VERIF_ROOT="$ROOT"
# VERIF_REPO: the tree under test (default /repo; scratch worktrees for seeded changes / mutants set it)
# VERIF_OUT : where evidence/, artifacts/ and .bin/ go (default: this directory; scratch runs set it so that
#             the committed evidence is not touched and runs can go in parallel)
REPO="${VERIF_REPO:-/repo}"
OUT="${VERIF_OUT:-$ROOT}"
export VERIF_OUT="$OUT"
MODFLAG=""
if [ "$REPO" != /repo ]; then
  mkdir -p "$OUT/.bin"
  sed "s|=> /repo\$|=> $REPO|" "$H/go.mod" > "$OUT/.bin/alt.go.mod"; cp "$H/go.sum" "$OUT/.bin/alt.go.sum"
  MODFLAG="-modfile=$OUT/.bin/alt.go.mod"
fi

GO=go
if ! (cd "$REPO" && $GO version >/dev/null 2>&1); then
  # fall back to the newer cached toolchain
  GO=go1.26.8; export GOTOOLCHAIN=local GOSUMDB=off
fi

lower() { echo "$1" | tr 'A-Z' 'a-z'; }

build_check() { # $1 = id (C05) -> bin path on stdout
  local id="$1" pkg bin
  pkg="./checks/$(lower "$id")"
  bin="$OUT/.bin/$(lower "$id").test"
  mkdir -p "$OUT/.bin"
  ( cd "$H" && $GO test $MODFLAG -c -race -tags verif -vet=off -o "$bin" "$pkg" ) >&2 || return 1
  echo "$bin"
}

cmd="${1:-}"
case "$cmd" in
  setup)
    mkdir -p "$OUT/.bin" "$OUT/evidence" "$OUT/artifacts"
    rc=0
    for d in "$H"/checks/*/; do
      id="$(basename "$d")"
      build_check "$id" >/dev/null || rc=1
    done
    exit $rc
    ;;
  "")
    echo "usage: run.sh <id> quick|thorough | run.sh setup" >&2; exit 2 ;;
esac

ID="$1"; MODE="${2:-quick}"
if [ "$MODE" = "--replay" ]; then
  REPLAY="${3:?path}"
  echo "replay witness: $REPLAY"; cat "$REPLAY" | head -c 4000; echo
  seed=$(jq -r '.seed // 1' "$REPLAY" 2>/dev/null || echo 1)
  tier=$(jq -r '.tier // "quick"' "$REPLAY" 2>/dev/null || echo quick)
  VERIF_SEED="$seed" exec "$0" "$ID" "$tier"
fi

export VERIF_TIER="$MODE"
export VERIF_SEED="${VERIF_SEED:-1}"
mkdir -p "$OUT/evidence" "$OUT/artifacts/$ID"
LOG="$OUT/artifacts/$ID/last-$MODE.log"

BIN="$(build_check "$ID")" || { echo "INCONCLUSIVE property=$ID build failed"; exit 3; }
export VERIF_GO="$GO" VERIF_REPO="$REPO" VERIF_MODFLAG="$MODFLAG"

if [ "$MODE" = thorough ]; then WD="${VERIF_WATCHDOG:-7200}"; GT=7000s; else WD="${VERIF_WATCHDOG:-1500}"; GT=1450s; fi

export GORACE="halt_on_error=1 exitcode=66"
rm -f "$OUT/evidence/$ID.json" "$OUT/artifacts/$ID/$MODE-seed$VERIF_SEED-"*
( cd "$H/checks/$(lower "$ID")" && timeout -s QUIT "$WD" "$BIN" -test.v -test.timeout "$GT" -test.run "Test$ID\$" ) >"$LOG" 2>&1
rc=$?

grep -E '^(VIOLATION|KNOWN-FINDING|SUMMARY|INCONCLUSIVE|  counter|  signature)' "$LOG" || true

if grep -q '^VIOLATION property=' "$LOG"; then exit 1; fi
case $rc in
  0) if [ -s "$OUT/evidence/$ID.json" ]; then exit 0; else echo "INCONCLUSIVE property=$ID no evidence written"; exit 3; fi ;;
  124|131) echo "INCONCLUSIVE property=$ID watchdog fired after ${WD}s (log: $LOG)"; exit 3 ;;
  3) exit 3 ;;
  *)
    # the child died: a race report (exit 66), a panic or fatal error in the code under test, or os.Exit(1) without a line
    if grep -q '^panic: test timed out' "$LOG"; then echo "INCONCLUSIVE property=$ID go test timeout (log: $LOG)"; exit 3; fi
    if grep -q 'WARNING: DATA RACE' "$LOG"; then kind=data-race; elif grep -qE '^(panic:|fatal error:)' "$LOG"; then kind=crash; else kind="exit-$rc"; fi
    W="$OUT/artifacts/$ID/$MODE-seed$VERIF_SEED-$kind.log"; cp "$LOG" "$W"
    echo "VIOLATION property=$ID replay=$W"
    echo "  signature: child-$kind"
    exit 1 ;;
esac
